package main

// c05.go: translation of the VarInt / VarLong io layer of net/packet (types.go, util.go) for property C05 into
// coq/Gen/C05gen.v, on every run.  Vocabulary of the generated definitions: coq/Model/C05_syntax.v.
//
// What is translated, statement by statement (expressions and pure statements go through funcs.go, i.e. with
// its explicit wrap semantics of Go's sized integers):
//
//   - byteReaderWrapper.ReadByte, CreateByteReader, readByte, (*VarInt).ReadFrom, (*VarLong).ReadFrom become
//     terms of Base.Dec.dec.  A value of type io.ByteReader is represented by its ReadByte method, a `dec Z`.
//     The only thing that is assumed about the io.Reader handed in is the io contract: r.ReadByte() of a reader
//     that IS an io.ByteReader is the ReadByte effect, io.ReadFull(r, buf[:]) with a local `var buf [K]byte`
//     is the ReadFull effect of K bytes.  Whether the type assertion r.(io.ByteReader) succeeds is a boolean
//     PARAMETER of the generated definition (<param>_isByteReader): both paths are translated.
//     The success path of an I/O call is the continuation of the effect.  Its failure path must be, in the
//     source, either `if err != nil { return ..., err }` directly after the call (shape checked, last result
//     must be that error variable or the return must be bare in a function with named results) or a final
//     `return ..., err` handing the error variable on; anything else is rejected.
//   - `for init; cond; post { body }` around an I/O call becomes a top-level Fixpoint on FUEL that is "the rest
//     of the function from the loop head": `if cond then body; post; loop else <what follows the loop>`.
//     The fuel handed in is (K - ctr) + 1 when the body contains, at top level, `if ctr >= K { return ... }`
//     with a constant K and the post statement is ctr++ (for `ctr > K`: one more); otherwise the constant
//     c5_default_fuel.  That the fuel is never exhausted is NOT assumed: it is a consequence of the tie lemma
//     (Proofs/C05_tie_r.v), which would fail otherwise.
//   - `return a, b, X`: X = nil gives Ret (a, b); X = the error variable gives gret err (a, b);
//     X = errors.New(...) gives Fail g_errors_New.  A pointer receiver's new value is the first component.
//   - VarInt.WriteTo / VarLong.WriteTo become pure functions returning gores (n, err, bytes handed to
//     w.Write) under a writer that accepts everything; `var vi [K]byte` is a write LOG replayed on K zero
//     bytes (as in funcs.go), v.WriteToBytes(vi[:]) is the definition funcs.go generates (Gen/Funcs.v),
//     vi[:nn] with nn outside 0..K is GoPanic.
//
// Anything outside these shapes makes gotrans fail (non-zero exit, message with file:line).

import (
	"bytes"
	"fmt"
	"go/ast"
	"go/constant"
	"go/token"
	"go/types"
	"os"
	"path/filepath"
	"sort"
	"strings"
)

type c5spec struct {
	recv, name string
	kind       string // rdbyte (returns byte, error) | mkreader | readbyte3 | readfrom | writeto
}

// callees before callers
var c5Specs = []c5spec{
	{"byteReaderWrapper", "ReadByte", "rdbyte"},
	{"", "CreateByteReader", "mkreader"},
	{"", "readByte", "readbyte3"},
	{"VarInt", "ReadFrom", "readfrom"},
	{"VarLong", "ReadFrom", "readfrom"},
	{"VarInt", "WriteTo", "writeto"},
	{"VarLong", "WriteTo", "writeto"},
}

type c5w struct {
	t       *trans
	spec    c5spec
	fd      *ast.FuncDecl
	cname   string
	kind    map[string]string // Go variable -> "dec" | "prim" | "arr" | "log" | "err" | "okflag"
	arrLen  map[string]int64
	rdParam string            // name of the io.Reader / io.Writer parameter
	isBR    string            // Coq name of the boolean parameter "<param> is an io.ByteReader" ("" until used)
	known   map[string]string // translated functions: "Recv.Name" -> Coq name
	aux     *bytes.Buffer
	pending string // Go name of an error variable bound by an I/O call and not yet checked / returned
	nfake   int
	nloop   int
	resErr  string // Go name of the named error result ("" if unnamed)
	resVals []string
	params  []string
}

func (w *c5w) fail(n ast.Node, f string, a ...any) { w.t.fail(n, "c05: "+f, a...) }

func (w *c5w) coqTy(goName string) string {
	switch w.kind[goName] {
	case "dec", "prim":
		return "dec Z"
	case "arr":
		return "list Z"
	case "log":
		return "list (Z * Z)"
	case "err":
		return "N"
	case "okflag":
		return "bool"
	case "out":
		return "list Z"
	}
	if w.t.declared[goName] {
		return "bool"
	}
	return "Z"
}

func (w *c5w) def(name string) string {
	c := w.t.define(name)
	w.t.ctype[c] = w.coqTy(name)
	return c
}

func (w *c5w) asg(n ast.Node, name string) string {
	c := w.t.assign(n, name)
	w.t.ctype[c] = w.coqTy(name)
	return c
}

func (w *c5w) bind(n ast.Node, name string, tok token.Token) string {
	if name == "_" {
		return "_"
	}
	if tok == token.DEFINE {
		if _, ok := w.t.scopes[len(w.t.scopes)-1][name]; !ok {
			return w.def(name)
		}
	}
	return w.asg(n, name)
}

func (w *c5w) fake(coq string, like ast.Expr, ty types.Type) *ast.Ident {
	w.nfake++
	id := &ast.Ident{Name: fmt.Sprintf("c5·%d", w.nfake), NamePos: like.Pos()}
	w.t.scopes[0][id.Name] = coq
	if ty != nil {
		w.t.info.Types[id] = types.TypeAndValue{Type: ty}
	} else if tv, ok := w.t.info.Types[like]; ok && tv.Value == nil {
		w.t.info.Types[id] = tv
	}
	return id
}

func c5sel(e ast.Expr) string {
	switch x := e.(type) {
	case *ast.Ident:
		return x.Name
	case *ast.SelectorExpr:
		if p := c5sel(x.X); p != "" {
			return p + "." + x.Sel.Name
		}
	}
	return ""
}

func (w *c5w) constInt(e ast.Expr) (int64, bool) {
	if tv, ok := w.t.info.Types[e]; ok && tv.Value != nil && tv.Value.Kind() == constant.Int {
		if v, ok := constant.Int64Val(tv.Value); ok {
			return v, true
		}
	}
	return 0, false
}

// rw rewrites what funcs.go does not know - x[i] on a local byte array filled by io.ReadFull - into an
// identifier bound to its Coq text; a constant index must be inside the array
func (w *c5w) rw(e ast.Expr) ast.Expr {
	info := w.t.info
	if tv, ok := info.Types[e]; ok && tv.Value != nil {
		return e
	}
	cp := func(n, o ast.Expr) ast.Expr {
		if tv, ok := info.Types[o]; ok {
			info.Types[n] = tv
		}
		return n
	}
	switch x := e.(type) {
	case *ast.ParenExpr:
		return cp(&ast.ParenExpr{X: w.rw(x.X), Lparen: x.Lparen}, e)
	case *ast.UnaryExpr:
		return cp(&ast.UnaryExpr{Op: x.Op, X: w.rw(x.X), OpPos: x.OpPos}, e)
	case *ast.BinaryExpr:
		return cp(&ast.BinaryExpr{X: w.rw(x.X), Op: x.Op, Y: w.rw(x.Y), OpPos: x.OpPos}, e)
	case *ast.IndexExpr:
		if id, ok := x.X.(*ast.Ident); ok && w.kind[id.Name] == "arr" {
			k, ok := w.constInt(x.Index)
			if !ok || k < 0 || k >= w.arrLen[id.Name] {
				w.fail(e, "index of %s is not a constant inside the array", id.Name)
			}
			c, _ := w.t.lookup(id.Name)
			return w.fake(fmt.Sprintf("(gnth %s (%d))", c, k), e, types.Typ[types.Uint8])
		}
		w.fail(e, "unsupported index expression")
	case *ast.Ident:
		switch w.kind[x.Name] {
		case "dec", "prim", "arr", "log", "err", "out":
			w.fail(e, "%s is used as a number", x.Name)
		}
		return e
	case *ast.CallExpr:
		n := &ast.CallExpr{Fun: x.Fun, Lparen: x.Lparen, Rparen: x.Rparen, Ellipsis: x.Ellipsis}
		for _, a := range x.Args {
			n.Args = append(n.Args, w.rw(a))
		}
		return cp(n, e)
	case *ast.StarExpr, *ast.SelectorExpr:
		w.fail(e, "unsupported expression (a read of the destination or of a field)")
	}
	return e
}

func (w *c5w) ex(e ast.Expr) string { return w.t.expr(w.rw(e)) }

// pure1 translates one straight-line pure statement (:=, =, op=, ++, --) into its `let ... in` prefix
func (w *c5w) pure1(s ast.Stmt) string {
	switch x := s.(type) {
	case *ast.AssignStmt:
		cp := *x
		cp.Rhs = nil
		for _, r := range x.Rhs {
			cp.Rhs = append(cp.Rhs, w.rw(r))
		}
		for _, l := range x.Lhs {
			if id, ok := l.(*ast.Ident); ok {
				if k := w.kind[id.Name]; k != "" {
					w.fail(s, "assignment to %s (%s) outside the supported shapes", id.Name, k)
				}
			}
		}
		s = &cp
	case *ast.IncDecStmt:
	default:
		w.fail(s, "unsupported statement %T", s)
	}
	save := w.t.fall
	w.t.fall = func() string { return "\x00" }
	out := w.t.stmts([]ast.Stmt{s}, s)
	w.t.fall = save
	if strings.Count(out, "\x00") != 1 || !strings.HasSuffix(out, "\x00") {
		w.fail(s, "statement is not a straight-line pure statement")
	}
	return strings.TrimSuffix(out, "\x00")
}

func isNilIdent(e ast.Expr) bool { id, ok := e.(*ast.Ident); return ok && id.Name == "nil" }

// isErrCheck: `if e != nil { return ... }` for the error variable e (no init, no else)
func (w *c5w) isErrCheck(s ast.Stmt, e string) (*ast.IfStmt, bool) {
	x, ok := s.(*ast.IfStmt)
	if !ok || x.Init != nil || x.Else != nil {
		return nil, false
	}
	be, ok := x.Cond.(*ast.BinaryExpr)
	if !ok || be.Op != token.NEQ || !isNilIdent(be.Y) {
		return nil, false
	}
	id, ok := be.X.(*ast.Ident)
	if !ok || id.Name != e {
		return nil, false
	}
	return x, true
}

// checkErrReturn: the body of an error check is one return that hands the error variable on
func (w *c5w) checkErrReturn(x *ast.IfStmt, e string) {
	if len(x.Body.List) != 1 {
		w.fail(x, "the failure path of an I/O call is not a single return")
	}
	r, ok := x.Body.List[0].(*ast.ReturnStmt)
	if !ok {
		w.fail(x, "the failure path of an I/O call is not a return")
	}
	if len(r.Results) == 0 {
		if w.resErr == "" || w.resErr != e {
			w.fail(r, "bare return on the failure path, but %s is not the named error result", e)
		}
		return
	}
	last, ok := r.Results[len(r.Results)-1].(*ast.Ident)
	if !ok || last.Name != e {
		w.fail(r, "the failure path of an I/O call does not return the error %s", e)
	}
}

// result renders a return: vals are the Coq texts of the non-error results, errE the Go error expression
// (nil when the return is bare)
func (w *c5w) result(n ast.Node, vals []string, errE ast.Expr, bare bool) string {
	tup := tuple(vals)
	if w.spec.kind == "writeto" {
		out, _ := w.t.lookup("c5out")
		var ec string
		switch {
		case bare:
			ec, _ = w.t.lookup(w.resErr)
		case isNilIdent(errE):
			ec = "0%N"
		default:
			id, ok := errE.(*ast.Ident)
			if !ok || w.kind[id.Name] != "err" {
				w.fail(n, "unsupported error result")
			}
			ec, _ = w.t.lookup(id.Name)
		}
		return fmt.Sprintf("GoRet (%s, %s, %s)", tup, ec, out)
	}
	if bare {
		ec, _ := w.t.lookup(w.resErr)
		return fmt.Sprintf("gret %s %s", ec, tup)
	}
	if isNilIdent(errE) {
		return "Ret " + tup
	}
	if id, ok := errE.(*ast.Ident); ok && w.kind[id.Name] == "err" {
		ec, _ := w.t.lookup(id.Name)
		return fmt.Sprintf("gret %s %s", ec, tup)
	}
	if call, ok := errE.(*ast.CallExpr); ok && c5sel(call.Fun) == "errors.New" && len(call.Args) == 1 {
		if _, ok := call.Args[0].(*ast.BasicLit); ok {
			return "Fail g_errors_New"
		}
	}
	w.fail(n, "unsupported error result")
	return ""
}

func (w *c5w) recvCur() string {
	c, ok := w.t.lookup(w.t.recvName)
	if !ok {
		w.fail(w.fd, "internal: receiver not bound")
	}
	return c
}

func (w *c5w) ret(x *ast.ReturnStmt) string {
	if w.pending != "" {
		// a final return that hands the pending error variable on
		if len(x.Results) == 0 {
			if w.resErr != w.pending {
				w.fail(x, "the error %s of the I/O call above is dropped", w.pending)
			}
		} else if id, ok := x.Results[len(x.Results)-1].(*ast.Ident); !ok || id.Name != w.pending {
			w.fail(x, "the error %s of the I/O call above is dropped", w.pending)
		}
		w.pending = ""
	}
	switch w.spec.kind {
	case "mkreader":
		if len(x.Results) != 1 {
			w.fail(x, "return of CreateByteReader")
		}
		return w.decValue(x.Results[0])
	case "rdbyte":
		if len(x.Results) != 2 {
			w.fail(x, "return with %d results", len(x.Results))
		}
		return w.result(x, []string{w.ex(x.Results[0])}, x.Results[1], false)
	case "readbyte3":
		if len(x.Results) != 3 {
			w.fail(x, "return with %d results", len(x.Results))
		}
		return w.result(x, []string{w.ex(x.Results[0]), w.ex(x.Results[1])}, x.Results[2], false)
	case "readfrom":
		if len(x.Results) == 0 {
			if len(w.resVals) != 1 || w.resErr == "" {
				w.fail(x, "bare return in a function without named results")
			}
			n, _ := w.t.lookup(w.resVals[0])
			return w.result(x, []string{w.recvCur(), n}, nil, true)
		}
		if len(x.Results) != 2 {
			w.fail(x, "return with %d results", len(x.Results))
		}
		return w.result(x, []string{w.recvCur(), w.ex(x.Results[0])}, x.Results[1], false)
	case "writeto":
		if len(x.Results) == 0 {
			if len(w.resVals) != 1 || w.resErr == "" {
				w.fail(x, "bare return in a function without named results")
			}
			n, _ := w.t.lookup(w.resVals[0])
			return w.result(x, []string{n}, nil, true)
		}
		if len(x.Results) != 2 {
			w.fail(x, "return with %d results", len(x.Results))
		}
		return w.result(x, []string{w.ex(x.Results[0])}, x.Results[1], false)
	}
	w.fail(x, "internal: unknown kind")
	return ""
}

// decValue: an expression of type io.ByteReader as its ReadByte method (a dec Z)
func (w *c5w) decValue(e ast.Expr) string {
	switch x := e.(type) {
	case *ast.Ident:
		switch w.kind[x.Name] {
		case "prim":
			return "(ReadByte (fun c : N => Ret (gbyte c)))"
		case "dec":
			c, _ := w.t.lookup(x.Name)
			return c
		}
	case *ast.CompositeLit:
		// byteReaderWrapper{reader}: the wrapper around the io.Reader parameter
		if id, ok := x.Type.(*ast.Ident); ok && len(x.Elts) == 1 {
			if cn, ok := w.known[id.Name+".ReadByte"]; ok {
				if a, ok := x.Elts[0].(*ast.Ident); ok && a.Name == w.rdParam {
					return cn
				}
			}
		}
	}
	w.fail(e, "unsupported io.ByteReader value")
	return ""
}

func (w *c5w) isBRparam() string {
	if w.isBR == "" {
		w.isBR = w.rdParam + "_isByteReader"
		w.t.used[w.isBR] = 1
	}
	return w.isBR
}

// typeAssert recognises `x, ok := P.(io.ByteReader)` with P the reader parameter
func (w *c5w) typeAssert(s ast.Stmt) (xName, okName string, ok bool) {
	as, isAs := s.(*ast.AssignStmt)
	if !isAs || as.Tok != token.DEFINE || len(as.Lhs) != 2 || len(as.Rhs) != 1 {
		return
	}
	ta, isTA := as.Rhs[0].(*ast.TypeAssertExpr)
	if !isTA || ta.Type == nil || c5sel(ta.Type) != "io.ByteReader" {
		return
	}
	p, isID := ta.X.(*ast.Ident)
	if !isID || p.Name != w.rdParam || w.kind[p.Name] != "" {
		return
	}
	a, ok1 := as.Lhs[0].(*ast.Ident)
	b, ok2 := as.Lhs[1].(*ast.Ident)
	if !ok1 || !ok2 || a.Name == "_" || b.Name == "_" {
		return
	}
	return a.Name, b.Name, true
}

// the source of an io.ReadFull: the io.Reader parameter itself, or the embedded Reader of the receiver
func (w *c5w) isSource(e ast.Expr) bool {
	switch x := e.(type) {
	case *ast.Ident:
		return x.Name == w.rdParam && w.kind[x.Name] == ""
	case *ast.SelectorExpr:
		if id, ok := x.X.(*ast.Ident); ok && w.spec.kind == "rdbyte" && id.Name == w.t.recvName && x.Sel.Name == "Reader" {
			return true
		}
	}
	return false
}

func fullSliceOf(e ast.Expr) (string, bool) {
	sl, ok := e.(*ast.SliceExpr)
	if !ok || sl.Low != nil || sl.High != nil || sl.Slice3 {
		return "", false
	}
	id, ok := sl.X.(*ast.Ident)
	if !ok {
		return "", false
	}
	return id.Name, true
}

// stmts translates a statement list; fall renders what happens when control reaches its end
func (w *c5w) stmts(list []ast.Stmt, fall func() string) string {
	if len(list) == 0 {
		if w.pending != "" {
			w.fail(w.fd, "the error %s of an I/O call is neither checked nor returned", w.pending)
		}
		return fall()
	}
	s, rest := list[0], list[1:]
	if w.pending != "" {
		if x, ok := w.isErrCheck(s, w.pending); ok {
			w.checkErrReturn(x, w.pending)
			n := 0
			if r := x.Body.List[0].(*ast.ReturnStmt); r != nil {
				n = len(r.Results)
			}
			w.pending = ""
			return fmt.Sprintf("(* if err != nil { return with %d results }: the failure path of the I/O call above *)\n  ", n) + w.stmts(rest, fall)
		}
		if _, ok := s.(*ast.ReturnStmt); !ok {
			w.fail(s, "the error %s of the I/O call above is neither checked at once nor returned", w.pending)
		}
	}
	next := func() string { return w.stmts(rest, fall) }
	switch x := s.(type) {
	case *ast.EmptyStmt:
		return next()
	case *ast.ReturnStmt:
		return w.ret(x)
	case *ast.DeclStmt:
		gd, ok := x.Decl.(*ast.GenDecl)
		if !ok || gd.Tok != token.VAR {
			w.fail(x, "unsupported declaration")
		}
		var b bytes.Buffer
		for _, sp := range gd.Specs {
			vs := sp.(*ast.ValueSpec)
			if len(vs.Values) != 0 || vs.Type == nil {
				w.fail(x, "unsupported var declaration")
			}
			for _, n := range vs.Names {
				if at, ok := vs.Type.(*ast.ArrayType); ok {
					k, okk := w.constInt(at.Len)
					if at.Len == nil || !okk || k <= 0 || k > 64 || c5sel(at.Elt) != "byte" {
						w.fail(x, "unsupported array type")
					}
					w.arrLen[n.Name] = k
					if w.spec.kind == "writeto" {
						w.kind[n.Name] = "log"
						fmt.Fprintf(&b, "let %s := (@nil (Z * Z)) in\n  ", w.def(n.Name))
					} else {
						w.kind[n.Name] = "arr"
						fmt.Fprintf(&b, "let %s := grepeat (%d) in\n  ", w.def(n.Name), k)
					}
					continue
				}
				tv, ok := w.t.info.Types[vs.Type]
				if !ok {
					w.fail(x, "unknown type in a var declaration")
				}
				if _, _, ok := intKind(tv.Type); !ok {
					w.fail(x, "var of a type that is not a sized integer")
				}
				fmt.Fprintf(&b, "let %s := (0) in\n  ", w.def(n.Name))
			}
		}
		return b.String() + next()
	case *ast.IncDecStmt:
		return w.pure1(x) + next()
	case *ast.AssignStmt:
		if len(x.Rhs) == 1 {
			if call, ok := x.Rhs[0].(*ast.CallExpr); ok {
				if out, ok := w.ioCall(x, call, next); ok {
					return out
				}
			}
		}
		// *recv = T(e): the new value of the destination
		if len(x.Lhs) == 1 && len(x.Rhs) == 1 && x.Tok == token.ASSIGN {
			if st, ok := x.Lhs[0].(*ast.StarExpr); ok {
				id, ok := st.X.(*ast.Ident)
				if !ok || w.spec.kind != "readfrom" || id.Name != w.t.recvName {
					w.fail(x, "unsupported assignment through a pointer")
				}
				v := w.ex(x.Rhs[0])
				return fmt.Sprintf("let %s := %s in\n  ", w.asg(x, id.Name), v) + next()
			}
		}
		return w.pure1(x) + next()
	case *ast.IfStmt:
		// if x, ok := r.(io.ByteReader); ok { ... }
		if x.Init != nil {
			xn, okn, ok := w.typeAssert(x.Init)
			cid, isID := x.Cond.(*ast.Ident)
			if !ok || !isID || cid.Name != okn || x.Else != nil {
				w.fail(x, "unsupported if statement with an init statement")
			}
			flag := w.isBRparam()
			w.t.push()
			saveKind := w.kind[xn]
			w.kind[xn] = "prim"
			w.kind[okn] = "okflag"
			w.t.scopes[len(w.t.scopes)-1][xn] = "c5_prim_reader"
			w.t.scopes[len(w.t.scopes)-1][okn] = flag
			th := w.stmts(x.Body.List, func() string {
				w.fail(x, "the branch of a successful type assertion does not end in a return")
				return ""
			})
			w.t.pop()
			if saveKind == "" {
				delete(w.kind, xn)
			} else {
				w.kind[xn] = saveKind
			}
			delete(w.kind, okn)
			return fmt.Sprintf("if %s\n  then %s\n  else %s", flag, th, next())
		}
		if x.Else != nil {
			w.fail(x, "unsupported if statement with an else branch")
		}
		cond := w.ex(x.Cond)
		sc, _ := w.t.snapshot()
		w.t.push()
		th := w.stmts(x.Body.List, func() string {
			w.fail(x, "an if statement whose body does not end in a return")
			return ""
		})
		w.t.scopes = sc
		return fmt.Sprintf("if %s\n  then %s\n  else %s", cond, th, next())
	case *ast.ForStmt:
		return w.loop(x, next)
	}
	w.fail(s, "unsupported statement %T", s)
	return ""
}

// ioCall translates the statements whose right-hand side is a call with an effect; ok = false: not one of them
func (w *c5w) ioCall(x *ast.AssignStmt, call *ast.CallExpr, next func() string) (string, bool) {
	fn := c5sel(call.Fun)
	lhs := func(i int) *ast.Ident {
		id, ok := x.Lhs[i].(*ast.Ident)
		if !ok {
			w.fail(x, "unsupported assignment target")
		}
		return id
	}
	bindErr := func(id *ast.Ident) string {
		if id.Name == "_" {
			w.fail(x, "the error of an I/O call is discarded")
		}
		if x.Tok == token.DEFINE {
			if _, ok := w.t.scopes[len(w.t.scopes)-1][id.Name]; !ok {
				w.kind[id.Name] = "err"
			}
		}
		if w.kind[id.Name] != "err" {
			w.fail(x, "%s is not an error variable", id.Name)
		}
		c := w.bind(x, id.Name, x.Tok)
		w.pending = id.Name
		return c
	}
	switch {
	case fn == "CreateByteReader":
		cn, ok := w.known[".CreateByteReader"]
		if !ok || len(call.Args) != 1 || len(x.Lhs) != 1 || x.Tok != token.DEFINE {
			w.fail(x, "unsupported use of CreateByteReader")
		}
		a, ok := call.Args[0].(*ast.Ident)
		if !ok || a.Name != w.rdParam || w.kind[a.Name] != "" {
			w.fail(x, "CreateByteReader of something that is not the io.Reader parameter")
		}
		id := lhs(0)
		w.kind[id.Name] = "dec"
		return fmt.Sprintf("let %s := %s %s in\n  ", w.def(id.Name), cn, w.isBRparam()) + next(), true
	case strings.HasSuffix(fn, ".ReadByte") && len(call.Args) == 0:
		sel := call.Fun.(*ast.SelectorExpr)
		rid, ok := sel.X.(*ast.Ident)
		if !ok || len(x.Lhs) != 2 {
			w.fail(x, "unsupported ReadByte call")
		}
		vid, eid := lhs(0), lhs(1)
		switch w.kind[rid.Name] {
		case "prim":
			v := w.bind(x, vid.Name, x.Tok)
			e := bindErr(eid)
			head := fmt.Sprintf("ReadByte (fun c : N =>\n  let %s := gbyte c in\n  let %s := 0%%N in\n  ", v, e)
			if v == "_" {
				head = fmt.Sprintf("ReadByte (fun c : N =>\n  let %s := 0%%N in\n  ", e)
			}
			return head + next() + ")", true
		case "dec":
			src, _ := w.t.lookup(rid.Name)
			v := w.bind(x, vid.Name, x.Tok)
			e := bindErr(eid)
			if v == "_" {
				v = w.t.fresh("unused")
			}
			return fmt.Sprintf("bind %s (fun %s : Z =>\n  let %s := 0%%N in\n  ", src, v, e) + next() + ")", true
		}
		w.fail(x, "ReadByte of something that is not a translated io.ByteReader")
	case fn == "io.ReadFull":
		if len(call.Args) != 2 || len(x.Lhs) != 2 || !w.isSource(call.Args[0]) {
			w.fail(x, "unsupported io.ReadFull call")
		}
		an, ok := fullSliceOf(call.Args[1])
		if !ok || w.kind[an] != "arr" {
			w.fail(x, "io.ReadFull into something that is not x[:] of a local byte array")
		}
		nid, eid := lhs(0), lhs(1)
		k := w.arrLen[an]
		arr := w.asg(x, an)
		var b bytes.Buffer
		fmt.Fprintf(&b, "ReadFull (Z.to_N (%d)) (fun data : list N =>\n  let %s := map gbyte data in\n  ", k, arr)
		if nid.Name != "_" {
			fmt.Fprintf(&b, "let %s := glen data in\n  ", w.bind(x, nid.Name, x.Tok))
		}
		fmt.Fprintf(&b, "let %s := 0%%N in\n  ", bindErr(eid))
		return b.String() + next() + ")", true
	case strings.HasSuffix(fn, ".WriteToBytes"):
		sel := call.Fun.(*ast.SelectorExpr)
		rid, ok := sel.X.(*ast.Ident)
		if !ok || w.spec.kind != "writeto" || rid.Name != w.t.recvName || len(call.Args) != 1 || len(x.Lhs) != 1 {
			w.fail(x, "unsupported WriteToBytes call")
		}
		an, ok := fullSliceOf(call.Args[0])
		if !ok || w.kind[an] != "log" {
			w.fail(x, "WriteToBytes into something that is not x[:] of a local byte array")
		}
		cur, _ := w.t.lookup(an)
		rc := w.recvCur()
		nn := w.bind(x, lhs(0).Name, x.Tok)
		lg := w.t.fresh("lg")
		return fmt.Sprintf("let '(%s, %s) := packet_%s_WriteToBytes %s in\n  let %s := (%s ++ %s)%%list in\n  ",
			nn, lg, w.spec.recv, rc, w.asg(x, an), cur, lg) + next(), true
	case fn == w.rdParam+".Write" && w.spec.kind == "writeto":
		if len(call.Args) != 1 || len(x.Lhs) != 2 {
			w.fail(x, "unsupported Write call")
		}
		sl, ok := call.Args[0].(*ast.SliceExpr)
		if !ok || sl.Low != nil || sl.Slice3 || sl.High == nil {
			w.fail(x, "Write of something that is not x[:n]")
		}
		aid, ok := sl.X.(*ast.Ident)
		if !ok || w.kind[aid.Name] != "log" {
			w.fail(x, "Write of something that is not a slice of a local byte array")
		}
		k := w.arrLen[aid.Name]
		cur, _ := w.t.lookup(aid.Name)
		hi := w.ex(sl.High)
		out, _ := w.t.lookup("c5out")
		wr := w.t.fresh("wr")
		nid, eid := lhs(0), lhs(1)
		var b bytes.Buffer
		fmt.Fprintf(&b, "if (%s <? 0) || ((%d) <? %s) then GoPanic else\n  ", hi, k, hi)
		fmt.Fprintf(&b, "let %s := gtake %s (apply_writes %s (repeat 0 %d)) in\n  ", wr, hi, cur, k)
		fmt.Fprintf(&b, "let %s := (%s ++ %s)%%list in\n  ", w.asg(x, "c5out"), out, wr)
		if nid.Name != "_" {
			fmt.Fprintf(&b, "let %s := glen %s in\n  ", w.bind(x, nid.Name, x.Tok), wr)
		}
		e := bindErr(eid)
		fmt.Fprintf(&b, "let %s := 0%%N in\n  ", e)
		return b.String() + next(), true
	}
	return "", false
}

// loop: `for init; cond; post { body }` whose body performs I/O -> a Fixpoint on fuel (see the header)
func (w *c5w) loop(x *ast.ForStmt, next func() string) string {
	t := w.t
	if x.Cond == nil {
		w.fail(x, "for statement without a condition")
	}
	bad := false
	ast.Inspect(x.Body, func(n ast.Node) bool {
		switch n.(type) {
		case *ast.BranchStmt, *ast.ForStmt, *ast.RangeStmt, *ast.GoStmt, *ast.DeferStmt, *ast.SwitchStmt, *ast.SelectStmt, *ast.LabeledStmt:
			bad = true
		}
		return true
	})
	if bad {
		w.fail(x, "unsupported statement inside a loop (break/continue/nested loop/switch)")
	}
	t.push() // scope of the init statement
	var pre string
	if x.Init != nil {
		as, ok := x.Init.(*ast.AssignStmt)
		if !ok || as.Tok != token.DEFINE {
			w.fail(x, "unsupported for-init statement")
		}
		pre = w.pure1(as)
	}
	// loop-carried variables: everything in scope that body or post assign
	as := map[string]bool{}
	t.assigned(x.Body.List, as)
	bodyAs := map[string]bool{}
	for k := range as {
		bodyAs[k] = true
	}
	if x.Post != nil {
		t.assigned([]ast.Stmt{x.Post}, as)
	}
	ast.Inspect(x.Body, func(n ast.Node) bool { // *recv = ... inside the loop
		if a, ok := n.(*ast.AssignStmt); ok {
			for _, l := range a.Lhs {
				if st, ok := l.(*ast.StarExpr); ok {
					if id, ok := st.X.(*ast.Ident); ok {
						as[id.Name] = true
					}
				}
			}
		}
		return true
	})
	var state []string
	for n := range as {
		if strings.HasPrefix(n, "c5·") {
			continue
		}
		if _, ok := t.lookup(n); ok {
			state = append(state, n)
		}
	}
	sort.Strings(state)
	// fuel
	fuel := "c5_default_fuel"
	if post, ok := x.Post.(*ast.IncDecStmt); ok && post.Tok == token.INC {
		if ctr, ok := post.X.(*ast.Ident); ok && !bodyAs[ctr.Name] {
			for _, bs := range x.Body.List {
				ifs, ok := bs.(*ast.IfStmt)
				if !ok || ifs.Init != nil || ifs.Else != nil || len(ifs.Body.List) == 0 {
					continue
				}
				if _, ok := ifs.Body.List[len(ifs.Body.List)-1].(*ast.ReturnStmt); !ok {
					continue
				}
				be, ok := ifs.Cond.(*ast.BinaryExpr)
				if !ok || (be.Op != token.GEQ && be.Op != token.GTR) {
					continue
				}
				c, ok := be.X.(*ast.Ident)
				k, okk := w.constInt(be.Y)
				if !ok || !okk || c.Name != ctr.Name {
					continue
				}
				cur, _ := t.lookup(ctr.Name)
				extra := 1
				if be.Op == token.GTR {
					extra = 2
				}
				fuel = fmt.Sprintf("(Z.to_nat ((%d) - %s + %d))", k, cur, extra)
				break
			}
		}
	}
	w.nloop++
	name := fmt.Sprintf("%s_loop%d", w.cname, w.nloop)
	var actuals []string
	for _, n := range state {
		c, _ := t.lookup(n)
		actuals = append(actuals, c)
	}
	visible := map[string]bool{}
	for _, m := range t.scopes {
		for g, c := range m {
			if !strings.HasPrefix(g, "c5·") {
				visible[c] = true
			}
		}
	}
	if w.isBR != "" {
		visible[w.isBR] = true
	}
	for _, p := range w.params {
		visible[p] = true
	}
	// inside the Fixpoint
	t.push()
	f0, f1 := t.fresh("fuel"), t.fresh("fuel")
	var formals []string
	for _, n := range state {
		formals = append(formals, w.asg(x, n))
	}
	isFormal := map[string]bool{f0: true, f1: true}
	for _, f := range formals {
		isFormal[f] = true
	}
	cond := w.ex(x.Cond)
	sc, _ := t.snapshot()
	body := w.stmts(x.Body.List, func() string {
		var p string
		if x.Post != nil {
			p = w.pure1(x.Post)
		}
		var cur []string
		for _, n := range state {
			c, _ := t.lookup(n)
			cur = append(cur, c)
		}
		return p + "(" + name + " " + f1 + " \x05 " + strings.Join(cur, " ") + ")"
	})
	t.scopes = sc
	t.pop() // the Fixpoint's scope: back to the init scope with the formals as current names
	// what follows the loop sees the loop-carried variables as the formals of the LAST condition test
	for i, n := range state {
		for j := len(t.scopes) - 1; j >= 0; j-- {
			if _, ok := t.scopes[j][n]; ok {
				t.scopes[j][n] = formals[i]
				break
			}
		}
	}
	t.pop() // scope of the init statement: its variables are not visible after the loop
	after := next()
	text := "if " + cond + "\n    then " + body + "\n    else " + after
	// captured: names visible at the loop head that the text mentions
	scan := text
	for {
		i := strings.Index(scan, "(*")
		if i < 0 {
			break
		}
		j := strings.Index(scan[i:], "*)")
		if j < 0 {
			break
		}
		scan = scan[:i] + " " + scan[i+j+2:]
	}
	toks := strings.FieldsFunc(scan, func(r rune) bool {
		return !(r == '_' || r == '\'' || r >= '0' && r <= '9' || r >= 'a' && r <= 'z' || r >= 'A' && r <= 'Z')
	})
	seen := map[string]bool{}
	var captured []string
	for _, tk := range toks {
		if seen[tk] || isFormal[tk] || !visible[tk] {
			continue
		}
		seen[tk] = true
		captured = append(captured, tk)
	}
	sort.Strings(captured)
	capArgs := " "
	if len(captured) > 0 {
		capArgs = " " + strings.Join(captured, " ") + " "
	}
	text = strings.ReplaceAll(text, " \x05 ", capArgs)
	var bs []string
	for _, c := range captured {
		ty := t.ctype[c]
		if c == w.isBR {
			ty = "bool"
		}
		if ty == "" {
			ty = "Z"
		}
		bs = append(bs, fmt.Sprintf("(%s : %s)", c, ty))
	}
	for _, f := range formals {
		ty := t.ctype[f]
		if ty == "" {
			ty = "Z"
		}
		bs = append(bs, fmt.Sprintf("(%s : %s)", f, ty))
	}
	fmt.Fprintf(w.aux, "(* net/packet, the loop of func %s.%s from its head to the end of the function *)\nFixpoint %s (%s : nat) %s {struct %s} :=\n  match %s with\n  | O => NoFuel\n  | S %s =>\n    %s\n  end.\n\n",
		w.spec.recv, w.spec.name, name, f0, strings.Join(bs, " "), f0, f0, f1, text)
	call := "(" + name + " " + fuel
	if len(captured) > 0 {
		call += " " + strings.Join(captured, " ")
	}
	call += " " + strings.Join(actuals, " ") + ")"
	return pre + call
}

func genC05(repo string) (out string, err error) {
	defer func() {
		if r := recover(); r != nil {
			if te, ok := r.(trErr); ok {
				err = te
				return
			}
			panic(r)
		}
	}()
	const dir = "net/packet"
	fset := token.NewFileSet()
	files, _, e := parseDir(fset, filepath.Join(repo, dir))
	if e != nil {
		return "", e
	}
	conf := types.Config{Importer: &fakeImporter{map[string]*types.Package{}}, Error: func(error) {}}
	info := &types.Info{Types: map[ast.Expr]types.TypeAndValue{}, Defs: map[*ast.Ident]types.Object{}, Uses: map[*ast.Ident]types.Object{}}
	conf.Check(dir, fset, files, info)

	// the declared types the translation relies on
	wantDecl := map[string]string{"VarInt": "int32", "VarLong": "int64"}
	for _, f := range files {
		for _, d := range f.Decls {
			gd, ok := d.(*ast.GenDecl)
			if !ok || gd.Tok != token.TYPE {
				continue
			}
			for _, sp := range gd.Specs {
				ts := sp.(*ast.TypeSpec)
				if want, ok := wantDecl[ts.Name.Name]; ok {
					if types.ExprString(ts.Type) != want || ts.Assign.IsValid() {
						return "", fmt.Errorf("%s: c05: type %s is not declared as %s", fset.Position(ts.Pos()), ts.Name.Name, want)
					}
					delete(wantDecl, ts.Name.Name)
				}
				if ts.Name.Name == "byteReaderWrapper" {
					if types.ExprString(ts.Type) != "struct{io.Reader}" {
						return "", fmt.Errorf("%s: c05: byteReaderWrapper is not struct{io.Reader}", fset.Position(ts.Pos()))
					}
					wantDecl["byteReaderWrapper"] = "seen"
				}
			}
		}
	}
	if len(wantDecl) != 1 || wantDecl["byteReaderWrapper"] != "seen" {
		return "", fmt.Errorf("c05: type declarations of VarInt / VarLong / byteReaderWrapper not found in %s", dir)
	}

	var b bytes.Buffer
	b.WriteString("(* GENERATED by tools/gotrans (c05.go) from net/packet (types.go, util.go) of the repository working tree -\n   do not edit *)\n")
	b.WriteString("From Coq Require Import ZArith NArith Bool List.\nFrom GoMC Require Import Base.Bytes Base.Dec Base.GoInt Gen.Funcs Model.C05_syntax.\nImport ListNotations.\nLocal Open Scope Z_scope.\nLocal Open Scope bool_scope.\n\n")
	known := map[string]string{}
	for _, sp := range c5Specs {
		fd := findFunc(files, sp.recv, sp.name)
		if fd == nil || fd.Body == nil {
			return "", fmt.Errorf("c05: function %s.%s not found in %s", sp.recv, sp.name, dir)
		}
		cname := "packet_" + sp.name + "_io"
		if sp.recv != "" {
			cname = "packet_" + sp.recv + "_" + sp.name + "_io"
		}
		t := &trans{fset: fset, info: info, prefix: "packet", used: map[string]int{}, freeSet: map[string]bool{}, known: map[string]*knownFn{}}
		t.push()
		for _, r := range []string{"wrap_s", "wrap_u", "Z", "N", "bool", "true", "false", "negb", "fst", "snd", "if", "then", "else", "let", "in", "fun", "at", "as", "end", "match", "with", "return", "Type", "Set", "Prop", "forall", "exists",
			"bind", "Ret", "Fail", "Crash", "NoFuel", "ReadByte", "ReadFull", "map", "nth", "length", "repeat", "firstn", "skipn", "app", "list", "dec", "nat", "O", "S", "c", "data",
			"gbyte", "glen", "gnth", "gtake", "grepeat", "gret", "g_errors_New", "c5_default_fuel", "GoRet", "GoPanic", "apply_writes"} {
			t.used[r] = 1
		}
		t.recvType, t.cname = sp.recv, cname
		t.slicePar, t.ctype, t.declared = map[string]bool{}, map[string]string{}, map[string]bool{}
		t.arrSet, t.fnVars = map[string]bool{}, map[string]bool{}
		ast.Inspect(fd, func(n ast.Node) bool {
			if id, ok := n.(*ast.Ident); ok {
				if obj := info.Defs[id]; obj != nil && obj.Type() != nil {
					if bt, ok := obj.Type().Underlying().(*types.Basic); ok && bt.Info()&types.IsBoolean != 0 {
						t.declared[id.Name] = true
					}
				}
			}
			return true
		})
		w := &c5w{t: t, spec: sp, fd: fd, cname: cname, kind: map[string]string{}, arrLen: map[string]int64{}, known: known, aux: &bytes.Buffer{}}
		// signature
		ptrRecv := false
		if sp.recv != "" {
			if fd.Recv == nil || len(fd.Recv.List) != 1 || len(fd.Recv.List[0].Names) != 1 {
				return "", fmt.Errorf("%s: c05: %s: unsupported receiver", fset.Position(fd.Pos()), cname)
			}
			_, ptrRecv = fd.Recv.List[0].Type.(*ast.StarExpr)
			t.recvName = fd.Recv.List[0].Names[0].Name
		}
		wantParams := map[string]string{"rdbyte": "", "mkreader": "io.Reader", "readbyte3": "io.Reader", "readfrom": "io.Reader", "writeto": "io.Writer"}[sp.kind]
		var ps []string
		for _, f := range fd.Type.Params.List {
			for range f.Names {
				ps = append(ps, types.ExprString(f.Type))
			}
			if len(f.Names) == 1 {
				w.rdParam = f.Names[0].Name
			}
		}
		if strings.Join(ps, ",") != wantParams {
			return "", fmt.Errorf("%s: c05: %s: parameter list is not (%s)", fset.Position(fd.Pos()), cname, wantParams)
		}
		wantRes := map[string]string{"rdbyte": "byte,error", "mkreader": "io.ByteReader", "readbyte3": "int64,byte,error", "readfrom": "int64,error", "writeto": "int64,error"}[sp.kind]
		var rs, rnames []string
		for _, f := range fd.Type.Results.List {
			k := len(f.Names)
			if k == 0 {
				k = 1
			}
			for i := 0; i < k; i++ {
				rs = append(rs, types.ExprString(f.Type))
			}
			for _, n := range f.Names {
				rnames = append(rnames, n.Name)
			}
		}
		if strings.Join(rs, ",") != wantRes || (len(rnames) != 0 && len(rnames) != len(rs)) {
			return "", fmt.Errorf("%s: c05: %s: results are not (%s)", fset.Position(fd.Pos()), cname, wantRes)
		}
		if (sp.kind == "readfrom") != ptrRecv {
			return "", fmt.Errorf("%s: c05: %s: unexpected receiver mode", fset.Position(fd.Pos()), cname)
		}
		var pre bytes.Buffer
		switch sp.kind {
		case "readfrom":
			// the destination: its previous value is never read (a read is rejected by rw)
			fmt.Fprintf(&pre, "let %s := (0) in\n  ", w.def(t.recvName))
		case "writeto":
			w.params = append(w.params, t.define(t.recvName))
			w.kind["c5out"] = "out"
			fmt.Fprintf(&pre, "let %s := (@nil Z) in\n  ", w.def("c5out"))
		}
		if len(rnames) > 0 {
			for _, n := range rnames[:len(rnames)-1] {
				fmt.Fprintf(&pre, "let %s := (0) in\n  ", w.def(n))
				w.resVals = append(w.resVals, n)
			}
			w.resErr = rnames[len(rnames)-1]
			w.kind[w.resErr] = "err"
			fmt.Fprintf(&pre, "let %s := 0%%N in\n  ", w.def(w.resErr))
		}
		body := pre.String() + w.stmts(fd.Body.List, func() string {
			w.fail(fd, "control reaches the end of the function")
			return ""
		})
		var all []string
		if w.isBR != "" {
			all = append(all, "("+w.isBR+" : bool)")
		}
		for _, p := range w.params {
			all = append(all, "("+p+" : Z)")
		}
		if len(t.free) > 0 {
			return "", fmt.Errorf("%s: c05: %s: free variables %v", fset.Position(fd.Pos()), cname, t.free)
		}
		b.Write(w.aux.Bytes())
		nm := sp.name
		if sp.recv != "" {
			nm = sp.recv + "." + sp.name
		}
		fmt.Fprintf(&b, "(* net/packet, func %s *)\nDefinition %s %s :=\n  %s.\n\n", nm, cname, strings.Join(all, " "), body)
		known[sp.recv+"."+sp.name] = cname
	}
	return b.String(), nil
}

// emitC05 writes coq/Gen/C05gen.v; any shape outside the ones described in the header is a loud failure
func emitC05(repo, outdir string) {
	s, err := genC05(repo)
	if err != nil {
		fmt.Fprintln(os.Stderr, "gotrans: c05:", err)
		os.Exit(1)
	}
	if err := writeIfChanged(filepath.Join(outdir, "C05gen.v"), s); err != nil {
		fmt.Fprintln(os.Stderr, "gotrans:", err)
		os.Exit(1)
	}
}
