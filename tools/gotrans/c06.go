package main

// c06.go: translation of the packet field codecs of net/packet (types.go, util.go, packet.go, builder.go)
// for property C06 into coq/Gen/C06gen.v, on every run.
//
// Part 1 (direct translation, statement by statement; vocabulary in coq/Model/C06_syntax.v):
//
//   - T.WriteTo(w io.Writer) becomes a pure function `packet_T_WriteTo_io recv : Z * N * list Z`
//     = (n, err, the bytes handed to w.Write, in order) under a writer that accepts everything
//     (w.Write(p) = (len p, nil)).  A byte-slice literal / a local [K]byte array (a write LOG replayed on K
//     zero bytes, as in funcs.go) / a byte string handed to w.Write is appended to the output.
//   - (*T).ReadFrom(r io.Reader) becomes a term of Base.Dec.dec returning (new value of the receiver, n):
//     io.ReadFull(r, x) is the ReadFull effect of len(x) bytes, readByte(r) the ReadByte effect; the bytes
//     obtained are bound in the continuation (the success path).  The statement `if err != nil { return ..., err }`
//     that follows an I/O call (or the same test in the header of the `if` that makes the call) is the failure
//     path of the effect: its shape is checked and it is not emitted.
//   - calls of the WriteTo / ReadFrom of another translated type are calls of its translation; VarInt.ReadFrom /
//     VarLong.ReadFrom (C05's loops) are parameters of the generated definition; v.WriteToBytes is the
//     definition funcs.go generates (Gen/Funcs.v).
//   - pure statements and expressions go through funcs.go (wrap semantics); floats are their IEEE bit patterns
//     (math.Float32bits / Float32frombits and conversions between float types are the identity on them).
//   - make with a negative length and a slice expression beyond the capacity are Crash.
//
// Part 2 (end of this file): statement skeletons of the reflection-heavy functions as terms of cstmt6.
//
// Anything outside the shapes handled here makes gotrans fail (non-zero exit).

import (
	"bytes"
	"fmt"
	"go/ast"
	"go/printer"
	"go/token"
	"go/types"
	"path/filepath"
	"sort"
	"strings"
)

type c6spec struct {
	recv, name string
	kind       string // kind of the receiver: int bool float bytes slice8 slice64 array16 struct
}

// callees before callers
var c6Direct = []c6spec{
	{"Boolean", "WriteTo", "bool"}, {"Boolean", "ReadFrom", "bool"},
	{"Byte", "WriteTo", "int"}, {"Byte", "ReadFrom", "int"},
	{"UnsignedByte", "WriteTo", "int"}, {"UnsignedByte", "ReadFrom", "int"},
	{"Short", "WriteTo", "int"}, {"Short", "ReadFrom", "int"},
	{"UnsignedShort", "WriteTo", "int"}, {"UnsignedShort", "ReadFrom", "int"},
	{"Int", "WriteTo", "int"}, {"Int", "ReadFrom", "int"},
	{"Long", "WriteTo", "int"}, {"Long", "ReadFrom", "int"},
	{"Float", "WriteTo", "float"}, {"Float", "ReadFrom", "float"},
	{"Double", "WriteTo", "float"}, {"Double", "ReadFrom", "float"},
	{"Angle", "WriteTo", "int"}, {"Angle", "ReadFrom", "int"},
	{"UUID", "WriteTo", "array16"}, {"UUID", "ReadFrom", "array16"},
	{"Position", "WriteTo", "struct"}, {"Position", "ReadFrom", "struct"},
	{"VarInt", "WriteTo", "int"}, {"VarLong", "WriteTo", "int"},
	{"String", "WriteTo", "bytes"}, {"String", "ReadFrom", "bytes"},
	{"ByteArray", "WriteTo", "slice8"}, {"ByteArray", "ReadFrom", "slice8"},
	{"PluginMessageData", "WriteTo", "slice8"},
	{"FixedBitSet", "WriteTo", "slice8"}, {"FixedBitSet", "ReadFrom", "slice8"},
	{"BitSet", "WriteTo", "slice64"}, {"BitSet", "ReadFrom", "slice64"},
}

// the declared type each receiver kind stands for (checked against the type declarations of types.go)
var c6TypeDecl = map[string]string{
	"Boolean": "bool", "Byte": "int8", "UnsignedByte": "uint8", "Short": "int16", "UnsignedShort": "uint16",
	"Int": "int32", "Long": "int64", "Float": "float32", "Double": "float64", "Angle": "Byte",
	"UUID":     "uuid.UUID", // github.com/google/uuid: `type UUID [16]byte` (outside the repository: trusted)
	"Position": "struct{X,Y,Z int}", "VarInt": "int32", "VarLong": "int64", "String": "string",
	"ByteArray": "[]byte", "PluginMessageData": "[]byte", "FixedBitSet": "[]byte", "BitSet": "[]int64",
}

type c6callee struct {
	cname string
	kind  string
	ext   []string // external parameters (dec-valued) the callee takes first
}

type c6w struct {
	t        *trans
	write    bool
	spec     c6spec
	fd       *ast.FuncDecl
	goTy     map[string]string // Go variable -> Coq type when not Z/bool
	arrLen   map[string]int64  // local [K]byte arrays
	locTy    map[string]string // local `var x T` with T a translated type
	known    map[string]*c6callee
	ext      []string
	extSet   map[string]bool
	ptrRecv  bool
	nfake    int
	nloop    int
	inLoop   int
	aux      *bytes.Buffer
	errVar   string // Go name of the error variable bound by the I/O statement just emitted
	recvVars []string
}

func (w *c6w) fail(n ast.Node, f string, a ...any) { w.t.fail(n, "c06: "+f, a...) }

func (w *c6w) setTy(c, name string) {
	if ty, ok := w.goTy[name]; ok {
		w.t.ctype[c] = ty
	}
}
func (w *c6w) def(name string) string { c := w.t.define(name); w.setTy(c, name); return c }
func (w *c6w) asg(n ast.Node, name string) string {
	c := w.t.assign(n, name)
	w.setTy(c, name)
	return c
}

// bind gives the Coq binder for the Go target `name` of an assignment with token tok ("_" stays "_")
func (w *c6w) bind(n ast.Node, name string, tok token.Token) string {
	if name == "_" {
		return "_"
	}
	if tok == token.DEFINE {
		if _, ok := w.t.scopes[len(w.t.scopes)-1][name]; !ok {
			return w.def(name)
		}
	}
	return w.asg(n, name)
}

func (w *c6w) fake(coq string, like ast.Expr, ty types.Type) *ast.Ident {
	w.nfake++
	id := &ast.Ident{Name: fmt.Sprintf("c6·%d", w.nfake), NamePos: like.Pos()}
	w.t.scopes[0][id.Name] = coq
	if ty != nil {
		w.t.info.Types[id] = types.TypeAndValue{Type: ty}
	} else if tv, ok := w.t.info.Types[like]; ok && tv.Value == nil {
		w.t.info.Types[id] = tv
	}
	return id
}

func selName(e ast.Expr) string {
	switch x := e.(type) {
	case *ast.Ident:
		return x.Name
	case *ast.SelectorExpr:
		if a := selName(x.X); a != "" {
			return a + "." + x.Sel.Name
		}
	case *ast.ParenExpr:
		return selName(x.X)
	}
	return ""
}

func (w *c6w) isListVar(name string) bool { return w.goTy[name] == "list Z" }

// deref strips parentheses and the `*` of a pointer receiver: (*b) -> b
func (w *c6w) deref(e ast.Expr) ast.Expr {
	for {
		switch x := e.(type) {
		case *ast.ParenExpr:
			e = x.X
			continue
		case *ast.StarExpr:
			if id, ok := x.X.(*ast.Ident); ok && w.ptrRecv && id.Name == w.t.recvName {
				return id
			}
		}
		return e
	}
}

func (w *c6w) isFloatConv(x *ast.CallExpr) bool {
	if len(x.Args) != 1 {
		return false
	}
	switch selName(x.Fun) {
	case "float32", "float64", "Float", "Double":
		return true
	}
	return false
}

// lex translates an expression of byte-string / array / slice type into a Coq `list Z`
func (w *c6w) lex(e ast.Expr) string {
	e = w.deref(e)
	switch x := e.(type) {
	case *ast.Ident:
		if w.isListVar(x.Name) {
			c, _ := w.t.lookup(x.Name)
			return c
		}
		if k, ok := w.arrLen[x.Name]; ok {
			c, _ := w.t.lookup(x.Name)
			if w.t.ctype[c] == "list Z" {
				return c // an array filled by io.ReadFull
			}
			return fmt.Sprintf("(apply_writes %s (repeat 0 %d))", c, k)
		}
	case *ast.SliceExpr:
		if x.Low != nil || x.Slice3 {
			w.fail(e, "slice expression with a low bound")
		}
		a := w.lex(x.X)
		if x.High == nil {
			return a
		}
		return "(ztake " + w.ex(x.High) + " " + a + ")"
	case *ast.CallExpr:
		// []byte(s), String(bs), string(bs): the same bytes
		if len(x.Args) == 1 {
			switch f := x.Fun.(type) {
			case *ast.ArrayType:
				if f.Len == nil && selName(f.Elt) == "byte" {
					return w.lex(x.Args[0])
				}
			case *ast.Ident:
				if f.Name == "String" || f.Name == "string" {
					return w.lex(x.Args[0])
				}
			}
		}
	case *ast.CompositeLit:
		if at, ok := x.Type.(*ast.ArrayType); ok && at.Len == nil && selName(at.Elt) == "byte" {
			var es []string
			for _, el := range x.Elts {
				if _, ok := el.(*ast.KeyValueExpr); ok {
					w.fail(e, "keyed byte-slice literal")
				}
				es = append(es, w.ex(el))
			}
			return "[" + strings.Join(es, "; ") + "]"
		}
	}
	w.fail(e, "unsupported byte-sequence expression %T", e)
	return ""
}

// rw rewrites the sub-expressions funcs.go does not know (len, cap, indexing of lists, float bit
// conversions, binary.BigEndian.UintNN) into identifiers bound to their Coq text
func (w *c6w) rw(e ast.Expr) ast.Expr {
	info := w.t.info
	if tv, ok := info.Types[e]; ok && tv.Value != nil {
		return e
	}
	cp := func(n, o ast.Expr) ast.Expr {
		if tv, ok := info.Types[o]; ok {
			info.Types[n] = tv
		}
		return n
	}
	switch x := e.(type) {
	case *ast.ParenExpr:
		return cp(&ast.ParenExpr{X: w.rw(x.X), Lparen: x.Lparen}, e)
	case *ast.UnaryExpr:
		return cp(&ast.UnaryExpr{Op: x.Op, X: w.rw(x.X), OpPos: x.OpPos}, e)
	case *ast.BinaryExpr:
		n := &ast.BinaryExpr{X: w.rw(x.X), Op: x.Op, Y: w.rw(x.Y), OpPos: x.OpPos}
		cp(n, e)
		if _, _, ok := intKind(info.Types[n].Type); !ok {
			// an operand whose type comes from an unresolved import (w.Write, io.ReadFull): the other one decides
			for _, o := range []ast.Expr{x.X, x.Y, n.X, n.Y} {
				if ty := w.typeOf(o); ty != nil {
					info.Types[n] = types.TypeAndValue{Type: ty}
					break
				}
			}
		}
		return n
	case *ast.StarExpr:
		if d := w.deref(e); d != e {
			id := d.(*ast.Ident)
			if w.isListVar(id.Name) {
				w.fail(e, "a slice used as a number")
			}
			w.fail(e, "the previous value of the destination is read (not supported for scalar receivers)")
		}
	case *ast.SelectorExpr:
		if id, ok := x.X.(*ast.Ident); ok && !w.write && id.Name == w.t.recvName {
			w.fail(e, "a field of the destination is read")
		}
		return e
	case *ast.IndexExpr:
		d := w.deref(x.X)
		if id, ok := d.(*ast.Ident); ok && w.isListVar(id.Name) {
			return w.fake("(znth "+w.lex(id)+" "+w.ex(x.Index)+")", e, nil)
		}
	case *ast.CallExpr:
		fn := selName(x.Fun)
		switch {
		case (fn == "min" || fn == "max") && len(x.Args) == 2:
			ty := w.typeOf(x.Args[0])
			if ty == nil {
				ty = w.typeOf(x.Args[1])
			}
			if ty == nil {
				ty = types.Typ[types.Int]
			}
			return w.fake("(Z."+fn+" "+w.ex(x.Args[0])+" "+w.ex(x.Args[1])+")", e, ty)
		case fn == "len" && len(x.Args) == 1:
			return w.fake("(zlen "+w.lex(x.Args[0])+")", e, types.Typ[types.Int])
		case fn == "cap" && len(x.Args) == 1:
			d := w.deref(x.Args[0])
			if id, ok := d.(*ast.Ident); ok && w.goTy[id.Name+"_spare"] != "" {
				sp, _ := w.t.lookup(id.Name + "_spare")
				return w.fake("(zlen "+w.lex(id)+" + zlen "+sp+")", e, types.Typ[types.Int])
			}
			w.fail(e, "cap of something that is not the destination slice")
		case (fn == "math.Float32bits" || fn == "math.Float64bits") && len(x.Args) == 1:
			bits := map[string]int{"math.Float32bits": 32, "math.Float64bits": 64}[fn]
			return w.fake(fmt.Sprintf("(wrap_u %d %s)", bits, w.ex(x.Args[0])), e, types.Typ[map[int]types.BasicKind{32: types.Uint32, 64: types.Uint64}[bits]])
		case (fn == "math.Float32frombits" || fn == "math.Float64frombits") && len(x.Args) == 1:
			return w.rw(x.Args[0])
		case w.isFloatConv(x):
			return w.rw(x.Args[0])
		case strings.HasPrefix(fn, "binary.BigEndian.Uint") && len(x.Args) == 1:
			bits := map[string]int{"binary.BigEndian.Uint16": 16, "binary.BigEndian.Uint32": 32, "binary.BigEndian.Uint64": 64}[fn]
			if bits == 0 {
				w.fail(e, "unknown binary.BigEndian function")
			}
			sl, ok := x.Args[0].(*ast.SliceExpr)
			if !ok || sl.Low != nil || sl.High != nil {
				w.fail(e, "binary.BigEndian.UintNN of something that is not x[:]")
			}
			id, ok := sl.X.(*ast.Ident)
			if !ok || w.arrLen[id.Name] != int64(bits/8) {
				w.fail(e, "binary.BigEndian.Uint%d of an array that does not have %d bytes", bits, bits/8)
			}
			return w.fake("(be_uint "+w.lex(id)+")", e, types.Typ[map[int]types.BasicKind{16: types.Uint16, 32: types.Uint32, 64: types.Uint64}[bits]])
		}
		n := &ast.CallExpr{Fun: x.Fun, Lparen: x.Lparen, Rparen: x.Rparen, Ellipsis: x.Ellipsis}
		for _, a := range x.Args {
			n.Args = append(n.Args, w.rw(a))
		}
		return cp(n, e)
	}
	return e
}

// typeOf: the sized integer type of e when go/types knows it, or when e is a conversion to one
func (w *c6w) typeOf(e ast.Expr) types.Type {
	if tv, ok := w.t.info.Types[e]; ok {
		if _, _, ok := intKind(tv.Type); ok {
			return tv.Type
		}
	}
	switch x := e.(type) {
	case *ast.ParenExpr:
		return w.typeOf(x.X)
	case *ast.CallExpr:
		if tv, ok := w.t.info.Types[x.Fun]; ok && tv.IsType() {
			if _, _, ok := intKind(tv.Type); ok {
				return tv.Type
			}
		}
	}
	return nil
}

func (w *c6w) ex(e ast.Expr) string { return w.t.expr(w.rw(e)) }

func isNil(e ast.Expr) bool { id, ok := e.(*ast.Ident); return ok && id.Name == "nil" }

func (w *c6w) isErrVar(e ast.Expr) (string, bool) {
	id, ok := e.(*ast.Ident)
	if ok && w.goTy[id.Name] == "N" {
		return id.Name, true
	}
	return "", false
}

// cond translates a condition; err != nil / err == nil on error variables
func (w *c6w) cond(e ast.Expr) string {
	switch x := e.(type) {
	case *ast.ParenExpr:
		return w.cond(x.X)
	case *ast.BinaryExpr:
		if x.Op == token.NEQ || x.Op == token.EQL {
			if v, ok := w.isErrVar(x.X); ok && isNil(x.Y) {
				c, _ := w.t.lookup(v)
				if x.Op == token.NEQ {
					return "(negb (" + c + " =? 0)%N)"
				}
				return "(" + c + " =? 0)%N"
			}
		}
		if x.Op == token.LAND || x.Op == token.LOR {
			op := map[token.Token]string{token.LAND: " && ", token.LOR: " || "}[x.Op]
			return "(" + w.cond(x.X) + op + w.cond(x.Y) + ")"
		}
	case *ast.UnaryExpr:
		if x.Op == token.NOT {
			return "(negb " + w.cond(x.X) + ")"
		}
	}
	return w.ex(e)
}

// errEx translates an expression of type error
func (w *c6w) errEx(e ast.Expr) string {
	if isNil(e) {
		return "0%N"
	}
	if v, ok := w.isErrVar(e); ok {
		c, _ := w.t.lookup(v)
		return c
	}
	if call, ok := e.(*ast.CallExpr); ok && selName(call.Fun) == "errors.New" && len(call.Args) == 1 {
		if lit, ok := call.Args[0].(*ast.BasicLit); ok && lit.Kind == token.STRING {
			return "go_errors_New"
		}
	}
	w.fail(e, "unsupported error expression")
	return ""
}

// ---------------------------------------------------------------------------------------------- I/O calls

type c6io struct {
	kind string // write readByte readFull callW callR toBytes
	call *ast.CallExpr
	lhs  []ast.Expr
	tok  token.Token
}

// ioOf recognises the I/O statement forms
func (w *c6w) ioOf(s ast.Stmt) *c6io {
	var call *ast.CallExpr
	io := &c6io{}
	switch x := s.(type) {
	case *ast.AssignStmt:
		if len(x.Rhs) != 1 {
			return nil
		}
		c, ok := x.Rhs[0].(*ast.CallExpr)
		if !ok {
			return nil
		}
		call, io.lhs, io.tok = c, x.Lhs, x.Tok
	case *ast.ReturnStmt:
		if len(x.Results) != 1 {
			return nil
		}
		c, ok := x.Results[0].(*ast.CallExpr)
		if !ok {
			return nil
		}
		call, io.tok = c, token.ILLEGAL // tail call
	default:
		return nil
	}
	io.call = call
	fn := selName(call.Fun)
	switch {
	case fn == "w.Write" && w.write:
		io.kind = "write"
	case fn == "readByte" && !w.write:
		io.kind = "readByte"
	case fn == "io.ReadFull" && !w.write:
		io.kind = "readFull"
	case fn == "readBytes" && !w.write:
		io.kind = "readBytes"
	default:
		sel, ok := call.Fun.(*ast.SelectorExpr)
		if !ok {
			return nil
		}
		switch sel.Sel.Name {
		case "WriteTo":
			if w.write {
				io.kind = "callW"
			}
		case "ReadFrom":
			if !w.write {
				io.kind = "callR"
			}
		case "WriteToBytes":
			if w.write {
				io.kind = "toBytes"
			}
		}
	}
	if io.kind == "" {
		return nil
	}
	return io
}

func (w *c6w) hasIO(n ast.Node) bool {
	found := false
	ast.Inspect(n, func(m ast.Node) bool {
		switch x := m.(type) {
		case *ast.ReturnStmt:
			found = true
		case *ast.CallExpr:
			fn := selName(x.Fun)
			if fn == "w.Write" || fn == "readByte" || fn == "io.ReadFull" || fn == "make" || fn == "io.ReadAll" || fn == "readBytes" {
				found = true
			}
			if sel, ok := x.Fun.(*ast.SelectorExpr); ok {
				switch sel.Sel.Name {
				case "WriteTo", "ReadFrom", "WriteToBytes":
					found = true
				}
			}
		}
		return !found
	})
	return found
}

func lhsName(w *c6w, e ast.Expr) string {
	id, ok := e.(*ast.Ident)
	if !ok {
		w.fail(e, "result of an I/O call assigned to something that is not a variable")
	}
	return id.Name
}

// the type name T in T(e).WriteTo / (*T)(&x).ReadFrom / a variable declared `var x T`
func (w *c6w) calleeOf(io *c6io, method string) (*c6callee, ast.Expr) {
	sel := io.call.Fun.(*ast.SelectorExpr)
	rx := sel.X
	for {
		p, ok := rx.(*ast.ParenExpr)
		if !ok {
			break
		}
		rx = p.X
	}
	var tname string
	var arg ast.Expr
	switch x := rx.(type) {
	case *ast.CallExpr: // T(e) or (*T)(e)
		if len(x.Args) != 1 {
			w.fail(rx, "unsupported receiver expression")
		}
		f := x.Fun
		if p, ok := f.(*ast.ParenExpr); ok {
			f = p.X
		}
		if st, ok := f.(*ast.StarExpr); ok {
			f = st.X
		}
		tname, arg = selName(f), x.Args[0]
	case *ast.Ident:
		tname, arg = w.locTy[x.Name], x
	}
	k := w.known[tname+"."+method]
	if k == nil {
		if method == "ReadFrom" && (tname == "VarInt" || tname == "VarLong") {
			name := "packet_" + tname + "_ReadFrom"
			if !w.extSet[name] {
				w.extSet[name] = true
				w.ext = append(w.ext, name)
			}
			return &c6callee{cname: name, kind: "int"}, arg
		}
		w.fail(io.call, "call of %s.%s, which is not translated", tname, method)
	}
	for _, e := range k.ext {
		if !w.extSet[e] {
			w.extSet[e] = true
			w.ext = append(w.ext, e)
		}
	}
	return k, arg
}

func (k *c6callee) app() string {
	if len(k.ext) == 0 {
		return k.cname
	}
	return "(" + k.cname + " " + strings.Join(k.ext, " ") + ")"
}

// emitIO emits the binding of an I/O statement; the continuation text is produced by `rest`
func (w *c6w) emitIO(s ast.Stmt, io *c6io, rest func() string) string {
	t := w.t
	names := func(n int) []string {
		if io.tok == token.ILLEGAL {
			return nil
		}
		if len(io.lhs) != n {
			w.fail(s, "I/O call with %d results assigned to %d targets", n, len(io.lhs))
		}
		var ns []string
		for _, l := range io.lhs {
			ns = append(ns, lhsName(w, l))
		}
		return ns
	}
	markErr := func(name string) {
		if name != "_" {
			w.goTy[name] = "N"
		}
		w.errVar = name
	}
	switch io.kind {
	case "write":
		ns := names(2)
		if ns == nil || len(io.call.Args) != 1 {
			w.fail(s, "unsupported w.Write call")
		}
		data := w.lex(io.call.Args[0])
		out, _ := t.lookup("c6out")
		tmp := t.fresh("wr")
		markErr(ns[1])
		var b bytes.Buffer
		fmt.Fprintf(&b, "let %s := %s in\n  let %s := (%s ++ %s)%%list in\n  ", tmp, data, w.asg(s, "c6out"), out, tmp)
		if ns[0] != "_" {
			fmt.Fprintf(&b, "let %s := zlen %s in\n  ", w.bind(s, ns[0], io.tok), tmp)
		}
		if ns[1] != "_" {
			fmt.Fprintf(&b, "let %s := 0%%N in\n  ", w.bind(s, ns[1], io.tok))
		}
		return b.String() + rest()
	case "toBytes":
		// nn := v.WriteToBytes(vi[:]) : the definition of Gen/Funcs.v, its write log appended to vi's
		ns := names(1)
		sel := io.call.Fun.(*ast.SelectorExpr)
		if ns == nil || selName(sel.X) != t.recvName || len(io.call.Args) != 1 {
			w.fail(s, "unsupported WriteToBytes call")
		}
		sl, ok := io.call.Args[0].(*ast.SliceExpr)
		if !ok || sl.Low != nil || sl.High != nil {
			w.fail(s, "WriteToBytes of something that is not x[:]")
		}
		arr := selName(sl.X)
		if _, ok := w.arrLen[arr]; !ok {
			w.fail(s, "WriteToBytes into something that is not a local array")
		}
		cur, _ := t.lookup(arr)
		rc, _ := t.lookup(t.recvName)
		lg := t.fresh("lg")
		nb := w.bind(s, ns[0], io.tok)
		return fmt.Sprintf("let '(%s, %s) := packet_%s_WriteToBytes %s in\n  let %s := (%s ++ %s)%%list in\n  ", nb, lg, w.spec.recv, rc, w.asg(s, arr), cur, lg) + rest()
	case "callW":
		k, arg := w.calleeOf(io, "WriteTo")
		var a string
		switch k.kind {
		case "int", "float", "bool":
			a = w.ex(io.call.Fun.(*ast.SelectorExpr).X)
		default:
			a = w.lex(arg)
		}
		out, _ := t.lookup("c6out")
		if io.tok == token.ILLEGAL { // return T(e).WriteTo(w)
			n, e, o := t.fresh("n"), t.fresh("e"), t.fresh("o")
			return fmt.Sprintf("let '(%s, %s, %s) := %s %s in\n  (%s, %s, (%s ++ %s)%%list)", n, e, o, k.app(), a, n, e, out, o)
		}
		ns := names(2)
		markErr(ns[1])
		o := t.fresh("o")
		nb := w.bind(s, ns[0], io.tok)
		eb := w.bind(s, ns[1], io.tok)
		return fmt.Sprintf("let '(%s, %s, %s) := %s %s in\n  let %s := (%s ++ %s)%%list in\n  ", nb, eb, o, k.app(), a, w.asg(s, "c6out"), out, o) + rest()
	case "readByte":
		ns := names(3)
		if ns == nil {
			w.fail(s, "unsupported readByte call")
		}
		markErr(ns[2])
		c := t.fresh("c")
		var b bytes.Buffer
		fmt.Fprintf(&b, "ReadByte (fun %s : N =>\n  ", c)
		if ns[0] != "_" {
			fmt.Fprintf(&b, "let %s := 1 in\n  ", w.bind(s, ns[0], io.tok))
		}
		if ns[1] != "_" {
			fmt.Fprintf(&b, "let %s := byte_in %s in\n  ", w.bind(s, ns[1], io.tok), c)
		}
		if ns[2] != "_" {
			fmt.Fprintf(&b, "let %s := 0%%N in\n  ", w.bind(s, ns[2], io.tok))
		}
		return b.String() + rest() + ")"
	case "readFull":
		ns := names(2)
		if ns == nil || len(io.call.Args) != 2 || selName(io.call.Args[0]) != "r" {
			w.fail(s, "unsupported io.ReadFull call")
		}
		markErr(ns[1])
		// the destination: x[:] of a local array / of the array receiver, a list variable, the slice receiver
		dst := io.call.Args[1]
		if sl, ok := dst.(*ast.SliceExpr); ok && sl.Low == nil && sl.High == nil {
			dst = sl.X
		}
		id, ok := w.deref(dst).(*ast.Ident)
		if !ok {
			w.fail(s, "unsupported io.ReadFull destination")
		}
		var ln string
		if k, ok := w.arrLen[id.Name]; ok {
			ln = fmt.Sprintf("(%d)", k)
		} else if w.isListVar(id.Name) {
			ln = "(zlen " + w.lex(id) + ")"
		} else {
			w.fail(s, "io.ReadFull into %s, which is not a byte sequence", id.Name)
		}
		d, l := t.fresh("data"), t.fresh("rl")
		var b bytes.Buffer
		fmt.Fprintf(&b, "let %s := %s in\n  ReadFull (Z.to_N %s) (fun %s : list N =>\n  ", l, ln, l, d)
		w.goTy[id.Name] = "list Z"
		fmt.Fprintf(&b, "let %s := map byte_in %s in\n  ", w.asg(s, id.Name), d)
		if ns[0] != "_" {
			fmt.Fprintf(&b, "let %s := %s in\n  ", w.bind(s, ns[0], io.tok), l)
		}
		if ns[1] != "_" {
			fmt.Fprintf(&b, "let %s := 0%%N in\n  ", w.bind(s, ns[1], io.tok))
		}
		return b.String() + rest() + ")"
	case "readBytes":
		// x, err := readBytes(r, n): exactly n bytes in order, read in bounded steps (the helper's own skeleton,
		// growth rule and its equivalence with one ReadFull of n bytes are in Proofs/C06_skel_rest.v); a negative
		// n panics in the helper's make
		ns := names(2)
		if ns == nil || len(io.call.Args) != 2 || selName(io.call.Args[0]) != "r" || ns[0] == "_" {
			w.fail(s, "unsupported readBytes call")
		}
		markErr(ns[1])
		l, d := t.fresh("rl"), t.fresh("data")
		var b bytes.Buffer
		fmt.Fprintf(&b, "let %s := %s in\n  if (%s <? 0) then Crash crash_make else\n  ReadFull (Z.to_N %s) (fun %s : list N =>\n  ", l, w.ex(io.call.Args[1]), l, l, d)
		w.goTy[ns[0]] = "list Z"
		fmt.Fprintf(&b, "let %s := map byte_in %s in\n  ", w.bind(s, ns[0], io.tok), d)
		if ns[1] != "_" {
			fmt.Fprintf(&b, "let %s := 0%%N in\n  ", w.bind(s, ns[1], io.tok))
		}
		return b.String() + rest() + ")"
	case "callR":
		k, arg := w.calleeOf(io, "ReadFrom")
		if k.kind != "int" && k.kind != "float" && k.kind != "bool" {
			w.fail(s, "call of a ReadFrom whose destination is not a scalar")
		}
		// the destination: a local variable, the receiver itself ((*Byte)(a)), or an element &(*b)[i]
		var setDst func(v string) string
		switch x := arg.(type) {
		case *ast.Ident:
			if x.Name == t.recvName || w.locTy[x.Name] != "" {
				setDst = func(v string) string { return fmt.Sprintf("let %s := %s in\n  ", w.asg(s, x.Name), v) }
			}
		case *ast.UnaryExpr:
			if ix, ok := x.X.(*ast.IndexExpr); ok && x.Op == token.AND {
				if id, ok := w.deref(ix.X).(*ast.Ident); ok && w.isListVar(id.Name) {
					setDst = func(v string) string {
						cur, i := w.lex(id), w.ex(ix.Index)
						return fmt.Sprintf("let %s := zupd %s %s %s in\n  ", w.asg(s, id.Name), cur, i, v)
					}
				}
			}
		}
		if setDst == nil {
			w.fail(s, "unsupported destination of a ReadFrom call")
		}
		v, p := t.fresh("v"), t.fresh("p")
		if io.tok == token.ILLEGAL { // return (*T)(a).ReadFrom(r)
			n := t.fresh("n")
			pre := fmt.Sprintf("bind %s (fun %s => let '(%s, %s) := %s in\n  ", k.app(), p, v, n, p) + setDst(v)
			return pre + "Ret (" + w.recvValue() + ", " + n + "))"
		}
		ns := names(2)
		markErr(ns[1])
		nb := w.bind(s, ns[0], io.tok)
		pre := fmt.Sprintf("bind %s (fun %s => let '(%s, %s) := %s in\n  ", k.app(), p, v, nb, p) + setDst(v)
		if ns[1] != "_" {
			pre += fmt.Sprintf("let %s := 0%%N in\n  ", w.bind(s, ns[1], io.tok))
		}
		return pre + rest() + ")"
	}
	w.fail(s, "internal: I/O kind %q", io.kind)
	return ""
}

// errCheck: `if err != nil { return ..., err }` / `{ return }` right after an I/O call that bound err
func (w *c6w) isErrCheck(x *ast.IfStmt, allowElse bool) bool {
	if w.errVar == "" || w.errVar == "_" {
		return false
	}
	be, ok := x.Cond.(*ast.BinaryExpr)
	if !ok || be.Op != token.NEQ || selName(be.X) != w.errVar || !isNil(be.Y) {
		return false
	}
	if x.Else != nil && !allowElse {
		return false
	}
	if len(x.Body.List) != 1 {
		return false
	}
	r, ok := x.Body.List[0].(*ast.ReturnStmt)
	if !ok {
		return false
	}
	if len(r.Results) > 0 && selName(r.Results[len(r.Results)-1]) != w.errVar {
		return false
	}
	if len(r.Results) == 0 {
		// bare return: err must be the named result
		named := false
		for _, n := range w.t.results {
			named = named || n == w.errVar
		}
		if !named {
			return false
		}
	}
	return true
}

// ---------------------------------------------------------------------------------------------- statements

func (w *c6w) recvValue() string {
	var vs []string
	for _, n := range w.recvVars {
		c, _ := w.t.lookup(n)
		vs = append(vs, c)
	}
	return tuple(vs)
}

func (w *c6w) result(n ast.Node, nE, errE string) string {
	if w.write {
		out, _ := w.t.lookup("c6out")
		return "(" + nE + ", " + errE + ", " + out + ")"
	}
	return "io_ret " + errE + " (" + w.recvValue() + ", " + nE + ")"
}

// pure1 translates one non-branching pure statement through funcs.go
func (w *c6w) pure1(s ast.Stmt) string {
	save := w.t.fall
	w.t.fall = func() string { return "\x00" }
	out := w.t.stmts([]ast.Stmt{s}, s)
	w.t.fall = save
	if strings.Count(out, "\x00") != 1 || !strings.HasSuffix(out, "\x00") {
		w.fail(s, "statement is not a straight-line pure statement")
	}
	return strings.TrimSuffix(out, "\x00")
}

// pureJoin translates a compound pure statement (if / for / switch without return and I/O): the variables it
// assigns are joined after it
func (w *c6w) pureJoin(s ast.Stmt) string {
	t := w.t
	as := map[string]bool{}
	t.assigned([]ast.Stmt{s}, as)
	var state []string
	for n := range as {
		if _, ok := t.lookup(n); ok {
			state = append(state, n)
		}
	}
	sort.Strings(state)
	if len(state) == 0 {
		w.fail(s, "compound statement without effect")
	}
	save := t.fall
	t.fall = func() string {
		var cur []string
		for _, n := range state {
			c, _ := t.lookup(n)
			cur = append(cur, c)
		}
		return tuple(cur)
	}
	body := t.stmts([]ast.Stmt{s}, s)
	t.fall = save
	var after []string
	for _, n := range state {
		after = append(after, w.asg(s, n))
	}
	pat := after[0]
	if len(after) > 1 {
		pat = "'(" + strings.Join(after, ", ") + ")"
	}
	return fmt.Sprintf("let %s := (%s) in\n  ", pat, body)
}

// rwStmt rewrites the expressions of a pure statement (shallow copies)
func (w *c6w) rwStmt(s ast.Stmt) ast.Stmt {
	switch x := s.(type) {
	case *ast.AssignStmt:
		n := &ast.AssignStmt{Tok: x.Tok, TokPos: x.TokPos}
		for _, l := range x.Lhs {
			n.Lhs = append(n.Lhs, w.rwLhs(l))
		}
		for _, r := range x.Rhs {
			n.Rhs = append(n.Rhs, w.rw(r))
		}
		return n
	case *ast.ExprStmt:
		if call, ok := x.X.(*ast.CallExpr); ok && strings.HasPrefix(selName(call.Fun), "binary.BigEndian.PutUint") && len(call.Args) == 2 {
			sl, ok := call.Args[0].(*ast.SliceExpr)
			if !ok || sl.Low != nil || sl.High != nil {
				w.fail(s, "PutUintNN into something that is not x[:]")
			}
			id, ok := sl.X.(*ast.Ident)
			bits := map[string]int64{"binary.BigEndian.PutUint16": 2, "binary.BigEndian.PutUint32": 4, "binary.BigEndian.PutUint64": 8}[selName(call.Fun)]
			if !ok || w.arrLen[id.Name] != bits || bits == 0 {
				w.fail(s, "PutUintNN into an array of the wrong size")
			}
			return &ast.ExprStmt{X: &ast.CallExpr{Fun: call.Fun, Args: []ast.Expr{id, w.rw(call.Args[1])}, Lparen: call.Lparen, Rparen: call.Rparen}}
		}
		return s
	case *ast.IfStmt:
		n := &ast.IfStmt{If: x.If, Cond: w.rw(x.Cond), Body: w.rwStmt(x.Body).(*ast.BlockStmt)}
		if x.Init != nil {
			n.Init = w.rwStmt(x.Init)
		}
		if x.Else != nil {
			n.Else = w.rwStmt(x.Else)
		}
		return n
	case *ast.BlockStmt:
		n := &ast.BlockStmt{Lbrace: x.Lbrace, Rbrace: x.Rbrace}
		for _, y := range x.List {
			n.List = append(n.List, w.rwStmt(y))
		}
		return n
	case *ast.ForStmt:
		n := &ast.ForStmt{For: x.For, Init: x.Init, Post: x.Post, Body: w.rwStmt(x.Body).(*ast.BlockStmt)}
		if x.Cond != nil {
			if be, ok := x.Cond.(*ast.BinaryExpr); ok {
				c := &ast.BinaryExpr{X: be.X, Op: be.Op, Y: w.rw(be.Y), OpPos: be.OpPos}
				n.Cond = c
			} else {
				n.Cond = x.Cond
			}
		}
		return n
	}
	return s
}

func (w *c6w) rwLhs(l ast.Expr) ast.Expr {
	if id, ok := w.deref(l).(*ast.Ident); ok {
		return id // *s = ... assigns the variable that stands for the destination
	}
	if sel, ok := l.(*ast.SelectorExpr); ok && selName(sel.X) == w.t.recvName && !w.write {
		return &ast.Ident{Name: w.t.recvName + "_" + sel.Sel.Name, NamePos: l.Pos()}
	}
	return l
}

func (w *c6w) stmts(list []ast.Stmt, fall func() string) string {
	t := w.t
	if len(list) == 0 {
		return fall()
	}
	s, rest := list[0], list[1:]
	next := func() string { return w.stmts(rest, fall) }
	errVar := w.errVar
	w.errVar = ""
	switch x := s.(type) {
	case *popMarker:
		t.pop()
		w.errVar = errVar
		return next()
	case *ast.EmptyStmt:
		return next()
	case *ast.BlockStmt:
		t.push()
		l := append(append([]ast.Stmt{}, x.List...), &popMarker{})
		return w.stmts(append(l, rest...), fall)
	case *ast.DeclStmt:
		gd, ok := x.Decl.(*ast.GenDecl)
		if !ok || gd.Tok != token.VAR || len(gd.Specs) != 1 {
			w.fail(s, "unsupported declaration")
		}
		vs := gd.Specs[0].(*ast.ValueSpec)
		if len(vs.Names) == 1 && len(vs.Values) == 0 && vs.Type != nil {
			name := vs.Names[0].Name
			if at, ok := vs.Type.(*ast.ArrayType); ok && at.Len != nil {
				// var buf [K]byte: a write log (writers) / the destination of a ReadFull (readers)
				arr, ok := t.info.Types[vs.Type].Type.(*types.Array)
				if !ok || selName(at.Elt) != "byte" {
					w.fail(s, "unsupported array declaration")
				}
				w.arrLen[name] = arr.Len()
				if w.write {
					t.bufs = append(t.bufs, name)
					return fmt.Sprintf("let %s := (@nil (Z * Z)) in\n  ", t.define(name)) + next()
				}
				w.goTy[name] = "list Z"
				return fmt.Sprintf("let %s := zrepeat %d in\n  ", w.def(name), arr.Len()) + next()
			}
			if tn := selName(vs.Type); c6TypeDecl[tn] != "" {
				w.locTy[name] = tn
			}
		}
		return w.pure1(s) + next()
	case *ast.ReturnStmt:
		if w.inLoop > 0 {
			w.fail(s, "return inside a loop (other than the failure path of an I/O call)")
		}
		if io := w.ioOf(s); io != nil {
			return w.emitIO(s, io, nil)
		}
		if len(x.Results) == 0 {
			if len(t.results) != 2 {
				w.fail(s, "bare return without named results")
			}
			n, _ := t.lookup(t.results[0])
			e, _ := t.lookup(t.results[1])
			return w.result(s, n, e)
		}
		if len(x.Results) != 2 {
			w.fail(s, "return with %d results", len(x.Results))
		}
		return w.result(s, w.ex(x.Results[0]), w.errEx(x.Results[1]))
	case *ast.AssignStmt:
		if io := w.ioOf(s); io != nil {
			return w.emitIO(s, io, next)
		}
		// x := make(T, n) / *b = make(T, n) / *b = (*b)[:n]
		if len(x.Lhs) == 1 && len(x.Rhs) == 1 {
			if r := w.sliceAssign(x, next); r != "" {
				return r
			}
			// err = nil
			if v, ok := w.isErrVar(x.Lhs[0]); ok {
				return fmt.Sprintf("let %s := %s in\n  ", w.bind(s, v, x.Tok), w.errEx(x.Rhs[0])) + next()
			}
			// s := String(bs) and other list-valued assignments to the destination
			if id, ok := w.deref(x.Lhs[0]).(*ast.Ident); ok && w.isListVar(id.Name) && x.Tok == token.ASSIGN {
				v := w.lex(x.Rhs[0])
				pre := fmt.Sprintf("let %s := %s in\n  ", w.asg(s, id.Name), v)
				if w.goTy[id.Name+"_spare"] != "" {
					// another slice is stored in the destination: nothing of the old backing array is left
					pre += fmt.Sprintf("let %s := (@nil Z) in\n  ", w.asg(s, id.Name+"_spare"))
				}
				return pre + next()
			}
			if id, ok := x.Lhs[0].(*ast.Ident); ok && x.Tok == token.DEFINE {
				if c, ok := x.Rhs[0].(*ast.CallExpr); ok {
					if at, ok := c.Fun.(*ast.ArrayType); ok && at.Len == nil && selName(at.Elt) == "byte" {
						v := w.lex(x.Rhs[0])
						w.goTy[id.Name] = "list Z"
						return fmt.Sprintf("let %s := %s in\n  ", w.def(id.Name), v) + next()
					}
				}
			}
		}
		return w.pure1(w.rwStmt(s)) + next()
	case *ast.IncDecStmt, *ast.ExprStmt:
		return w.pure1(w.rwStmt(s)) + next()
	case *ast.IfStmt:
		// the I/O call in the header: if nn, err := io.ReadFull(...); err != nil { return ... } else { B }
		if x.Init != nil {
			io := w.ioOf(x.Init)
			if io == nil {
				w.fail(s, "unsupported if-init statement")
			}
			t.push()
			return w.emitIO(x.Init, io, func() string {
				if !w.isErrCheck(x, true) {
					w.fail(s, "the test after an I/O call in an if header is not `err != nil { return ..., err }`")
				}
				w.errVar = ""
				var l []ast.Stmt
				if x.Else != nil {
					l = append(l, x.Else)
				}
				l = append(l, &popMarker{})
				return w.stmts(append(l, rest...), fall)
			})
		}
		w.errVar = errVar
		if w.isErrCheck(x, false) {
			txt := w.errText(x)
			w.errVar = ""
			return "(* " + txt + " *)\n  " + next()
		}
		w.errVar = ""
		if !w.hasIO(x) {
			return w.pureJoin(w.rwStmt(s)) + next()
		}
		cond := w.cond(x.Cond)
		sc, _ := t.snapshot()
		goTy := map[string]string{}
		for k, v := range w.goTy {
			goTy[k] = v
		}
		a := w.stmts(append([]ast.Stmt{x.Body}, rest...), fall)
		t.scopes = sc
		w.goTy = goTy
		var el []ast.Stmt
		if x.Else != nil {
			el = append(el, x.Else)
		}
		b := w.stmts(append(el, rest...), fall)
		return "if " + cond + "\n  then " + a + "\n  else " + b
	case *ast.ForStmt:
		if !w.hasIO(x) {
			return w.pureJoin(w.rwStmt(s)) + next()
		}
		return w.ioLoop(x, nil, next)
	case *ast.RangeStmt:
		return w.ioLoop(nil, x, next)
	}
	w.fail(s, "unsupported statement %T", s)
	return ""
}

func (w *c6w) errText(x *ast.IfStmt) string {
	r := x.Body.List[0].(*ast.ReturnStmt)
	return fmt.Sprintf("if %s != nil { return with %d results }: the failure path of the I/O call above", w.errVar, len(r.Results))
}

// sliceAssign: make and reslice of byte / int64 slices (readers only)
func (w *c6w) sliceAssign(x *ast.AssignStmt, next func() string) string {
	t := w.t
	target, ok := w.deref(x.Lhs[0]).(*ast.Ident)
	if !ok {
		return ""
	}
	if call, ok := x.Rhs[0].(*ast.CallExpr); ok && selName(call.Fun) == "make" {
		if w.write {
			w.fail(x, "make in a writer")
		}
		if len(call.Args) != 2 {
			w.fail(x, "make with a capacity argument")
		}
		switch ty := types.ExprString(call.Args[0]); ty {
		case "[]byte", "[]int64", "ByteArray", "BitSet":
		default:
			w.fail(x, "make of %s", ty)
		}
		n := w.ex(call.Args[1])
		l := t.fresh("ml")
		w.goTy[target.Name] = "list Z"
		var b bytes.Buffer
		fmt.Fprintf(&b, "let %s := %s in\n  if (%s <? 0) then Crash crash_make else\n  ", l, n, l)
		fmt.Fprintf(&b, "let %s := zrepeat %s in\n  ", w.bind(x, target.Name, x.Tok), l)
		if w.goTy[target.Name+"_spare"] != "" {
			fmt.Fprintf(&b, "let %s := (@nil Z) in\n  ", w.asg(x, target.Name+"_spare"))
		}
		return b.String() + next()
	}
	// *b = append(*b, make([]T, k)...): k zero elements after the visible part (taken from the spare capacity or
	// from a new backing array: zero either way is NOT assumed - the spare part is dropped, the new elements are 0)
	if call, ok := x.Rhs[0].(*ast.CallExpr); ok && selName(call.Fun) == "append" && x.Tok == token.ASSIGN {
		if w.write || len(call.Args) != 2 || call.Ellipsis == token.NoPos {
			w.fail(x, "unsupported append")
		}
		src, ok := w.deref(call.Args[0]).(*ast.Ident)
		mk, ok2 := call.Args[1].(*ast.CallExpr)
		if !ok || !ok2 || src.Name != target.Name || selName(mk.Fun) != "make" || len(mk.Args) != 2 || w.goTy[target.Name+"_spare"] == "" {
			w.fail(x, "unsupported append (only x = append(x, make([]T, k)...))")
		}
		switch ty := types.ExprString(mk.Args[0]); ty {
		case "[]byte", "[]int64":
		default:
			w.fail(x, "append of make of %s", ty)
		}
		k := t.fresh("ak")
		cur, _ := t.lookup(target.Name)
		sp, _ := t.lookup(target.Name + "_spare")
		var b bytes.Buffer
		fmt.Fprintf(&b, "let %s := %s in\n  if (%s <? 0) then Crash crash_make else\n  ", k, w.ex(mk.Args[1]), k)
		fmt.Fprintf(&b, "let %s := (%s ++ zrepeat %s)%%list in\n  let %s := zdrop %s %s in\n  ", w.asg(x, target.Name), cur, k, w.asg(x, target.Name+"_spare"), k, sp)
		return b.String() + next()
	}
	if sl, ok := x.Rhs[0].(*ast.SliceExpr); ok && x.Tok == token.ASSIGN {
		src, ok := w.deref(sl.X).(*ast.Ident)
		if !ok || src.Name != target.Name || sl.Low != nil || sl.High == nil || sl.Slice3 || w.goTy[target.Name+"_spare"] == "" {
			w.fail(x, "unsupported slice assignment")
		}
		if w.write {
			w.fail(x, "reslice in a writer")
		}
		h := t.fresh("hi")
		cur, _ := t.lookup(target.Name)
		sp, _ := t.lookup(target.Name + "_spare")
		all := t.fresh("all")
		var b bytes.Buffer
		fmt.Fprintf(&b, "let %s := %s in\n  let %s := (%s ++ %s)%%list in\n  ", h, w.ex(sl.High), all, cur, sp)
		fmt.Fprintf(&b, "if (%s <? 0) || (zlen %s <? %s) then Crash crash_slice else\n  ", h, all, h)
		fmt.Fprintf(&b, "let %s := ztake %s %s in\n  let %s := zdrop %s %s in\n  ", w.asg(x, target.Name), h, all, w.asg(x, target.Name+"_spare"), h, all)
		return b.String() + next()
	}
	return ""
}

// ioLoop: `for i := a; i < b; i++ { body }` / `for i := range x { body }` whose body makes I/O calls: a
// top-level structural recursion on the iteration count over the variables the body assigns (the output
// in writers; dec-valued in readers). The body may leave the loop only through the failure path of an I/O call.
func (w *c6w) ioLoop(fs *ast.ForStmt, rs *ast.RangeStmt, next func() string) string {
	t := w.t
	var iv *ast.Ident
	var from, to string
	var body *ast.BlockStmt
	var at ast.Stmt
	if fs != nil {
		at, body = fs, fs.Body
		init, ok1 := fs.Init.(*ast.AssignStmt)
		cond, ok2 := fs.Cond.(*ast.BinaryExpr)
		post, ok3 := fs.Post.(*ast.IncDecStmt)
		if !ok1 || !ok2 || !ok3 || init.Tok != token.DEFINE || len(init.Lhs) != 1 || cond.Op != token.LSS || post.Tok != token.INC {
			w.fail(fs, "unsupported for statement (only `i := a; i < b; i++`)")
		}
		var ok bool
		iv, ok = init.Lhs[0].(*ast.Ident)
		if !ok || selName(cond.X) != iv.Name || selName(post.X) != iv.Name {
			w.fail(fs, "unsupported for statement (loop variable)")
		}
		from, to = w.ex(init.Rhs[0]), w.ex(cond.Y)
	} else {
		at, body = rs, rs.Body
		var ok bool
		iv, ok = rs.Key.(*ast.Ident)
		if !ok || rs.Value != nil || rs.Tok != token.DEFINE {
			w.fail(rs, "unsupported range statement (only `for i := range x`)")
		}
		from, to = "(0)", "(zlen "+w.lex(rs.X)+")"
	}
	as := map[string]bool{}
	t.assigned(body.List, as)
	ast.Inspect(body, func(n ast.Node) bool {
		if asg, ok := n.(*ast.AssignStmt); ok && asg.Tok == token.ASSIGN {
			for _, l := range asg.Lhs {
				if id, ok := w.deref(l).(*ast.Ident); ok && w.isListVar(id.Name) {
					as[id.Name] = true
					if w.goTy[id.Name+"_spare"] != "" {
						as[id.Name+"_spare"] = true
					}
				}
			}
		}
		if u, ok := n.(*ast.UnaryExpr); ok && u.Op == token.AND {
			if ix, ok := u.X.(*ast.IndexExpr); ok {
				if id, ok := w.deref(ix.X).(*ast.Ident); ok {
					as[id.Name] = true
				}
			}
		}
		return true
	})
	if w.write {
		as["c6out"] = true
	}
	if as[iv.Name] {
		w.fail(at, "the loop variable is assigned in the body")
	}
	var state []string
	for n := range as {
		if _, ok := t.lookup(n); ok {
			state = append(state, n)
		}
	}
	sort.Strings(state)
	w.nloop++
	loop := fmt.Sprintf("%s_loop%d", t.cname, w.nloop)
	k, k1 := t.fresh("k"), t.fresh("k")
	var outer []string
	for _, n := range state {
		c, _ := t.lookup(n)
		outer = append(outer, c)
	}
	visible := map[string]bool{}
	for _, m := range t.scopes {
		for _, c := range m {
			visible[c] = true
		}
	}
	t.push()
	iF := t.define(iv.Name)
	var formals []string
	for _, n := range state {
		formals = append(formals, w.asg(at, n))
	}
	isFormal := map[string]bool{iF: true, k: true, k1: true}
	for _, f := range formals {
		isFormal[f] = true
	}
	w.inLoop++
	text := w.stmts(append([]ast.Stmt{}, body.List...), func() string {
		var cur []string
		for _, n := range state {
			c, _ := t.lookup(n)
			cur = append(cur, c)
		}
		return "(" + loop + " \x05 " + k1 + " (wrap_s 64 (" + iF + " + 1)) " + strings.Join(cur, " ") + ")"
	})
	w.inLoop--
	t.pop()
	toks := strings.FieldsFunc(text, func(r rune) bool {
		return !(r == '_' || r == '\'' || r >= '0' && r <= '9' || r >= 'a' && r <= 'z' || r >= 'A' && r <= 'Z')
	})
	seen := map[string]bool{}
	var captured []string
	for _, tk := range toks {
		if seen[tk] || isFormal[tk] {
			continue
		}
		if visible[tk] || t.freeSet[tk] || w.extSet[tk] {
			seen[tk] = true
			captured = append(captured, tk)
		}
	}
	sort.Strings(captured)
	capS := strings.Join(captured, " ")
	text = strings.ReplaceAll(text, "\x05", capS)
	tyOf := func(c string) string {
		if w.extSet[c] {
			return "dec (Z * Z)"
		}
		if ty := t.ctype[c]; ty != "" {
			return ty
		}
		return "Z"
	}
	var capB, formB []string
	for _, c := range captured {
		capB = append(capB, "("+c+" : "+tyOf(c)+")")
	}
	for _, f := range formals {
		formB = append(formB, "("+f+" : "+tyOf(f)+")")
	}
	base := tuple(formals)
	if !w.write {
		base = "Ret " + base
		if len(formals) == 1 {
			base = "Ret " + formals[0]
		}
	}
	fmt.Fprintf(w.aux, "(* net/packet, a loop of func %s.%s *)\nFixpoint %s %s (%s : nat) (%s : Z) %s {struct %s} :=\n  match %s with\n  | O => %s\n  | S %s => %s\n  end.\n\n",
		w.spec.recv, w.spec.name, loop, strings.Join(capB, " "), k, iF, strings.Join(formB, " "), k, k, base, k1, text)
	var after []string
	for _, n := range state {
		after = append(after, w.asg(at, n))
	}
	pat := after[0]
	if len(after) > 1 {
		pat = "'(" + strings.Join(after, ", ") + ")"
	}
	callS := fmt.Sprintf("%s %s (Z.to_nat (%s - %s)) %s %s", loop, capS, to, from, from, strings.Join(outer, " "))
	if w.write {
		return fmt.Sprintf("let %s := %s in\n  ", pat, callS) + next()
	}
	p := t.fresh("p")
	return fmt.Sprintf("bind (%s) (fun %s => let %s := %s in\n  ", callS, p, pat, p) + next() + ")"
}

// ---------------------------------------------------------------------------------------------- driver

// initialisers `x := e` of locals inside the reflection-heavy functions, translated as expressions (the
// allocation sizes of the readers): every identifier that is not a constant becomes a parameter
type c6localSpec struct {
	recv, name string
	locals     []string
}

var c6Locals = []c6localSpec{
	{"Ary", "ReadFrom", []string{"first", "more"}},
	{"", "readBytes", []string{"first", "more"}},
	{"BitSet", "ReadFrom", []string{"first", "more"}},
}

func c6TransLocals(fset *token.FileSet, files []*ast.File, info *types.Info, ls c6localSpec) (string, error) {
	fd := c6FindFunc(files, ls.recv, ls.name)
	if fd == nil || fd.Body == nil {
		return "", fmt.Errorf("c06: function %s.%s not found", ls.recv, ls.name)
	}
	var b bytes.Buffer
	for _, ln := range ls.locals {
		var found ast.Expr
		count := 0
		ast.Inspect(fd.Body, func(n ast.Node) bool {
			as, ok := n.(*ast.AssignStmt)
			if !ok || as.Tok != token.DEFINE || len(as.Lhs) != len(as.Rhs) {
				return true
			}
			for i, l := range as.Lhs {
				if id, ok := l.(*ast.Ident); ok && id.Name == ln {
					found = as.Rhs[i]
					count++
				}
			}
			return true
		})
		if count != 1 {
			return "", fmt.Errorf("c06: %s.%s: expected exactly one `%s := ...`, found %d", ls.recv, ls.name, ln, count)
		}
		t := &trans{fset: fset, info: info, prefix: "packet", used: map[string]int{}, freeSet: map[string]bool{}, known: map[string]*knownFn{}, localsOK: true}
		t.push()
		t.slicePar, t.ctype, t.declared = map[string]bool{}, map[string]string{}, map[string]bool{}
		t.arrSet, t.fnVars = map[string]bool{}, map[string]bool{}
		w := &c6w{t: t, write: true, goTy: map[string]string{}, arrLen: map[string]int64{}, locTy: map[string]string{}, known: map[string]*c6callee{}, extSet: map[string]bool{}, aux: &bytes.Buffer{}}
		body := w.ex(found)
		var ps []string
		for _, fv := range t.free {
			ps = append(ps, "("+fv+" : Z)")
		}
		cn := ls.name
		if ls.recv != "" {
			cn = ls.recv + "_" + ls.name
		}
		fmt.Fprintf(&b, "(* net/packet, initialiser of local %s in %s *)\nDefinition packet_%s_%s %s : Z :=\n  %s.\n\n", ln, strings.TrimPrefix(ls.recv+"."+ls.name, "."), cn, ln, strings.Join(ps, " "), body)
	}
	return b.String(), nil
}

func c6CheckTypeDecls(files []*ast.File) error {
	found := map[string]string{}
	for _, f := range files {
		for _, d := range f.Decls {
			gd, ok := d.(*ast.GenDecl)
			if !ok || gd.Tok != token.TYPE {
				continue
			}
			for _, sp := range gd.Specs {
				ts := sp.(*ast.TypeSpec)
				if _, want := c6TypeDecl[ts.Name.Name]; !want {
					continue
				}
				s := types.ExprString(ts.Type)
				if st, ok := ts.Type.(*ast.StructType); ok {
					var parts []string
					for _, fl := range st.Fields.List {
						var ns []string
						for _, n := range fl.Names {
							ns = append(ns, n.Name)
						}
						parts = append(parts, strings.Join(ns, ",")+" "+types.ExprString(fl.Type))
					}
					s = "struct{" + strings.Join(parts, ";") + "}"
				}
				found[ts.Name.Name] = s
			}
		}
	}
	for n, want := range c6TypeDecl {
		if found[n] != want {
			return fmt.Errorf("c06: type %s is declared as %q, the translation assumes %q", n, found[n], want)
		}
	}
	return nil
}

func genC06(repo string) (out string, err error) {
	defer func() {
		if r := recover(); r != nil {
			if te, ok := r.(trErr); ok {
				err = te
				return
			}
			panic(r)
		}
	}()
	const dir = "net/packet"
	fset := token.NewFileSet()
	files, _, e := parseDir(fset, filepath.Join(repo, dir))
	if e != nil {
		return "", e
	}
	if e := c6CheckTypeDecls(files); e != nil {
		return "", e
	}
	conf := types.Config{Importer: &fakeImporter{map[string]*types.Package{}}, Error: func(error) {}}
	info := &types.Info{Types: map[ast.Expr]types.TypeAndValue{}, Defs: map[*ast.Ident]types.Object{}, Uses: map[*ast.Ident]types.Object{}}
	conf.Check(dir, fset, files, info)

	var b bytes.Buffer
	b.WriteString("(* GENERATED by tools/gotrans (c06.go) from net/packet (types.go, util.go, packet.go, builder.go) of the\n   repository working tree - do not edit *)\n")
	b.WriteString("From Coq Require Import ZArith NArith Bool List String.\nFrom GoMC Require Import Base.Bytes Base.Dec Base.GoInt Gen.Funcs Model.C06_syntax.\nImport ListNotations.\nLocal Open Scope Z_scope.\nLocal Open Scope bool_scope.\n\n")
	known := map[string]*c6callee{}
	for _, sp := range c6Direct {
		fd := findFunc(files, sp.recv, sp.name)
		if fd == nil || fd.Body == nil {
			return "", fmt.Errorf("c06: function %s.%s not found", sp.recv, sp.name)
		}
		cname := "packet_" + sp.recv + "_" + sp.name + "_io"
		t := &trans{fset: fset, info: info, prefix: "packet", used: map[string]int{}, freeSet: map[string]bool{}, known: map[string]*knownFn{}}
		t.push()
		for _, r := range []string{"wrap_s", "wrap_u", "Z", "N", "bool", "true", "false", "negb", "fst", "snd", "if", "then", "else", "let", "in", "fun", "at", "as", "end", "match", "with", "return", "Type", "Set", "Prop", "forall", "exists",
			"bind", "Ret", "Fail", "Crash", "ReadByte", "ReadFull", "map", "nth", "length", "repeat", "firstn", "skipn", "app", "list", "dec", "nat", "O", "S"} {
			t.used[r] = 1
		}
		t.recvType, t.cname = sp.recv, cname
		t.slicePar, t.ctype, t.declared = map[string]bool{}, map[string]string{}, map[string]bool{}
		t.arrSet, t.fnVars = map[string]bool{}, map[string]bool{}
		ast.Inspect(fd, func(n ast.Node) bool {
			if id, ok := n.(*ast.Ident); ok {
				if obj := info.Defs[id]; obj != nil && obj.Type() != nil {
					if bt, ok := obj.Type().Underlying().(*types.Basic); ok && bt.Info()&types.IsBoolean != 0 {
						t.declared[id.Name] = true
					}
				}
			}
			return true
		})
		w := &c6w{t: t, write: sp.name == "WriteTo", spec: sp, fd: fd, goTy: map[string]string{}, arrLen: map[string]int64{},
			locTy: map[string]string{}, known: known, extSet: map[string]bool{}, aux: &bytes.Buffer{}}
		// signature: exactly (w io.Writer) / (r io.Reader), results (int64, error) possibly named
		if fd.Recv == nil || len(fd.Recv.List) != 1 || len(fd.Recv.List[0].Names) != 1 {
			return "", fmt.Errorf("c06: %s: unsupported receiver", cname)
		}
		rf := fd.Recv.List[0]
		_, w.ptrRecv = rf.Type.(*ast.StarExpr)
		t.recvName = rf.Names[0].Name
		wantParam := map[bool]string{true: "w io.Writer", false: "r io.Reader"}[w.write]
		if len(fd.Type.Params.List) != 1 || len(fd.Type.Params.List[0].Names) != 1 ||
			fd.Type.Params.List[0].Names[0].Name+" "+types.ExprString(fd.Type.Params.List[0].Type) != wantParam {
			return "", fmt.Errorf("c06: %s: parameter list is not (%s)", cname, wantParam)
		}
		if w.ptrRecv == w.write && !(sp.recv == "FixedBitSet") {
			return "", fmt.Errorf("c06: %s: unexpected receiver mode", cname)
		}
		var rnames []string
		nres := 0
		for _, f := range fd.Type.Results.List {
			if len(f.Names) == 0 {
				nres++
			}
			for _, n := range f.Names {
				rnames = append(rnames, n.Name)
				nres++
			}
		}
		if nres != 2 || types.ExprString(fd.Type.Results.List[0].Type) != "int64" || (len(rnames) != 0 && len(rnames) != 2) {
			return "", fmt.Errorf("c06: %s: results are not (int64, error)", cname)
		}
		var params []string
		var pre bytes.Buffer
		rn := t.recvName
		switch sp.kind {
		case "int", "float":
			if w.write {
				params = append(params, "("+t.define(rn)+" : Z)")
			} else {
				fmt.Fprintf(&pre, "let %s := (0) in\n  ", t.define(rn)) // never read: reads of the destination are rejected
				w.recvVars = []string{rn}
			}
		case "bool":
			t.declared[rn] = true
			if w.write {
				params = append(params, "("+t.define(rn)+" : bool)")
			} else {
				fmt.Fprintf(&pre, "let %s := false in\n  ", t.define(rn))
				w.recvVars = []string{rn}
			}
		case "bytes", "array16":
			w.goTy[rn] = "list Z"
			if sp.kind == "array16" {
				w.arrLen[rn] = 16
			}
			if w.write {
				params = append(params, "("+w.def(rn)+" : list Z)")
			} else if sp.kind == "array16" {
				fmt.Fprintf(&pre, "let %s := zrepeat 16 in\n  ", w.def(rn)) // overwritten as a whole by io.ReadFull
				w.recvVars = []string{rn}
			} else {
				fmt.Fprintf(&pre, "let %s := (@nil Z) in\n  ", w.def(rn))
				w.recvVars = []string{rn}
			}
		case "slice8", "slice64":
			w.goTy[rn] = "list Z"
			params = append(params, "("+w.def(rn)+" : list Z)")
			if !w.write {
				w.recvVars = []string{rn}
				if w.ptrRecv {
					w.goTy[rn+"_spare"] = "list Z"
					params = append(params, "("+w.def(rn+"_spare")+" : list Z)")
					w.recvVars = append(w.recvVars, rn+"_spare")
				}
			}
		case "struct":
			if !w.write {
				for _, f := range []string{"X", "Y", "Z"} {
					fmt.Fprintf(&pre, "let %s := (0) in\n  ", t.define(rn+"_"+f))
					w.recvVars = append(w.recvVars, rn+"_"+f)
				}
			}
		}
		if w.write {
			w.goTy["c6out"] = "list Z"
			fmt.Fprintf(&pre, "let %s := (@nil Z) in\n  ", w.def("c6out"))
		}
		t.results = rnames
		t.nres = 2
		if len(rnames) == 2 {
			w.goTy[rnames[1]] = "N"
			fmt.Fprintf(&pre, "let %s := (0) in\n  let %s := 0%%N in\n  ", t.define(rnames[0]), w.def(rnames[1]))
		}
		body := pre.String() + w.stmts(fd.Body.List, func() string {
			w.fail(fd, "control reaches the end of the function")
			return ""
		})
		var all []string
		for _, e := range w.ext {
			all = append(all, "("+e+" : dec (Z * Z))")
		}
		all = append(all, params...)
		for _, fv := range t.free {
			all = append(all, "("+fv+" : Z)")
		}
		for _, a := range t.aux {
			fmt.Fprintf(&b, "(* net/packet, a loop of func %s.%s *)\n%s", sp.recv, sp.name, a)
		}
		b.Write(w.aux.Bytes())
		fmt.Fprintf(&b, "(* net/packet, func %s.%s *)\nDefinition %s %s :=\n  %s.\n\n", sp.recv, sp.name, cname, strings.Join(all, " "), body)
		known[sp.recv+"."+sp.name] = &c6callee{cname: cname, kind: sp.kind, ext: append([]string{}, w.ext...)}
	}
	for _, ls := range c6Locals {
		txt, e := c6TransLocals(fset, files, info, ls)
		if e != nil {
			return "", e
		}
		b.WriteString(txt)
	}
	sk, e := genC06Skel(fset, files)
	if e != nil {
		return "", e
	}
	b.WriteString(sk)
	return b.String(), nil
}

// ---------------------------------------------------------------------------------------------- Part 2
// Statement skeletons (terms of cstmt6, coq/Model/C06_syntax.v) of the functions that are not translated
// directly: control structure kept, every leaf (simple statement, condition, header) as canonical source
// text (go/types.ExprString, go/printer for simple statements). ANY edit of these bodies other than
// comments and layout changes the generated term.

type c6skelSpec struct{ recv, name, coq string }

var c6Skels = []c6skelSpec{
	{"", "readByte", "skel_readByte"},
	{"", "readBytes", "skel_readBytes"},
	{"PluginMessageData", "ReadFrom", "skel_PluginMessageData_ReadFrom"},
	{"NBTField", "WriteTo", "skel_NBTField_WriteTo"},
	{"NBTField", "ReadFrom", "skel_NBTField_ReadFrom"},
	{"countingWriter", "Write", "skel_countingWriter_Write"},
	{"countingReader", "Read", "skel_countingReader_Read"},
	{"", "NBT", "skel_NBT"},
	{"Ary", "WriteTo", "skel_Ary_WriteTo"},
	{"Ary", "ReadFrom", "skel_Ary_ReadFrom"},
	{"", "Array", "skel_Array"},
	{"Opt", "has", "skel_Opt_has"},
	{"Opt", "WriteTo", "skel_Opt_WriteTo"},
	{"Opt", "ReadFrom", "skel_Opt_ReadFrom"},
	{"Option", "WriteTo", "skel_Option_WriteTo"},
	{"Option", "ReadFrom", "skel_Option_ReadFrom"},
	{"OptionDecoder", "ReadFrom", "skel_OptionDecoder_ReadFrom"},
	{"OptionEncoder", "WriteTo", "skel_OptionEncoder_WriteTo"},
	{"Tuple", "WriteTo", "skel_Tuple_WriteTo"},
	{"Tuple", "ReadFrom", "skel_Tuple_ReadFrom"},
	{"", "CreateByteReader", "skel_CreateByteReader"},
	{"byteReaderWrapper", "ReadByte", "skel_byteReaderWrapper_ReadByte"},
	{"", "Marshal", "skel_Marshal"},
	{"Packet", "Scan", "skel_Packet_Scan"},
	{"Builder", "WriteField", "skel_Builder_WriteField"},
	{"Builder", "Packet", "skel_Builder_Packet"},
}

func c6FindFunc(files []*ast.File, recv, name string) *ast.FuncDecl {
	for _, f := range files {
		for _, d := range f.Decls {
			fd, ok := d.(*ast.FuncDecl)
			if !ok || fd.Name.Name != name {
				continue
			}
			r := ""
			if fd.Recv != nil && len(fd.Recv.List) == 1 {
				ty := fd.Recv.List[0].Type
				if st, ok := ty.(*ast.StarExpr); ok {
					ty = st.X
				}
				switch ix := ty.(type) {
				case *ast.IndexExpr:
					ty = ix.X
				case *ast.IndexListExpr:
					ty = ix.X
				}
				if id, ok := ty.(*ast.Ident); ok {
					r = id.Name
				}
			}
			if r == recv {
				return fd
			}
		}
	}
	return nil
}

type c6sk struct{ fset *token.FileSet }

// c6x: the canonical text of an expression (go/printer; spaces normalised)
func c6x(fset *token.FileSet, e ast.Node) string {
	var buf bytes.Buffer
	if err := printer.Fprint(&buf, fset, e); err != nil {
		return "\n" // rejected by q
	}
	return strings.Join(strings.Fields(buf.String()), " ")
}

func (c *c6sk) errf(n ast.Node, f string, a ...any) error {
	return fmt.Errorf("%s: c06 skeleton: %s", c.fset.Position(n.Pos()), fmt.Sprintf(f, a...))
}

func (c *c6sk) q(n ast.Node, s string) (string, error) {
	if strings.ContainsAny(s, "\n\r") {
		return "", c.errf(n, "leaf text spans several lines: %q", s)
	}
	for _, r := range s {
		if r > 126 || r < 32 {
			return "", c.errf(n, "leaf text contains a non-ASCII character")
		}
	}
	return "\"" + strings.ReplaceAll(s, "\"", "\"\"") + "\"", nil
}

func (c *c6sk) xs(es []ast.Expr) string {
	var ss []string
	for _, e := range es {
		ss = append(ss, c6x(c.fset, e))
	}
	return strings.Join(ss, ", ")
}

// simple statement as text ("" for nil)
func (c *c6sk) simple(s ast.Stmt) (string, error) {
	switch x := s.(type) {
	case nil:
		return "", nil
	case *ast.AssignStmt:
		return c.xs(x.Lhs) + " " + x.Tok.String() + " " + c.xs(x.Rhs), nil
	case *ast.ExprStmt:
		return c6x(c.fset, x.X), nil
	case *ast.IncDecStmt:
		return c6x(c.fset, x.X) + x.Tok.String(), nil
	case *ast.DeclStmt:
		gd, ok := x.Decl.(*ast.GenDecl)
		if !ok || (gd.Tok != token.VAR && gd.Tok != token.CONST) || len(gd.Specs) != 1 {
			return "", c.errf(s, "unknown declaration")
		}
		vs := gd.Specs[0].(*ast.ValueSpec)
		var ns []string
		for _, n := range vs.Names {
			ns = append(ns, n.Name)
		}
		t := gd.Tok.String() + " " + strings.Join(ns, ", ")
		if vs.Type != nil {
			t += " " + c6x(c.fset, vs.Type)
		}
		if len(vs.Values) > 0 {
			t += " = " + c.xs(vs.Values)
		}
		return t, nil
	}
	return "", c.errf(s, "unknown simple statement %T", s)
}

func c6block(items []string, ind string) string {
	if len(items) == 0 {
		return "[]"
	}
	return "[\n" + ind + "  " + strings.Join(items, ";\n"+ind+"  ") + " ]"
}

func (c *c6sk) list(l []ast.Stmt, ind string) ([]string, error) {
	var out []string
	for _, s := range l {
		ts, err := c.stmt(s, ind)
		if err != nil {
			return nil, err
		}
		out = append(out, ts...)
	}
	return out, nil
}

func (c *c6sk) stmt(s ast.Stmt, ind string) ([]string, error) {
	one := func(ctor string, n ast.Node, texts ...string) ([]string, error) {
		r := ctor
		for _, t := range texts {
			q, err := c.q(n, t)
			if err != nil {
				return nil, err
			}
			r += " " + q
		}
		return []string{r}, nil
	}
	switch x := s.(type) {
	case *ast.AssignStmt, *ast.IncDecStmt, *ast.DeclStmt:
		t, err := c.simple(s)
		if err != nil {
			return nil, err
		}
		return one("KOther", s, t)
	case *ast.ExprStmt:
		if call, ok := x.X.(*ast.CallExpr); ok && selName(call.Fun) == "panic" && len(call.Args) == 1 {
			return one("KPanic", s, c6x(c.fset, call.Args[0]))
		}
		return one("KOther", s, c6x(c.fset, x.X))
	case *ast.ReturnStmt:
		return one("KReturn", s, c.xs(x.Results))
	case *ast.DeferStmt:
		return one("KOther", s, "defer "+c6x(c.fset, x.Call))
	case *ast.GoStmt:
		return one("KOther", s, "go "+c6x(c.fset, x.Call))
	case *ast.BlockStmt:
		return c.list(x.List, ind)
	case *ast.IfStmt:
		init, err := c.simple(x.Init)
		if err != nil {
			return nil, err
		}
		th, err := c.list(x.Body.List, ind+"  ")
		if err != nil {
			return nil, err
		}
		var el []string
		switch e := x.Else.(type) {
		case nil:
		case *ast.BlockStmt:
			el, err = c.list(e.List, ind+"  ")
		case *ast.IfStmt:
			el, err = c.stmt(e, ind+"  ")
		default:
			err = c.errf(s, "unknown else branch")
		}
		if err != nil {
			return nil, err
		}
		h, err := one("KIf", s, init, c6x(c.fset, x.Cond))
		if err != nil {
			return nil, err
		}
		return []string{h[0] + " " + c6block(th, ind) + " " + c6block(el, ind)}, nil
	case *ast.ForStmt:
		init, err := c.simple(x.Init)
		if err != nil {
			return nil, err
		}
		post, err := c.simple(x.Post)
		if err != nil {
			return nil, err
		}
		cond := ""
		if x.Cond != nil {
			cond = c6x(c.fset, x.Cond)
		}
		body, err := c.list(x.Body.List, ind+"  ")
		if err != nil {
			return nil, err
		}
		h, err := one("KFor", s, init, cond, post)
		if err != nil {
			return nil, err
		}
		return []string{h[0] + " " + c6block(body, ind)}, nil
	case *ast.RangeStmt:
		if x.Tok != token.DEFINE {
			return nil, c.errf(s, "range without :=")
		}
		k, v := "", ""
		if x.Key != nil {
			k = c6x(c.fset, x.Key)
		}
		if x.Value != nil {
			v = c6x(c.fset, x.Value)
		}
		body, err := c.list(x.Body.List, ind+"  ")
		if err != nil {
			return nil, err
		}
		h, err := one("KRange", s, k, v, c6x(c.fset, x.X))
		if err != nil {
			return nil, err
		}
		return []string{h[0] + " " + c6block(body, ind)}, nil
	case *ast.SwitchStmt, *ast.TypeSwitchStmt:
		var init, tag string
		var clauses []ast.Stmt
		var err error
		if sw, ok := x.(*ast.SwitchStmt); ok {
			if init, err = c.simple(sw.Init); err != nil {
				return nil, err
			}
			if sw.Tag != nil {
				tag = c6x(c.fset, sw.Tag)
			}
			clauses = sw.Body.List
		} else {
			ts := x.(*ast.TypeSwitchStmt)
			if init, err = c.simple(ts.Init); err != nil {
				return nil, err
			}
			if tag, err = c.simple(ts.Assign); err != nil {
				return nil, err
			}
			clauses = ts.Body.List
		}
		var cases []string
		for _, cl := range clauses {
			cc := cl.(*ast.CaseClause)
			label := "default"
			if cc.List != nil {
				label = "case " + c.xs(cc.List)
			}
			for _, st := range cc.Body {
				if _, ok := st.(*ast.BranchStmt); ok {
					return nil, c.errf(st, "branch statement in a switch")
				}
			}
			body, err := c.list(cc.Body, ind+"    ")
			if err != nil {
				return nil, err
			}
			ql, err := c.q(cc, label)
			if err != nil {
				return nil, err
			}
			cases = append(cases, "("+ql+", "+c6block(body, ind+"  ")+")")
		}
		h, err := one("KSwitch", s, init, tag)
		if err != nil {
			return nil, err
		}
		return []string{h[0] + " " + c6block(cases, ind)}, nil
	}
	return nil, c.errf(s, "unknown statement %T", s)
}

// c6AllFuncs: every function and method declared in types.go, util.go, builder.go, and Marshal / Packet.Scan of
// packet.go, as "Recv.Name" / "Name", in source order (files in the order just given). The closing obligation
// C06_every_body_interpreted compares this list with the names that have a tie or interpretation lemma.
func c6AllFuncs(fset *token.FileSet, files []*ast.File) (string, error) {
	var rows []string
	for _, want := range []string{"types.go", "util.go", "builder.go", "packet.go"} {
		var file *ast.File
		for _, f := range files {
			if filepath.Base(fset.Position(f.Pos()).Filename) == want {
				file = f
			}
		}
		if file == nil {
			return "", fmt.Errorf("c06: net/packet/%s not found", want)
		}
		for _, d := range file.Decls {
			fd, ok := d.(*ast.FuncDecl)
			if !ok {
				continue
			}
			name := fd.Name.Name
			if fd.Recv != nil && len(fd.Recv.List) == 1 {
				ty := fd.Recv.List[0].Type
				if st, ok := ty.(*ast.StarExpr); ok {
					ty = st.X
				}
				switch ix := ty.(type) {
				case *ast.IndexExpr:
					ty = ix.X
				case *ast.IndexListExpr:
					ty = ix.X
				}
				id, ok := ty.(*ast.Ident)
				if !ok {
					return "", fmt.Errorf("%s: c06: unknown receiver type", fset.Position(fd.Pos()))
				}
				name = id.Name + "." + name
			}
			if want == "packet.go" && name != "Marshal" && name != "Packet.Scan" {
				continue // framing (Pack / UnPack ...) belongs to C07
			}
			rows = append(rows, "\""+name+"\"")
		}
	}
	return "(* every function of types.go, util.go, builder.go and Marshal / Packet.Scan of packet.go, in source order *)\nDefinition all_funcs : list string :=\n  [ " + strings.Join(rows, ";\n    ") + " ].\n\n", nil
}

func genC06Skel(fset *token.FileSet, files []*ast.File) (string, error) {
	var b bytes.Buffer
	b.WriteString("(* ---- statement skeletons (Model/C06_syntax.v, cstmt6); the first string of each pair is the signature *)\nLocal Open Scope string_scope.\n\n")
	c := &c6sk{fset: fset}
	for _, sp := range c6Skels {
		fd := c6FindFunc(files, sp.recv, sp.name)
		if fd == nil || fd.Body == nil {
			return "", fmt.Errorf("c06 skeleton: function %s.%s not found", sp.recv, sp.name)
		}
		sig := "func "
		if fd.Recv != nil {
			rf := fd.Recv.List[0]
			n := ""
			if len(rf.Names) == 1 {
				n = rf.Names[0].Name + " "
			}
			sig += "(" + n + c6x(fset, rf.Type) + ") "
		}
		sig += fd.Name.Name + strings.TrimPrefix(c6x(c.fset, fd.Type), "func")
		qs, err := c.q(fd, sig)
		if err != nil {
			return "", err
		}
		body, err := c.list(fd.Body.List, "  ")
		if err != nil {
			return "", err
		}
		fmt.Fprintf(&b, "Definition %s : string * list cstmt6 :=\n  (%s,\n  %s).\n\n", sp.coq, qs, c6block(body, "  "))
	}
	af, err := c6AllFuncs(fset, files)
	if err != nil {
		return "", err
	}
	b.WriteString(af)
	return b.String(), nil
}
