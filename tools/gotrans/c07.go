package main

// c07.go: translation of the packet framing functions of net/packet/packet.go (property C07) into
// coq/Gen/C07gen.v:
//
//   - Pack, packWithoutCompression, packWithCompression (with the body of compressPacket placed at its
//     call), UnPack, unpackWithoutCompression, unpackWithCompression: each body becomes a list of
//     statements of the type `fstmt` of coq/Model/C07_syntax.v, in source order.  Every statement must
//     match one of the shapes of that type EXACTLY (the buffer-pool prologue, VarInt reads with their
//     `if err != nil { return err }`, the buffer writes, CopyN, the zlib reader, the resize-or-reuse
//     of p.Data, the in-place length patch, ...); any other statement or expression makes gotrans
//     fail, which the check reports as a broken correspondence;
//   - every integer expression and every condition of these bodies is translated funcs.go-style into a
//     NAMED Gallina definition over Z (`c07_<function>_<variable or role>`): constants folded by
//     go/types, an explicit wrap_s / wrap_u after every + - and conversion according to the Go type of
//     the result, x.Len() of a VarInt as packet_VarInt_Len (Gen/Funcs.v).  The statement carries the
//     definition applied to the variables it mentions (fun v => c07_f_x (v VLength) (v Vn)) plus the
//     rendered source text;
//   - net/conn.go: the bodies of ReadPacket, WritePacket, SetThreshold, SetCipher and the composite
//     literals of WrapConn / Listener.Accept as rendered text (conn_* : list string).
//
// go/parser + go/types with the stub importer of main.go; expressions whose type the stub importer
// cannot give (buff.Len()) are typed here: len, cap and Len() are int.

import (
	"bytes"
	"fmt"
	"go/ast"
	"go/constant"
	"go/token"
	"go/types"
	"os"
	"path/filepath"
	"strconv"
	"strings"
)

type c07ctx struct {
	fset *token.FileSet
	info *types.Info
	g    *gctx // text rendering (gate.go)
	fn   string
	buf  string // name of the pooled buffer in the current function
	defs bytes.Buffer
	used map[string]int
	// per expression
	free    []string
	freeSet map[string]bool
	files   []*ast.File
	varints map[string]bool       // <function>.<local> defined by `x := VarInt(...)`
	localTy map[string]types.Type // <function>.<local> defined by `x := e` where the stub importer gives e no type
}

type c07err struct{ msg string }

func (c *c07ctx) fail(n ast.Node, f string, a ...any) {
	panic(c07err{fmt.Sprintf("%s: %s: %s", c.fset.Position(n.Pos()), c.fn, fmt.Sprintf(f, a...))})
}

// the integer variables of Model/C07_syntax.v
var c07vars = map[string]string{
	"Length": "VLength", "PacketID": "VPacketID", "n": "Vn", "lengthOfData": "VlengthOfData",
	"PacketLength": "VPacketLength", "DataLength": "VDataLength", "n2": "Vn2", "n3": "Vn3",
	"packetLengthLen": "VpacketLengthLen", "threshold": "Vthreshold",
	"p.ID": "VpID", "packetID": "VpID", "len(p.Data)": "VlenData", "cap(p.Data)": "VcapData",
}

func (c *c07ctx) txt(e ast.Node) string {
	if sl, ok := e.(*ast.SliceExpr); ok && !sl.Slice3 {
		lo, hi := "", ""
		if sl.Low != nil {
			lo = c.txt(sl.Low)
		}
		if sl.High != nil {
			hi = c.txt(sl.High)
		}
		return c.txt(sl.X) + "[" + lo + ":" + hi + "]"
	}
	switch x := e.(type) {
	case ast.Expr:
		s, err := c.g.gx(x)
		if err != nil {
			panic(c07err{err.Error()})
		}
		return s
	case ast.Stmt:
		s, err := c.g.simple(x)
		if err != nil {
			panic(c07err{err.Error()})
		}
		return s
	}
	c.fail(e, "cannot render %T", e)
	return ""
}

func (c *c07ctx) v(n ast.Node, key string) string {
	fv, ok := c07vars[key]
	if !ok {
		c.fail(n, "%s is not a variable of Model/C07_syntax.v", key)
	}
	if !c.freeSet[fv] {
		c.freeSet[fv] = true
		c.free = append(c.free, fv)
	}
	return strings.TrimPrefix(fv, "V")
}

var c07int = types.Typ[types.Int]

// typeOf: the Go type of an integer expression; what the stub importer leaves untyped is typed here
func (c *c07ctx) typeOf(e ast.Expr) types.Type {
	t := c.typeOf1(e)
	if t == nil {
		c.fail(e, "no integer type for %s", c.txt(e))
	}
	return t
}

func (c *c07ctx) typeOf1(e ast.Expr) types.Type {
	switch x := e.(type) {
	case *ast.ParenExpr:
		return c.typeOf1(x.X)
	case *ast.Ident:
		if t, ok := c.localTy[c.fn+"."+x.Name]; ok {
			return t
		}
	case *ast.CallExpr:
		if id, ok := x.Fun.(*ast.Ident); ok && (id.Name == "len" || id.Name == "cap") {
			return c07int
		}
		if sel, ok := x.Fun.(*ast.SelectorExpr); ok && sel.Sel.Name == "Len" && len(x.Args) == 0 {
			return c07int
		}
	}
	if tv, ok := c.info.Types[e]; ok && tv.Type != nil {
		if _, _, ok := intKind(tv.Type); ok {
			return tv.Type
		}
		if b, ok := tv.Type.Underlying().(*types.Basic); ok && b.Info()&types.IsUntyped != 0 {
			return tv.Type
		}
	}
	if be, ok := e.(*ast.BinaryExpr); ok {
		tx, ty := c.typeOf1(be.X), c.typeOf1(be.Y)
		if _, _, ok := intKind(tx); ok {
			return tx
		}
		if _, _, ok := intKind(ty); ok {
			return ty
		}
	}
	return nil
}

func (c *c07ctx) wrap(e ast.Expr, ty types.Type, s string) string {
	signed, w, ok := intKind(ty)
	if !ok {
		c.fail(e, "result type %v of %s is not a sized integer type", ty, c.txt(e))
	}
	if signed {
		return fmt.Sprintf("(wrap_s %d %s)", w, s)
	}
	return fmt.Sprintf("(wrap_u %d %s)", w, s)
}

func (c *c07ctx) isVarInt(e ast.Expr) bool {
	// x := VarInt(...) whose operand the stub importer cannot type (buff.Len()): typed by its conversion
	if id, ok := e.(*ast.Ident); ok && c.varints[c.fn+"."+id.Name] {
		return true
	}
	if call, ok := e.(*ast.CallExpr); ok && len(call.Args) == 1 && c07isIdent(call.Fun, "VarInt") {
		return true
	}
	tv, ok := c.info.Types[e]
	if !ok || tv.Type == nil {
		return false
	}
	nt, ok := tv.Type.(*types.Named)
	return ok && nt.Obj().Name() == "VarInt"
}

// expr: an integer or boolean expression over the variables of c07vars
func (c *c07ctx) expr(e ast.Expr) string {
	if tv, ok := c.info.Types[e]; ok && tv.Value != nil {
		switch tv.Value.Kind() {
		case constant.Int:
			return zlit(tv.Value)
		case constant.Bool:
			return strconv.FormatBool(constant.BoolVal(tv.Value))
		}
		c.fail(e, "constant of unsupported kind")
	}
	switch x := e.(type) {
	case *ast.ParenExpr:
		return c.expr(x.X)
	case *ast.Ident:
		return c.v(e, x.Name)
	case *ast.SelectorExpr:
		return c.v(e, c.txt(e))
	case *ast.CallExpr:
		if tv, ok := c.info.Types[x.Fun]; ok && tv.IsType() {
			if len(x.Args) != 1 {
				c.fail(e, "conversion with %d arguments", len(x.Args))
			}
			return c.wrap(e, tv.Type, c.expr(x.Args[0]))
		}
		if id, ok := x.Fun.(*ast.Ident); ok && (id.Name == "len" || id.Name == "cap") && len(x.Args) == 1 {
			return c.v(e, c.txt(e))
		}
		if sel, ok := x.Fun.(*ast.SelectorExpr); ok && sel.Sel.Name == "Len" && len(x.Args) == 0 {
			if id, ok := sel.X.(*ast.Ident); ok && id.Name == c.buf && c.buf != "" {
				if !c.freeSet["VbuffLen"] {
					c.freeSet["VbuffLen"] = true
					c.free = append(c.free, "VbuffLen")
				}
				return "buffLen"
			}
			if c.isVarInt(sel.X) {
				return "(packet_VarInt_Len " + c.expr(sel.X) + ")"
			}
		}
		c.fail(e, "call %s is not translated", c.txt(e))
	case *ast.UnaryExpr:
		if x.Op == token.NOT {
			return "(negb " + c.expr(x.X) + ")"
		}
		if x.Op == token.SUB {
			return c.wrap(e, c.typeOf(e), "(- "+c.expr(x.X)+")")
		}
		c.fail(e, "unary operator %s", x.Op)
	case *ast.BinaryExpr:
		switch x.Op {
		case token.LAND:
			return "(" + c.expr(x.X) + " && " + c.expr(x.Y) + ")"
		case token.LOR:
			return "(" + c.expr(x.X) + " || " + c.expr(x.Y) + ")"
		}
		a, b := c.expr(x.X), c.expr(x.Y)
		switch x.Op {
		case token.ADD:
			return c.wrap(e, c.typeOf(e), "("+a+" + "+b+")")
		case token.SUB:
			return c.wrap(e, c.typeOf(e), "("+a+" - "+b+")")
		case token.EQL:
			return "(" + a + " =? " + b + ")"
		case token.NEQ:
			return "(negb (" + a + " =? " + b + "))"
		case token.LSS:
			return "(" + a + " <? " + b + ")"
		case token.LEQ:
			return "(" + a + " <=? " + b + ")"
		case token.GTR:
			return "(" + b + " <? " + a + ")"
		case token.GEQ:
			return "(" + b + " <=? " + a + ")"
		}
		c.fail(e, "binary operator %s", x.Op)
	}
	c.fail(e, "expression %T is not translated", e)
	return ""
}

// named: translate e into a named definition; returns the closure `(fun v : env => name (v VX) ...)`
func (c *c07ctx) named(e ast.Expr, role, ctype string) string {
	return c.namedWith(e, role, ctype, c.expr)
}

func (c *c07ctx) namedWith(e ast.Expr, role, ctype string, tr func(ast.Expr) string) string {
	c.free, c.freeSet = nil, map[string]bool{}
	body := tr(e)
	base := "c07_" + c.fn + "_" + role
	k := c.used[base]
	c.used[base] = k + 1
	name := base
	if k > 0 {
		name = fmt.Sprintf("%s_%d", base, k)
	}
	var ps, as []string
	for _, fv := range c.free {
		ps = append(ps, strings.TrimPrefix(fv, "V"))
		as = append(as, "(v "+fv+")")
	}
	params := ""
	if len(ps) > 0 {
		params = " (" + strings.Join(ps, " ") + " : Z)"
	}
	fmt.Fprintf(&c.defs, "(* %s: %s *)\nDefinition %s%s : %s :=\n  %s.\n\n", c.fn, strings.ReplaceAll(c.txt(e), "(*", "( *"), name, params, ctype, body)
	if len(as) == 0 {
		return "(fun _ : env => " + name + ")"
	}
	return "(fun v : env => " + name + " " + strings.Join(as, " ") + ")"
}

func (c *c07ctx) intExpr(e ast.Expr, role string) string  { return c.named(e, role, "Z") }
func (c *c07ctx) boolExpr(e ast.Expr, role string) string { return c.named(e, role, "bool") }

// ---------------------------------------------------------------- statements

func c07q(s string) string { return gq(s) }

func c07isIdent(e ast.Expr, name string) bool {
	id, ok := e.(*ast.Ident)
	return ok && id.Name == name
}

// errCheck: `if err != nil { return err }`
func (c *c07ctx) isErrCheck(s ast.Stmt) bool {
	x, ok := s.(*ast.IfStmt)
	if !ok || x.Init != nil || x.Else != nil || len(x.Body.List) != 1 {
		return false
	}
	if c.txt(x.Cond) != "err != nil" {
		return false
	}
	r, ok := x.Body.List[0].(*ast.ReturnStmt)
	return ok && len(r.Results) == 1 && c07isIdent(r.Results[0], "err")
}

func (c *c07ctx) block(list []ast.Stmt, ind string) string {
	var items []string
	for _, s := range list {
		items = append(items, c.stmt(s, ind+"  ")...)
	}
	return gblock(items, ind)
}

func (c *c07ctx) callOf(e ast.Expr) (recv ast.Expr, method string, args []ast.Expr, ok bool) {
	call, ok := e.(*ast.CallExpr)
	if !ok || call.Ellipsis != token.NoPos {
		return nil, "", nil, false
	}
	sel, ok := call.Fun.(*ast.SelectorExpr)
	if !ok {
		return nil, "", nil, false
	}
	return sel.X, sel.Sel.Name, call.Args, true
}

func c07lhsText(c *c07ctx, x *ast.AssignStmt) string {
	var ls []string
	for _, l := range x.Lhs {
		ls = append(ls, c.txt(l))
	}
	return strings.Join(ls, ",") + " " + x.Tok.String()
}

func (c *c07ctx) stmt(s ast.Stmt, ind string) []string {
	switch x := s.(type) {
	case *ast.DeclStmt:
		gd, ok := x.Decl.(*ast.GenDecl)
		if ok && gd.Tok == token.VAR && len(gd.Specs) == 1 {
			vs := gd.Specs[0].(*ast.ValueSpec)
			if len(vs.Names) == 1 && len(vs.Values) == 0 && vs.Type != nil && c.txt(vs.Type) == "VarInt" {
				fv, ok := c07vars[vs.Names[0].Name]
				if !ok {
					c.fail(s, "variable %s is not in Model/C07_syntax.v", vs.Names[0].Name)
				}
				return []string{"FVar " + fv}
			}
		}
		c.fail(s, "unknown declaration")
	case *ast.DeferStmt:
		t := c.txt(x.Call)
		if t == "bufPool.Put("+c.buf+")" || t == "zlibPool.Put(zw)" || t == "zr.Close()" {
			return []string{"FDefer " + c07q(t)}
		}
		c.fail(s, "unknown deferred call %s", t)
	case *ast.ReturnStmt:
		if len(x.Results) != 1 {
			c.fail(s, "return with %d results", len(x.Results))
		}
		t := c.txt(x.Results[0])
		switch {
		case t == "err":
			return []string{"FReturnErr"}
		case t == "nil":
			return []string{"FReturnNil"}
		case t == "zw.Close()":
			return []string{"FZClose"}
		}
		if recv, m, args, ok := c.callOf(x.Results[0]); ok {
			rt := c.txt(recv)
			if rt == "fmt" && m == "Errorf" && len(args) >= 1 {
				lit, ok := args[0].(*ast.BasicLit)
				if !ok || lit.Kind != token.STRING {
					c.fail(s, "fmt.Errorf without a literal format")
				}
				f, err := strconv.Unquote(lit.Value)
				if err != nil {
					c.fail(s, "format string")
				}
				return []string{"FReturnErrorf " + c07q(f)}
			}
			if rt == "p" {
				var as []string
				for _, a := range args {
					as = append(as, c.txt(a))
				}
				al := strings.Join(as, ",")
				want := map[string]string{"packWithCompression": "w,threshold", "packWithoutCompression": "w",
					"unpackWithCompression": "r,threshold", "unpackWithoutCompression": "r"}
				if w, ok := want[m]; ok && w == al {
					return []string{"FTail " + c07q(m)}
				}
			}
		}
		c.fail(s, "unknown return %s", t)
	case *ast.ExprStmt:
		recv, m, args, ok := c.callOf(x.X)
		if !ok {
			c.fail(s, "unknown expression statement %s", c.txt(x.X))
		}
		rt := c.txt(recv)
		switch {
		case rt == c.buf && m == "Reset" && len(args) == 0:
			return []string{"FReset"}
		case rt == "zw" && m == "Reset" && len(args) == 1 && c.txt(args[0]) == "w":
			return []string{"FZReset"}
		case rt == c.buf && m == "Write" && len(args) == 1:
			return []string{c.bufWrite(s, args[0])}
		case rt == c.buf && m == "Next" && len(args) == 1:
			return []string{"FBufNext " + c07q(c.txt(args[0])) + " " + c.intExpr(args[0], "next")}
		case m == "WriteToBytes" && len(args) == 1 && c.isVarInt(recv):
			sl, ok := args[0].(*ast.SliceExpr)
			if ok && sl.Low == nil && sl.High != nil && !sl.Slice3 && c.txt(sl.X) == c.buf+".Bytes()" {
				return []string{"FBufPatch " + c07q(c.txt(recv)) + " " + c.intExpr(recv, "patch_value") + " " +
					c07q(c.txt(sl.High)) + " " + c.intExpr(sl.High, "patch_len")}
			}
		}
		c.fail(s, "unknown call statement %s", c.txt(x.X))
	case *ast.IfStmt:
		if c.isErrCheck(s) {
			return []string{"FErrCheck"}
		}
		if x.Init != nil {
			// `if err := compressPacket(buf, p.ID, p.Data); err != nil { return err }`
			// `if _, err := zw.Write(data); err != nil { return err }`
			init := c.txt(x.Init)
			plain := &ast.IfStmt{Cond: x.Cond, Body: x.Body, Else: x.Else}
			if !c.isErrCheck(plain) {
				c.fail(s, "unknown if statement with initialiser")
			}
			switch init {
			case "GOther " + gq("err := compressPacket("+c.buf+",p.ID,p.Data)"):
				return []string{"FCompress " + c.compressBody(ind)}
			case "GOther " + gq("_,err := zw.Write(data)"):
				return []string{"FZData"}
			}
			c.fail(s, "unknown if initialiser %s", init)
		}
		cond := c.boolExpr(x.Cond, "cond")
		th := c.block(x.Body.List, ind)
		el := "[]"
		switch e := x.Else.(type) {
		case nil:
		case *ast.BlockStmt:
			el = c.block(e.List, ind)
		default:
			c.fail(s, "else-if is not a shape of these functions")
		}
		return []string{fmt.Sprintf("FIf %s %s\n%s    %s\n%s    %s", c07q(c.txt(x.Cond)), cond, ind, th, ind, el)}
	case *ast.AssignStmt:
		return []string{c.assign(x)}
	}
	c.fail(s, "unknown statement %T", s)
	return nil
}

func (c *c07ctx) bufWrite(s ast.Stmt, arg ast.Expr) string {
	if c.txt(arg) == "p.Data" {
		return "FBufData"
	}
	if call, ok := arg.(*ast.CallExpr); ok && c07isIdent(call.Fun, "make") && len(call.Args) == 2 && c.txt(call.Args[0]) == "[]byte" {
		return "FBufZeros " + c07q(c.txt(call.Args[1])) + " " + c.intExpr(call.Args[1], "padding")
	}
	c.fail(s, "unknown buffer write %s", c.txt(arg))
	return ""
}

func (c *c07ctx) assign(x *ast.AssignStmt) string {
	lhs := c07lhsText(c, x)
	if len(x.Rhs) != 1 {
		c.fail(x, "assignment with %d right-hand sides", len(x.Rhs))
	}
	rhs := x.Rhs[0]
	rt := c.txt(rhs)
	// buf := bufPool.Get().(*bytes.Buffer)
	if x.Tok == token.DEFINE && len(x.Lhs) == 1 && rt == "bufPool.Get().(*bytes.Buffer)" {
		c.buf = c.txt(x.Lhs[0])
		return "FPoolGet " + c07q(c.buf)
	}
	if lhs == "zw :=" && rt == "zlibPool.Get().(*zlib.Writer)" {
		return "FZGet"
	}
	if lhs == "r =" && rt == "bytes.NewReader("+c.buf+".Bytes())" {
		return "FReaderOfBuf"
	}
	if lhs == "zr,err :=" && rt == "zlib.NewReader(r)" {
		return "FZlibReader"
	}
	if lhs == "r =" && rt == "zr" {
		return "FReaderZ"
	}
	if lhs == "_,err :=" && rt == "w.Write("+c.buf+".Bytes())" {
		return "FFlush"
	}
	if lhs == "_,err =" && rt == "io.ReadFull(r,p.Data)" {
		return "FReadFull"
	}
	if recv, m, args, ok := c.callOf(rhs); ok {
		rtxt := c.txt(recv)
		switch {
		case m == "ReadFrom" && len(args) == 1 && c.txt(args[0]) == "r" && len(x.Lhs) == 2 && c.txt(x.Lhs[1]) == "err":
			fv, ok := c07vars[rtxt]
			if !ok || !c.isVarInt(recv) {
				c.fail(x, "ReadFrom on %s", rtxt)
			}
			n := c.txt(x.Lhs[0])
			if n == "_" {
				return "FReadVarInt " + fv + " None"
			}
			nv, ok := c07vars[n]
			if !ok {
				c.fail(x, "byte count %s is not a variable of Model/C07_syntax.v", n)
			}
			if _, w, ok := intKind(c.info.Defs[x.Lhs[0].(*ast.Ident)].Type()); x.Tok != token.DEFINE || !ok || w != 64 {
				c.fail(x, "byte count %s is not a fresh int64", n)
			}
			return "FReadVarInt " + fv + " (Some " + nv + ")"
		case m == "WriteTo" && lhs == "_,_ =" && len(args) == 1 && c.isVarInt(recv):
			switch c.txt(args[0]) {
			case c.buf:
				return "FBufVarInt " + c07q(rtxt) + " " + c.intExpr(recv, "write")
			case "zw":
				return "FZVarInt " + c07q(rtxt) + " " + c.intExpr(recv, "zwrite")
			}
		case rtxt == c.buf && m == "Write" && lhs == "_,_ =" && len(args) == 1:
			return c.bufWrite(x, args[0])
		case rtxt == "io" && m == "CopyN" && lhs == "_,err =" && len(args) == 3 && c.txt(args[0]) == c.buf && c.txt(args[1]) == "r":
			return "FCopyN " + c07q(c.txt(args[2])) + " " + c.intExpr(args[2], "copy_count")
		}
	}
	if len(x.Lhs) != 1 {
		c.fail(x, "unknown assignment %s %s", lhs, rt)
	}
	l := c.txt(x.Lhs[0])
	switch l {
	case "p.ID":
		if x.Tok == token.ASSIGN {
			if _, w, ok := intKind(c.typeOf(rhs)); !ok || w != 32 {
				c.fail(x, "p.ID assigned a value that is not 32 bits wide")
			}
			return "FSetID " + c07q(rt) + " " + c.intExpr(rhs, "id")
		}
	case "p.Data":
		if x.Tok == token.ASSIGN {
			if call, ok := rhs.(*ast.CallExpr); ok && c07isIdent(call.Fun, "make") && len(call.Args) == 2 && c.txt(call.Args[0]) == "[]byte" {
				return "FMake " + c07q(c.txt(call.Args[1])) + " " + c.sizeExpr(call.Args[1], "make_len")
			}
			if sl, ok := rhs.(*ast.SliceExpr); ok && sl.Low == nil && sl.High != nil && !sl.Slice3 && c.txt(sl.X) == "p.Data" {
				return "FReslice " + c07q(c.txt(sl.High)) + " " + c.sizeExpr(sl.High, "slice_len")
			}
		}
	}
	if fv, ok := c07vars[l]; ok && c07isIdent(x.Lhs[0], l) {
		switch x.Tok {
		case token.DEFINE, token.ASSIGN:
			if x.Tok == token.DEFINE && c.isVarInt(rhs) {
				c.varints[c.fn+"."+l] = true
			}
			if tv, ok := c.info.Types[x.Lhs[0]]; x.Tok == token.DEFINE && !c.isVarInt(rhs) && (!ok || tv.Type == nil || !func() bool { _, _, k := intKind(tv.Type); return k }()) {
				if d := c.info.Defs[x.Lhs[0].(*ast.Ident)]; d == nil || !func() bool { _, _, k := intKind(d.Type()); return k }() {
					c.localTy[c.fn+"."+l] = c.typeOf(rhs)
				}
			}
			return "FLet " + fv + " " + c07q(l+" "+x.Tok.String()+" "+rt) + " " + c.intExpr(rhs, l)
		case token.SUB_ASSIGN:
			be := &ast.BinaryExpr{X: x.Lhs[0], Op: token.SUB, Y: rhs, OpPos: x.TokPos}
			c.info.Types[be] = c.info.Types[x.Lhs[0]]
			return "FLet " + fv + " " + c07q(l+" -= "+rt) + " " + c.namedWith(be, l, "Z", c.expr)
		}
	}
	c.fail(x, "unknown assignment %s %s", lhs, rt)
	return ""
}

// sizeExpr: the length in make([]byte, e) / p.Data[:e]: Go converts it to int
func (c *c07ctx) sizeExpr(e ast.Expr, role string) string {
	return c.namedWith(e, role, "Z", func(e ast.Expr) string {
		return c.wrap(e, c07int, c.expr(e))
	})
}

// compressBody: the body of compressPacket(w io.Writer, packetID int32, data []byte) placed at its call
// compressPacket(buf, p.ID, p.Data)
func (c *c07ctx) compressBody(ind string) string {
	fd := findFunc(c.files, "", "compressPacket")
	if fd == nil || fd.Body == nil {
		panic(c07err{"compressPacket not found"})
	}
	names, _ := fieldNames(fd.Type.Params)
	if strings.Join(names, ",") != "w,packetID,data" {
		panic(c07err{"compressPacket: parameters are not (w, packetID, data)"})
	}
	save := c.fn
	c.fn = "compressPacket"
	r := c.block(fd.Body.List, ind+"  ")
	c.fn = save
	return r
}

type c07fn struct{ recv, name, params string }

var c07fns = []c07fn{
	{"Packet", "Pack", "w,threshold"},
	{"Packet", "packWithoutCompression", "w"},
	{"Packet", "packWithCompression", "w,threshold"},
	{"Packet", "UnPack", "r,threshold"},
	{"Packet", "unpackWithoutCompression", "r"},
	{"Packet", "unpackWithCompression", "r,threshold"},
}

// net/conn.go: method bodies as rendered statements
var c07conn = []string{"ReadPacket", "WritePacket", "SetThreshold", "SetCipher"}

func genC07(repo string) (out string, err error) {
	defer func() {
		if r := recover(); r != nil {
			if te, ok := r.(c07err); ok {
				err = fmt.Errorf("%s", te.msg)
				return
			}
			if te, ok := r.(trErr); ok {
				err = te
				return
			}
			panic(r)
		}
	}()
	fset := token.NewFileSet()
	files, _, e := parseDir(fset, filepath.Join(repo, "net/packet"))
	if e != nil {
		return "", e
	}
	conf := types.Config{Importer: &fakeImporter{map[string]*types.Package{}}, Error: func(error) {}}
	info := &types.Info{Types: map[ast.Expr]types.TypeAndValue{}, Defs: map[*ast.Ident]types.Object{}, Uses: map[*ast.Ident]types.Object{}}
	conf.Check("net/packet", fset, files, info)
	c := &c07ctx{fset: fset, info: info, used: map[string]int{}, files: files, varints: map[string]bool{}, localTy: map[string]types.Type{},
		g: &gctx{fset: fset, vars: map[string]string{}, seen: map[string]bool{}}}
	var skels bytes.Buffer
	for _, f := range c07fns {
		fd := findFunc(files, f.recv, f.name)
		if fd == nil || fd.Body == nil {
			return "", fmt.Errorf("net/packet: function %s.%s not found", f.recv, f.name)
		}
		names, _ := fieldNames(fd.Type.Params)
		if strings.Join(names, ",") != f.params {
			return "", fmt.Errorf("net/packet: %s: parameters are (%s), expected (%s)", f.name, strings.Join(names, ","), f.params)
		}
		if fd.Recv == nil || len(fd.Recv.List) != 1 || len(fd.Recv.List[0].Names) != 1 || fd.Recv.List[0].Names[0].Name != "p" {
			return "", fmt.Errorf("net/packet: %s: receiver is not called p", f.name)
		}
		if _, ok := fd.Recv.List[0].Type.(*ast.StarExpr); !ok {
			return "", fmt.Errorf("net/packet: %s: receiver is not a pointer", f.name)
		}
		for _, p := range fd.Type.Params.List {
			for _, n := range p.Names {
				if n.Name == "threshold" && c.g != nil {
					if t, _ := c.g.gx(p.Type); t != "int" {
						return "", fmt.Errorf("net/packet: %s: threshold is not an int", f.name)
					}
				}
			}
		}
		c.fn, c.buf = f.name, ""
		body := c.block(fd.Body.List, "  ")
		fmt.Fprintf(&skels, "(* net/packet/packet.go: Packet.%s *)\nDefinition %s : list sem_stmt :=\n  %s.\n\n", f.name, f.name, body)
	}
	// net/conn.go
	cfset := token.NewFileSet()
	cfiles, _, e := parseDir(cfset, filepath.Join(repo, "net"))
	if e != nil {
		return "", e
	}
	cg := &gctx{fset: cfset, vars: map[string]string{}, seen: map[string]bool{}}
	var conn bytes.Buffer
	render := func(list []ast.Stmt) ([]string, error) {
		var rs []string
		for _, s := range list {
			switch x := s.(type) {
			case *ast.ReturnStmt:
				t, err := cg.gxs(x.Results)
				if err != nil {
					return nil, err
				}
				rs = append(rs, gq("return "+t))
			case *ast.AssignStmt, *ast.ExprStmt:
				t, err := cg.simple(s)
				if err != nil {
					return nil, err
				}
				rs = append(rs, strings.TrimPrefix(t, "GOther "))
			default:
				return nil, fmt.Errorf("%s: unknown statement %T", cfset.Position(s.Pos()), s)
			}
		}
		return rs, nil
	}
	for _, name := range c07conn {
		fd := findFunc(cfiles, "Conn", name)
		if fd == nil || fd.Body == nil {
			return "", fmt.Errorf("net: method Conn.%s not found", name)
		}
		rs, err := render(fd.Body.List)
		if err != nil {
			return "", err
		}
		fmt.Fprintf(&conn, "(* net/conn.go: Conn.%s *)\nDefinition conn_%s : list string :=\n  [%s].\n\n", name, name, strings.Join(rs, ";\n   "))
	}
	// every composite literal of type Conn (WrapConn, Listener.Accept): its key:value list
	var lits []string
	for _, f := range cfiles {
		ast.Inspect(f, func(n ast.Node) bool {
			cl, ok := n.(*ast.CompositeLit)
			if !ok || !c07isIdent(cl.Type, "Conn") {
				return true
			}
			t, err2 := cg.gxs(cl.Elts)
			if err2 != nil {
				err = err2
				return false
			}
			lits = append(lits, gq(t))
			return true
		})
	}
	if err != nil {
		return "", err
	}
	if len(lits) == 0 {
		return "", fmt.Errorf("net: no composite literal of type Conn found")
	}
	fmt.Fprintf(&conn, "(* net/conn.go: every composite literal Conn{...} (WrapConn, Listener.Accept) *)\nDefinition conn_literals : list string :=\n  [%s].\n\n", strings.Join(lits, ";\n   "))

	genC07conn(cfset, cfiles, &conn)

	var b bytes.Buffer
	b.WriteString("(* GENERATED by tools/gotrans (c07.go) from net/packet/packet.go and net/conn.go - do not edit *)\n")
	b.WriteString("From Coq Require Import ZArith Bool List String.\n")
	b.WriteString("From GoMC Require Import Base.GoInt Gen.Funcs Model.C07_syntax Model.C07_connsyntax.\n")
	b.WriteString("Import ListNotations.\nLocal Open Scope Z_scope.\nLocal Open Scope bool_scope.\n\n")
	b.WriteString("(* ---- expressions, funcs.go-style ---- *)\n")
	b.Write(c.defs.Bytes())
	b.WriteString("(* ---- statement skeletons ---- *)\nLocal Open Scope string_scope.\n\n")
	b.Write(skels.Bytes())
	b.Write(conn.Bytes())
	return b.String(), nil
}

// ---------------------------------------------------------------- net/conn.go, structured (Model/C07_connsyntax.v)
//
// Conn.ReadPacket / WritePacket / SetThreshold / SetCipher as lists of `cstmt`, the composite literals of type
// Conn as lists of (field, value), the struct's field list as text.  Shapes:
//   c.<Socket|Reader|Writer|threshold> = <value>
//   return p.UnPack(<value>, <value>)      return p.Pack(<value>, <value>)
// values: c.<field>, a parameter, an integer literal, cipher.StreamReader{S: v, R: v}, cipher.StreamWriter{S: v, W: v}
// (keys in any order, exactly these keys).  Anything else fails.

var c07connFields = map[string]string{"Socket": "CFSocket", "Reader": "CFReader", "Writer": "CFWriter", "threshold": "CFThreshold"}

type c07connCtx struct {
	fset   *token.FileSet
	g      *gctx
	recv   string
	params map[string]bool
}

func (c *c07connCtx) fail(n ast.Node, f string, a ...any) {
	panic(c07err{fmt.Sprintf("%s: %s", c.fset.Position(n.Pos()), fmt.Sprintf(f, a...))})
}

func (c *c07connCtx) val(e ast.Expr) string {
	switch x := e.(type) {
	case *ast.ParenExpr:
		return c.val(x.X)
	case *ast.Ident:
		if c.params[x.Name] {
			return "CVParam " + gq(x.Name)
		}
		c.fail(e, "identifier %s is not a parameter", x.Name)
	case *ast.BasicLit:
		if x.Kind == token.INT {
			return "CVInt (" + x.Value + ")%Z"
		}
	case *ast.UnaryExpr:
		if lit, ok := x.X.(*ast.BasicLit); ok && x.Op == token.SUB && lit.Kind == token.INT {
			return "CVInt (-" + lit.Value + ")%Z"
		}
	case *ast.SelectorExpr:
		if c07isIdent(x.X, c.recv) && c.recv != "" {
			if f, ok := c07connFields[x.Sel.Name]; ok {
				return "CVField " + f
			}
		}
	case *ast.CompositeLit:
		ty, _ := c.g.gx(x.Type)
		keys := map[string]string{}
		for _, el := range x.Elts {
			kv, ok := el.(*ast.KeyValueExpr)
			if !ok {
				c.fail(el, "composite literal element without a key")
			}
			k, _ := c.g.gx(kv.Key)
			if _, dup := keys[k]; dup {
				c.fail(el, "duplicate key %s", k)
			}
			keys[k] = "(" + c.val(kv.Value) + ")"
		}
		switch {
		case ty == "cipher.StreamReader" && len(keys) == 2 && keys["S"] != "" && keys["R"] != "":
			return "CVStreamReader " + keys["S"] + " " + keys["R"]
		case ty == "cipher.StreamWriter" && len(keys) == 2 && keys["S"] != "" && keys["W"] != "":
			return "CVStreamWriter " + keys["S"] + " " + keys["W"]
		}
		c.fail(e, "composite literal of type %s is not a shape of Model/C07_connsyntax.v", ty)
	}
	t, _ := c.g.gx(e)
	c.fail(e, "value %s (%T) is not a shape of Model/C07_connsyntax.v", t, e)
	return ""
}

func (c *c07connCtx) stmt(s ast.Stmt) string {
	switch x := s.(type) {
	case *ast.AssignStmt:
		if x.Tok == token.ASSIGN && len(x.Lhs) == 1 && len(x.Rhs) == 1 {
			if sel, ok := x.Lhs[0].(*ast.SelectorExpr); ok && c07isIdent(sel.X, c.recv) {
				if f, ok := c07connFields[sel.Sel.Name]; ok {
					return "CAssign " + f + " (" + c.val(x.Rhs[0]) + ")"
				}
			}
		}
	case *ast.ReturnStmt:
		if len(x.Results) == 1 {
			if call, ok := x.Results[0].(*ast.CallExpr); ok && len(call.Args) == 2 && call.Ellipsis == token.NoPos {
				if sel, ok := call.Fun.(*ast.SelectorExpr); ok && c07isIdent(sel.X, "p") && c.params["p"] {
					switch sel.Sel.Name {
					case "UnPack":
						return "CReturnUnPack (" + c.val(call.Args[0]) + ") (" + c.val(call.Args[1]) + ")"
					case "Pack":
						return "CReturnPack (" + c.val(call.Args[0]) + ") (" + c.val(call.Args[1]) + ")"
					}
				}
			}
		}
	}
	c.fail(s, "statement %T is not a shape of Model/C07_connsyntax.v", s)
	return ""
}

type c07connSpec struct{ name, params string }

var c07connSpecs = []c07connSpec{
	{"ReadPacket", "p:*pk.Packet"}, {"WritePacket", "p:pk.Packet"},
	{"SetThreshold", "t:int"}, {"SetCipher", "ecoStream:cipher.Stream,decoStream:cipher.Stream"},
}

func genC07conn(fset *token.FileSet, files []*ast.File, out *bytes.Buffer) {
	g := &gctx{fset: fset, vars: map[string]string{}, seen: map[string]bool{}}
	for _, sp := range c07connSpecs {
		fd := findFunc(files, "Conn", sp.name)
		if fd == nil || fd.Body == nil {
			panic(c07err{"net: method Conn." + sp.name + " not found"})
		}
		c := &c07connCtx{fset: fset, g: g, params: map[string]bool{}}
		if fd.Recv == nil || len(fd.Recv.List) != 1 || len(fd.Recv.List[0].Names) != 1 {
			c.fail(fd, "Conn.%s: receiver", sp.name)
		}
		if _, ok := fd.Recv.List[0].Type.(*ast.StarExpr); !ok {
			c.fail(fd, "Conn.%s: receiver is not a pointer (assignments would be lost)", sp.name)
		}
		c.recv = fd.Recv.List[0].Names[0].Name
		var ps []string
		for _, f := range fd.Type.Params.List {
			t, _ := g.gx(f.Type)
			for _, n := range f.Names {
				ps = append(ps, n.Name+":"+t)
				c.params[n.Name] = true
			}
		}
		if strings.Join(ps, ",") != sp.params {
			c.fail(fd, "Conn.%s: parameters are (%s), expected (%s)", sp.name, strings.Join(ps, ","), sp.params)
		}
		var items []string
		for _, s := range fd.Body.List {
			items = append(items, c.stmt(s))
		}
		fmt.Fprintf(out, "(* net/conn.go: Conn.%s *)\nDefinition cs_%s : list cstmt :=\n  %s.\n\n", sp.name, sp.name, gblock(items, "  "))
	}
	// the struct and its literals
	var fields []string
	for _, f := range files {
		ast.Inspect(f, func(n ast.Node) bool {
			ts, ok := n.(*ast.TypeSpec)
			if !ok || ts.Name.Name != "Conn" {
				return true
			}
			st, ok := ts.Type.(*ast.StructType)
			if !ok {
				panic(c07err{"net: Conn is not a struct"})
			}
			for _, fl := range st.Fields.List {
				t, _ := g.gx(fl.Type)
				if len(fl.Names) == 0 {
					fields = append(fields, gq(t))
				}
				for _, n := range fl.Names {
					fields = append(fields, gq(n.Name+" "+t))
				}
			}
			return false
		})
	}
	fmt.Fprintf(out, "(* net/conn.go: type Conn struct *)\nDefinition cs_fields : list string :=\n  [%s].\n\n", strings.Join(fields, "; "))
	var lits []string
	for _, f := range files {
		for _, d := range f.Decls {
			fd, ok := d.(*ast.FuncDecl)
			if !ok || fd.Body == nil {
				continue
			}
			ast.Inspect(fd.Body, func(n ast.Node) bool {
				cl, ok := n.(*ast.CompositeLit)
				if !ok || !c07isIdent(cl.Type, "Conn") {
					return true
				}
				// identifiers in a literal: parameters or locals of the enclosing function (the accepted / wrapped net.Conn)
				c := &c07connCtx{fset: fset, g: g, params: map[string]bool{"conn": true}}
				var items []string
				for _, el := range cl.Elts {
					kv, ok := el.(*ast.KeyValueExpr)
					if !ok {
						c.fail(el, "Conn literal element without a key")
					}
					k, _ := g.gx(kv.Key)
					fld, ok := c07connFields[k]
					if !ok {
						c.fail(el, "Conn literal: unknown field %s", k)
					}
					items = append(items, "("+fld+", "+c.val(kv.Value)+")")
				}
				lits = append(lits, "(* in "+fd.Name.Name+" *) ["+strings.Join(items, "; ")+"]")
				return true
			})
		}
	}
	if len(lits) == 0 {
		panic(c07err{"net: no composite literal of type Conn found"})
	}
	fmt.Fprintf(out, "(* net/conn.go: every composite literal Conn{...} *)\nDefinition cs_literals : list (list (cfield * cval)) :=\n  [ %s ].\n\n", strings.Join(lits, ";\n    "))
}

// emitC07 is the one call main.go makes
func emitC07(repo, outdir string) {
	s, err := genC07(repo)
	if err != nil {
		fmt.Fprintln(os.Stderr, "gotrans: c07:", err)
		os.Exit(1)
	}
	if err := writeIfChanged(filepath.Join(outdir, "C07gen.v"), s); err != nil {
		fmt.Fprintln(os.Stderr, "gotrans:", err)
		os.Exit(1)
	}
}
