package main

// c08.go: translation for property C08 into coq/Gen/C08gen.v.
//
//   - server/command: (*Graph).Execute, (*Node).parse, (*Node).next (command.go) and
//     StringParser.Parse (parsers.go);
//   - registry/network.go: (*Registry[E]).ReadFrom and ReadTagsFrom (other methods of the file are
//     ignored);
//   - bot/configuration.go: idleTagsDecoder.ReadFrom and the body of the
//     `case packetid.ClientboundConfigUpdateTags:` clause of (*Client).joinConfiguration.
//
// Every body becomes a list of statements of the type `cstmt` of coq/Model/C08_syntax.v, in source
// order: the rendered source text of the statement (what the *_skel_ok obligations compare) and its
// MEANING as a Gallina function of a typed state record (cst for the command functions, dst for the
// decoders; one field per Go variable, table below).  The meaning is obtained by translating the Go
// expressions of the statement: every slice expression x[a:], x[:b] and every index expression x[i]
// carries its bounds as a guard (g_slice_from / g_slice_to / g_index applied to the translated
// operands) and a false guard is PPanic; a method call on a possibly-nil interface, a type
// assertion, make with a length and a call of a nil func are guards as well.  The right operand of
// && is only guarded when the left one is true.  Calls of the other translated functions are
// parameters of the generated definition (call_parse, call_next, call_Parse, ...), which the
// interpretation lemmas instantiate with the interpretation of the callee's generated body.
//
// Only go/parser + go/ast.  A statement or expression outside the forms handled here makes gotrans
// exit non-zero with file:line.

import (
	"bytes"
	"fmt"
	"go/ast"
	"go/parser"
	"go/printer"
	"go/token"
	"os"
	"path/filepath"
	"strconv"
	"strings"
)

type c8var struct{ field, ty string }

// Go types as far as the translation needs them:
// str (list N), int (Z), bool, byte (N), node, data (pdata), args (list pdata), err (bool: non-nil),
// kids (list Z), kind (N), run (option N), parser (option Z), graph, skip (a variable that is not tracked)
type c8e struct {
	s, ty  string
	guards []c8g
}
type c8g struct{ cond, code string }

type c8ctx struct {
	fset   *token.FileSet
	fn     string
	dec    bool // decoder (state dst, R = dec unit) or command function (state cst)
	vars   map[string]c8var
	rtype  string // result type of the function: outcome | pres | nres | sp | dec
	depth  int    // loop nesting (decoders: loop variable i -> d_i, d_j)
	consts map[string]string
	recv   string
	lastErr string // Coq string literal of the text of the last `err = errors.New(...)`
}

type c8fail struct{ msg string }

func (c *c8ctx) fail(n ast.Node, f string, a ...any) {
	panic(c8fail{fmt.Sprintf("%s: %s: %s", c.fset.Position(n.Pos()), c.fn, fmt.Sprintf(f, a...))})
}

func (c *c8ctx) text(n ast.Node) string {
	var b bytes.Buffer
	printer.Fprint(&b, c.fset, n)
	return strings.Join(strings.Fields(b.String()), " ")
}

func coqstr(s string) string {
	for _, r := range s {
		if r > 126 || r < 32 {
			panic(c8fail{"non-printable character in source text: " + strconv.Quote(s)})
		}
	}
	return "\"" + strings.ReplaceAll(s, "\"", "\"\"") + "\""
}

func (c *c8ctx) get(field string) string {
	if c.dec {
		return "(d_" + field + " σ)"
	}
	return "(c_" + field + " σ)"
}
func (c *c8ctx) set(field, st, v string) string {
	if c.dec {
		return "(dset_" + field + " " + st + " " + v + ")"
	}
	return "(set_" + field + " " + st + " " + v + ")"
}

func joinGuards(gs []c8g, body string) string {
	for i := len(gs) - 1; i >= 0; i-- {
		body = "guarded " + gs[i].cond + " " + gs[i].code + " (" + body + ")"
	}
	return body
}

// ---------------------------------------------------------------- expressions

func (c *c8ctx) ex(e ast.Expr) c8e {
	switch x := e.(type) {
	case *ast.ParenExpr:
		return c.ex(x.X)
	case *ast.Ident:
		switch x.Name {
		case "nil":
			return c8e{s: "nil", ty: "nil"}
		case "true", "false":
			return c8e{s: x.Name, ty: "bool"}
		}
		if v, ok := c.consts[x.Name]; ok {
			return c8e{s: "(" + v + ")%N", ty: "kind"}
		}
		v, ok := c.vars[x.Name]
		if !ok {
			c.fail(e, "unknown variable %s", x.Name)
		}
		if v.ty == "skip" {
			c.fail(e, "variable %s is not tracked and is used in an expression", x.Name)
		}
		if v.ty == "graph" {
			return c8e{s: "g", ty: "graph"}
		}
		if v.ty == "regopt" {
			return c8e{s: "(known " + c.get("key") + ")", ty: "regopt"}
		}
		if v.ty == "loopi" {
			return c8e{s: c.get([]string{"i", "j"}[c.depth-1]), ty: "int"}
		}
		return c8e{s: c.get(v.field), ty: v.ty}
	case *ast.BasicLit:
		switch x.Kind {
		case token.INT:
			n, err := strconv.ParseInt(x.Value, 0, 64)
			if err != nil {
				c.fail(e, "integer literal %s", x.Value)
			}
			return c8e{s: fmt.Sprintf("(%d)%%Z", n), ty: "int"}
		case token.CHAR:
			r, _, _, err := strconv.UnquoteChar(x.Value[1:len(x.Value)-1], '\'')
			if err != nil || r > 127 {
				c.fail(e, "character literal %s", x.Value)
			}
			return c8e{s: fmt.Sprintf("(%d)%%N", r), ty: "byte"}
		case token.STRING:
			s, err := strconv.Unquote(x.Value)
			if err != nil {
				c.fail(e, "string literal %s", x.Value)
			}
			parts := []string{}
			for i := 0; i < len(s); i++ {
				parts = append(parts, fmt.Sprintf("(%d)%%N", s[i]))
			}
			return c8e{s: "[" + strings.Join(parts, "; ") + "]", ty: "str"}
		}
	case *ast.SelectorExpr:
		base := c.ex(x.X)
		switch {
		case base.ty == "node" && x.Sel.Name == "Name":
			return c8e{s: "(name " + base.s + ")", ty: "str", guards: base.guards}
		case base.ty == "node" && x.Sel.Name == "kind":
			return c8e{s: "(kind " + base.s + ")", ty: "kind", guards: base.guards}
		case base.ty == "node" && x.Sel.Name == "Children":
			return c8e{s: "(children " + base.s + ")", ty: "kids", guards: base.guards}
		case base.ty == "node" && x.Sel.Name == "Run":
			return c8e{s: "(run " + base.s + ")", ty: "run", guards: base.guards}
		case base.ty == "node" && x.Sel.Name == "Parser":
			return c8e{s: "(parser " + base.s + ")", ty: "parser", guards: base.guards}
		case base.ty == "node" && x.Sel.Name == "g":
			return c8e{s: "g", ty: "graph", guards: base.guards}
		case base.ty == "graph" && x.Sel.Name == "nodes":
			return c8e{s: "g", ty: "graph", guards: base.guards}
		case base.ty == "reg" && x.Sel.Name == "values":
			return c8e{s: "values", ty: "regvalues"}
		}
		c.fail(e, "selector %s on a %s", x.Sel.Name, base.ty)
	case *ast.IndexExpr:
		a, i := c.ex(x.X), c.ex(x.Index)
		if i.ty != "int" {
			c.fail(e, "index of type %s", i.ty)
		}
		gs := append(append([]c8g{}, a.guards...), i.guards...)
		switch a.ty {
		case "graph":
			return c8e{s: "(node_at g " + i.s + ")", ty: "node", guards: append(gs, c8g{"(g_index g " + i.s + ")", "pIndex"})}
		case "kids":
			return c8e{s: "(z_at " + a.s + " " + i.s + ")", ty: "int", guards: append(gs, c8g{"(g_index " + a.s + " " + i.s + ")", "pIndex"})}
		case "str":
			return c8e{s: "(byte_at " + a.s + " " + i.s + ")", ty: "byte", guards: append(gs, c8g{"(g_index " + a.s + " " + i.s + ")", "pIndex"})}
		}
		c.fail(e, "index into a %s", a.ty)
	case *ast.SliceExpr:
		if x.Slice3 {
			c.fail(e, "3-index slice")
		}
		a := c.ex(x.X)
		if a.ty != "str" {
			c.fail(e, "slice of a %s", a.ty)
		}
		switch {
		case x.Low != nil && x.High == nil:
			l := c.ex(x.Low)
			gs := append(append([]c8g{}, a.guards...), l.guards...)
			return c8e{s: "(slice_from " + a.s + " " + l.s + ")", ty: "str", guards: append(gs, c8g{"(g_slice_from " + a.s + " " + l.s + ")", "pSlice"})}
		case x.Low == nil && x.High != nil:
			h := c.ex(x.High)
			gs := append(append([]c8g{}, a.guards...), h.guards...)
			return c8e{s: "(slice_to " + a.s + " " + h.s + ")", ty: "str", guards: append(gs, c8g{"(g_slice_to " + a.s + " " + h.s + ")", "pSlice"})}
		}
		c.fail(e, "slice expression with both or no bounds")
	case *ast.UnaryExpr:
		a := c.ex(x.X)
		switch {
		case x.Op == token.NOT && a.ty == "bool":
			return c8e{s: "(negb " + a.s + ")", ty: "bool", guards: a.guards}
		case x.Op == token.SUB && a.ty == "int":
			return c8e{s: "(- " + a.s + ")%Z", ty: "int", guards: a.guards}
		}
		c.fail(e, "unary %s on %s", x.Op, a.ty)
	case *ast.BinaryExpr:
		return c.bin(x)
	case *ast.CallExpr:
		return c.call(x)
	}
	c.fail(e, "expression %s (%T)", c.text(e), e)
	return c8e{}
}

func (c *c8ctx) bin(x *ast.BinaryExpr) c8e {
	a, b := c.ex(x.X), c.ex(x.Y)
	gs := append(append([]c8g{}, a.guards...), b.guards...)
	op := x.Op
	if op == token.LAND || op == token.LOR {
		if a.ty != "bool" || b.ty != "bool" {
			c.fail(x, "%s on %s, %s", op, a.ty, b.ty)
		}
		// the right operand is evaluated (and guarded) only when the left one does not decide
		gs = append([]c8g{}, a.guards...)
		for _, g := range b.guards {
			if op == token.LAND {
				gs = append(gs, c8g{"(negb " + a.s + " || " + g.cond + ")", g.code})
			} else {
				gs = append(gs, c8g{"(" + a.s + " || " + g.cond + ")", g.code})
			}
		}
		o := "&&"
		if op == token.LOR {
			o = "||"
		}
		return c8e{s: "(" + a.s + " " + o + " " + b.s + ")", ty: "bool", guards: gs}
	}
	// comparisons with nil
	if op == token.EQL || op == token.NEQ {
		var v c8e
		isnil := false
		if b.ty == "nil" {
			v, isnil = a, true
		} else if a.ty == "nil" {
			v, isnil = b, true
		}
		if isnil {
			var s string
			switch v.ty {
			case "err":
				s = v.s // true = non-nil
			case "run", "parser", "regopt":
				s = "(match " + v.s + " with Some _ => true | None => false end)"
			default:
				c.fail(x, "comparison of a %s with nil", v.ty)
			}
			if op == token.EQL {
				s = "(negb " + s + ")"
			}
			return c8e{s: s, ty: "bool", guards: v.guards}
		}
	}
	if op == token.AND && a.ty == "kind" && b.ty == "int" {
		return c8e{s: "(N.land " + a.s + " (Z.to_N " + b.s + "))", ty: "kind", guards: gs}
	}
	if a.ty != b.ty {
		c.fail(x, "operands of %s have types %s and %s", op, a.ty, b.ty)
	}
	cmp := map[token.Token]string{token.EQL: "=?", token.LSS: "<?", token.LEQ: "<=?"}
	scope := map[string]string{"int": "%Z", "byte": "%N", "kind": "%N"}
	switch a.ty {
	case "int", "byte", "kind":
		sc := scope[a.ty]
		switch op {
		case token.EQL, token.LSS, token.LEQ:
			return c8e{s: "(" + a.s + " " + cmp[op] + " " + b.s + ")" + sc, ty: "bool", guards: gs}
		case token.NEQ:
			return c8e{s: "(negb (" + a.s + " =? " + b.s + ")" + sc + ")", ty: "bool", guards: gs}
		case token.GTR:
			return c8e{s: "(" + b.s + " <? " + a.s + ")" + sc, ty: "bool", guards: gs}
		case token.GEQ:
			return c8e{s: "(" + b.s + " <=? " + a.s + ")" + sc, ty: "bool", guards: gs}
		}
	case "str":
		if op == token.EQL {
			return c8e{s: "(str_eqb " + a.s + " " + b.s + ")", ty: "bool", guards: gs}
		}
	}
	c.fail(x, "operator %s on %s", op, a.ty)
	return c8e{}
}

const c8ws = "\t\n\v\f\r "

func (c *c8ctx) call(x *ast.CallExpr) c8e {
	fn := c.text(x.Fun)
	arg := func(i int) c8e {
		if i >= len(x.Args) {
			c.fail(x, "%s: missing argument", fn)
		}
		return c.ex(x.Args[i])
	}
	switch fn {
	case "len":
		a := arg(0)
		switch a.ty {
		case "str", "kids":
			return c8e{s: "(zlen " + a.s + ")", ty: "int", guards: a.guards}
		case "regvalues":
			return c8e{s: c.get("lenvalues"), ty: "int"}
		}
		c.fail(x, "len of a %s", a.ty)
	case "int", "int32", "int64":
		a := arg(0)
		if a.ty != "int" {
			c.fail(x, "conversion of a %s", a.ty)
		}
		return a // VarInt / int32 -> int: no change of value
	case "string":
		a := arg(0)
		if a.ty != "str" {
			c.fail(x, "string() of a %s", a.ty)
		}
		return a
	case "strings.TrimSpace":
		a := arg(0)
		return c8e{s: "(trim " + a.s + ")", ty: "str", guards: a.guards}
	case "strings.HasPrefix":
		a, b := arg(0), arg(1)
		return c8e{s: "(is_prefix " + b.s + " " + a.s + ")", ty: "bool", guards: append(a.guards, b.guards...)}
	case "strings.TrimPrefix":
		a, b := arg(0), arg(1)
		return c8e{s: "(trim_prefix " + a.s + " " + b.s + ")", ty: "str", guards: append(a.guards, b.guards...)}
	case "strings.IndexAny":
		a := arg(0)
		lit, ok := x.Args[1].(*ast.BasicLit)
		if !ok || lit.Kind != token.STRING {
			c.fail(x, "IndexAny with a non-literal set")
		}
		if s, _ := strconv.Unquote(lit.Value); s != c8ws {
			c.fail(x, "IndexAny over the set %s (index_any_ws is the set %q)", lit.Value, c8ws)
		}
		return c8e{s: "(index_any_ws " + a.s + ")", ty: "int", guards: a.guards}
	case "LiteralData":
		a := arg(0)
		return c8e{s: "(PLit " + a.s + ")", ty: "data", guards: a.guards}
	case "append":
		a, b := arg(0), arg(1)
		if a.ty != "args" || b.ty != "data" {
			c.fail(x, "append of %s to %s", b.ty, a.ty)
		}
		return c8e{s: "(app " + a.s + " [" + b.s + "])", ty: "args", guards: append(a.guards, b.guards...)}
	case "sb.String":
		return c8e{s: c.get("sb"), ty: "str"}
	case "errors.New":
		return c8e{s: coqstr(c.errText(x)), ty: "newerr"}
	case "c.Registries.Registry":
		a := arg(0)
		return c8e{s: "(known " + a.s + ")", ty: "regopt", guards: a.guards}
	}
	c.fail(x, "call of %s", fn)
	return c8e{}
}

// first string literal of an errors.New argument
func (c *c8ctx) errText(x *ast.CallExpr) string {
	var lit *ast.BasicLit
	ast.Inspect(x.Args[0], func(n ast.Node) bool {
		if b, ok := n.(*ast.BasicLit); ok && b.Kind == token.STRING && lit == nil {
			lit = b
		}
		return lit == nil
	})
	if lit == nil {
		c.fail(x, "errors.New without a string literal")
	}
	s, _ := strconv.Unquote(lit.Value)
	return s
}

// ---------------------------------------------------------------- statements

func (c *c8ctx) stmts(l []ast.Stmt) []string {
	var out []string
	for i := 0; i < len(l); i++ {
		out = append(out, c.stmt(l, &i)...)
	}
	return out
}

func list(ss []string) string { return "[" + strings.Join(ss, ";\n   ") + "]" }

func (c *c8ctx) cset(txt, fn string) string {
	return "CSet " + coqstr(txt) + " (fun σ => " + fn + ")"
}
func (c *c8ctx) noop(n ast.Node) string { return c.cset(c.text(n), "POk σ") }

// assign e to the variable named lhs (type conversions by the variable's declared type)
func (c *c8ctx) assign(n ast.Node, lhs string, e c8e, st string) string {
	if lhs == "_" {
		return st
	}
	v, ok := c.vars[lhs]
	if !ok {
		c.fail(n, "assignment to unknown variable %s", lhs)
	}
	if v.ty == "skip" || v.ty == "regopt" {
		return st
	}
	val := e.s
	switch {
	case v.ty == e.ty:
	case v.ty == "data" && e.ty == "nil":
		val = "PNil"
	case v.ty == "data" && e.ty == "str":
		val = "(PStr " + e.s + ")"
	case v.ty == "err" && e.ty == "nil":
		val = "false"
	case v.ty == "err" && e.ty == "newerr":
		val = "true"
		if e.s != "" {
			c.lastErr = e.s
		}
	default:
		c.fail(n, "assignment of a %s to %s (%s)", e.ty, lhs, v.ty)
	}
	return c.set(v.field, st, val)
}

func (c *c8ctx) lhsNames(n ast.Node, l []ast.Expr) []string {
	var out []string
	for _, e := range l {
		id, ok := e.(*ast.Ident)
		if !ok {
			c.fail(n, "assignment target %s", c.text(e))
		}
		out = append(out, id.Name)
	}
	return out
}

// the statement after a read must be `if err != nil { return ..., err }`
func (c *c8ctx) needErrCheck(l []ast.Stmt, i int) {
	if i+1 < len(l) {
		if is, ok := l[i+1].(*ast.IfStmt); ok && is.Init == nil && c.text(is.Cond) == "err != nil" && len(is.Body.List) == 1 {
			if _, ok := is.Body.List[0].(*ast.ReturnStmt); ok {
				return
			}
		}
	}
	c.fail(l[i], "a read is not followed by `if err != nil { return ... }`")
}

func (c *c8ctx) stmt(l []ast.Stmt, ip *int) []string {
	s := l[*ip]
	switch x := s.(type) {
	case *ast.DeclStmt:
		gd := x.Decl.(*ast.GenDecl)
		if gd.Tok == token.CONST {
			return []string{c.noop(s)}
		}
		st := "σ"
		for _, sp := range gd.Specs {
			vs := sp.(*ast.ValueSpec)
			if len(vs.Values) != 0 {
				c.fail(s, "var with initialiser")
			}
			for _, nm := range vs.Names {
				v, ok := c.vars[nm.Name]
				if !ok {
					c.fail(s, "declaration of unknown variable %s", nm.Name)
				}
				zero := map[string]string{"args": "[]", "str": "[]", "bool": "false", "int": "(0)%Z", "data": "PNil", "err": "false"}
				if v.ty == "skip" || v.ty == "strskip" || v.ty == "reg" || v.ty == "loopi" || v.ty == "regopt" {
					continue
				}
				z, ok := zero[v.ty]
				if !ok {
					c.fail(s, "zero value of %s", v.ty)
				}
				st = c.set(v.field, st, z)
			}
		}
		return []string{c.cset(c.text(s), "POk "+st)}
	case *ast.AssignStmt:
		return []string{c.assignStmt(l, *ip, x)}
	case *ast.IncDecStmt:
		return []string{c.noop(s)}
	case *ast.ExprStmt:
		call, ok := x.X.(*ast.CallExpr)
		if !ok {
			c.fail(s, "expression statement")
		}
		fn := c.text(call.Fun)
		switch fn {
		case "panic":
			code := "pUnreachable"
			if strings.Contains(c.text(call.Args[0]), "prefixed with") {
				code = "pPrefix"
			} else if strings.Contains(c.text(call.Args[0]), "unknown format") {
				code = "pFormat"
			}
			return []string{"CPanic " + coqstr(c.text(s)) + " " + code}
		case "sb.WriteRune":
			a := c.ex(call.Args[0])
			if a.ty != "byte" {
				c.fail(s, "WriteRune of a %s", a.ty)
			}
			return []string{c.cset(c.text(s), joinGuards(a.guards, "POk "+c.set("sb", "σ", "(app "+c.get("sb")+" ["+a.s+"])")))}
		case "reg.Clear", "reg.Put":
			return []string{c.noop(s)}
		}
		c.fail(s, "call statement %s", fn)
	case *ast.IfStmt:
		if x.Init != nil {
			c.fail(s, "if with an init statement")
		}
		cond := c.ex(x.Cond)
		if cond.ty != "bool" {
			c.fail(s, "condition of type %s", cond.ty)
		}
		var el []string
		switch e := x.Else.(type) {
		case nil:
		case *ast.BlockStmt:
			el = c.stmts(e.List)
		case *ast.IfStmt:
			j := 0
			el = c.stmt([]ast.Stmt{e}, &j)
		}
		return []string{"CIf " + coqstr(c.text(x.Cond)) + " (fun σ => " + joinGuards(cond.guards, "POk "+cond.s) + ")\n  " +
			list(c.stmts(x.Body.List)) + "\n  " + list(el)}
	case *ast.SwitchStmt:
		return []string{c.switchStmt(x)}
	case *ast.ForStmt:
		return []string{c.forStmt(x)}
	case *ast.RangeStmt:
		return []string{c.rangeStmt(x)}
	case *ast.BranchStmt:
		switch x.Tok {
		case token.BREAK:
			return []string{"CBreak"}
		case token.CONTINUE:
			return []string{"CContinue"}
		}
		c.fail(s, "branch statement %s", x.Tok)
	case *ast.ReturnStmt:
		return []string{"CReturn " + coqstr(c.text(s)) + " (fun σ => " + c.ret(x) + ")"}
	}
	c.fail(s, "statement %s (%T)", c.text(s), s)
	return nil
}

func (c *c8ctx) assignStmt(l []ast.Stmt, i int, x *ast.AssignStmt) string {
	txt := c.text(x)
	if x.Tok == token.ADD_ASSIGN {
		return c.noop(x) // n += ...: the byte count returned is not interpreted
	}
	if x.Tok != token.ASSIGN && x.Tok != token.DEFINE {
		c.fail(x, "assignment operator %s", x.Tok)
	}
	// targets that are not plain variables: bookkeeping of the registry (guards on their indices)
	if len(x.Lhs) == 1 {
		if ix, ok := x.Lhs[0].(*ast.IndexExpr); ok {
			switch c.text(ix.X) {
			case "values": // values[i] = &reg.values[id]
				idx := c.ex(ix.Index)
				rhs, ok := x.Rhs[0].(*ast.UnaryExpr)
				if !ok || rhs.Op != token.AND {
					c.fail(x, "assignment to values[...]")
				}
				rix, ok := rhs.X.(*ast.IndexExpr)
				if !ok || c.text(rix.X) != "reg.values" {
					c.fail(x, "assignment to values[...]")
				}
				id := c.ex(rix.Index)
				gs := []c8g{{"((0 <=? " + idx.s + ")%Z && (" + idx.s + " <? " + c.get("made") + ")%Z)", "pIndex"},
					{"((0 <=? " + id.s + ")%Z && (" + id.s + " <? " + c.get("lenvalues") + ")%Z)", "pIndex"}}
				return c.cset(txt, joinGuards(gs, "POk σ"))
			case "reg.tags": // reg.tags[string(tag)] = values
				return c.noop(x)
			}
			c.fail(x, "assignment to %s", c.text(x.Lhs[0]))
		}
	}
	names := c.lhsNames(x, x.Lhs)
	if len(x.Rhs) != 1 {
		c.fail(x, "parallel assignment")
	}
	// calls with several results / effects
	if call, ok := x.Rhs[0].(*ast.CallExpr); ok {
		fn := c.text(call.Fun)
		switch {
		case fn == "node.parse" || fn == "n.Parser.Parse" || strings.HasSuffix(fn, ").Parse"):
			if len(names) != 3 {
				c.fail(x, "%s assigned to %d variables", fn, len(names))
			}
			a := c.ex(call.Args[0])
			var callee string
			gs := append([]c8g{}, a.guards...)
			wrap := func(s string) string { return s }
			switch {
			case fn == "node.parse":
				callee = "call_parse " + c.get("node") + " " + a.s
			case fn == "n.Parser.Parse":
				callee = "call_Parse f " + a.s
				wrap = func(s string) string {
					return "match parser " + c.get("node") + " with None => PPanic pNilParser | Some f => " + s + " end"
				}
			default: // StringParser(k).Parse
				conv, ok := call.Fun.(*ast.SelectorExpr).X.(*ast.CallExpr)
				if !ok || c.text(conv.Fun) != "StringParser" {
					c.fail(x, "call of %s", fn)
				}
				k := c.ex(conv.Args[0])
				callee = "call_Parse " + k.s + " " + a.s
			}
			okst := c.assign(x, names[2], c8e{s: "nil", ty: "nil"}, c.assign(x, names[1], c8e{s: "v", ty: "data"}, c.assign(x, names[0], c8e{s: "l", ty: "str"}, "σ")))
			errst := c.assign(x, names[2], c8e{s: "", ty: "newerr"}, "σ")
			body := "match " + callee + " with PR l v => POk " + okst + " | PErr => POk " + errst + " | PCrash w => PPanic w end"
			return c.cset(txt, joinGuards(gs, wrap(body)))
		case fn == "node.next":
			a := c.ex(call.Args[0])
			okst := c.assign(x, names[1], c8e{s: "nil", ty: "nil"}, c.assign(x, names[0], c8e{s: "z", ty: "int"}, "σ"))
			errst := c.assign(x, names[1], c8e{s: "", ty: "newerr"}, "σ")
			body := "match call_next " + c.get("node") + " " + a.s + " with NR z => POk " + okst + " | NErr => POk " + errst + " | NCrash w => PPanic w end"
			return c.cset(txt, joinGuards(a.guards, body))
		case strings.HasSuffix(fn, ".ReadFrom") || strings.HasSuffix(fn, ".ReadTagsFrom"):
			if !c.dec {
				c.fail(x, "a read in a command function")
			}
			c.needErrCheck(l, i)
			sel := call.Fun.(*ast.SelectorExpr)
			recv := c.text(sel.X)
			var eff string
			switch {
			case recv == "idleTagsDecoder{}":
				eff = "eff_sub call_idle"
			case recv == "registry" && sel.Sel.Name == "ReadTagsFrom":
				eff = "fun σ k => match known " + c.get("key") + " with Some nv => eff_sub (call_tags nv) σ k | None => Crash pNilDeref end"
			case strings.HasPrefix(recv, "pk.NBTField{"):
				if recv != "pk.NBTField{V: &data, AllowUnknownFields: true}" {
					c.fail(x, "NBT field %s", recv)
				}
				eff = "fun σ k => eff_sub (nbt_entry (Z.to_N " + c.get("i") + ")) σ k"
			default:
				v, ok := c.vars[recv]
				if !ok {
					c.fail(x, "read into %s", recv)
				}
				switch v.ty {
				case "int":
					eff = "eff_varint (fun σ x => " + c.set(v.field, "σ", "x") + ")"
				case "str":
					eff = "eff_string (fun σ x => " + c.set(v.field, "σ", "x") + ")"
				case "strskip":
					eff = "eff_string (fun σ _ => σ)"
				case "bool":
					eff = "eff_bool (fun σ x => " + c.set(v.field, "σ", "x") + ")"
				default:
					c.fail(x, "read into a %s", v.ty)
				}
			}
			return "CEff " + coqstr(txt) + " (" + eff + ")"
		case fn == "make":
			// make([]*E, n): n elements; make([]*E, 0, min(n, K)): no element, capacity bounded by the literal K
			// (a negative capacity panics like a negative length)
			if c.text(call.Args[0]) != "[]*E" || (len(call.Args) != 2 && len(call.Args) != 3) {
				c.fail(x, "make %s", c.text(call))
			}
			if len(call.Args) == 3 {
				mn, ok := call.Args[2].(*ast.CallExpr)
				if c.text(call.Args[1]) != "0" || !ok || c.text(mn.Fun) != "min" || len(mn.Args) != 2 {
					c.fail(x, "make %s", c.text(call))
				}
				k, ok := mn.Args[1].(*ast.BasicLit)
				if !ok || k.Kind != token.INT {
					c.fail(x, "make %s: capacity bound is not a literal", c.text(call))
				}
				n := c.ex(mn.Args[0])
				return c.cset(txt, joinGuards(append(n.guards, c8g{"(0 <=? Z.min " + n.s + " " + k.Value + ")%Z", "pMake"}), "POk "+c.set("made", "σ", "0%Z")))
			}
			n := c.ex(call.Args[1])
			return c.cset(txt, joinGuards(append(n.guards, c8g{"(0 <=? " + n.s + ")%Z", "pMake"}), "POk "+c.set("made", "σ", n.s)))
		case fn == "append" && len(names) == 1 && names[0] == "values":
			// values = append(values, &reg.values[id]): the index into reg.values is the only guard
			if len(call.Args) != 2 || c.text(call.Args[0]) != "values" {
				c.fail(x, "append %s", c.text(call))
			}
			rhs, ok := call.Args[1].(*ast.UnaryExpr)
			if !ok || rhs.Op != token.AND {
				c.fail(x, "append %s", c.text(call))
			}
			rix, ok := rhs.X.(*ast.IndexExpr)
			if !ok || c.text(rix.X) != "reg.values" {
				c.fail(x, "append %s", c.text(call))
			}
			id := c.ex(rix.Index)
			return c.cset(txt, joinGuards([]c8g{{"((0 <=? " + id.s + ")%Z && (" + id.s + " <? " + c.get("lenvalues") + ")%Z)", "pIndex"}}, "POk σ"))
		case fn == "bytes.NewReader":
			return c.noop(x)
		}
	}
	if ta, ok := x.Rhs[0].(*ast.TypeAssertExpr); ok {
		v := c.ex(ta.X)
		if v.ty != "data" || c.text(ta.Type) != "string" || len(names) != 1 {
			c.fail(x, "type assertion %s", c.text(ta))
		}
		return c.cset(txt, joinGuards(v.guards, "match "+v.s+" with PStr s => POk "+c.assign(x, names[0], c8e{s: "s", ty: "str"}, "σ")+" | _ => PPanic pAssert end"))
	}
	if len(names) != 1 {
		c.fail(x, "assignment of one value to %d variables", len(names))
	}
	e := c.ex(x.Rhs[0])
	return c.cset(txt, joinGuards(e.guards, "POk "+c.assign(x, names[0], e, "σ")))
}

func (c *c8ctx) switchStmt(x *ast.SwitchStmt) string {
	if x.Init != nil || x.Tag == nil {
		c.fail(x, "switch without a tag or with an init statement")
	}
	_ = c.ex(x.Tag)
	type cl struct {
		cc   *ast.CaseClause
		body []ast.Stmt
	}
	var cls []cl
	var def *ast.CaseClause
	for _, s := range x.Body.List {
		cc := s.(*ast.CaseClause)
		if cc.List == nil {
			def = cc
			continue
		}
		cls = append(cls, cl{cc: cc})
	}
	// bodies, with fallthrough resolved by appending the next clause's body (source order)
	all := x.Body.List
	bodyOf := func(cc *ast.CaseClause) []ast.Stmt {
		var out []ast.Stmt
		cur := cc
		for {
			b := cur.Body
			ft := false
			if len(b) > 0 {
				if br, ok := b[len(b)-1].(*ast.BranchStmt); ok && br.Tok == token.FALLTHROUGH {
					ft = true
					b = b[:len(b)-1]
				}
			}
			out = append(out, b...)
			if !ft {
				return out
			}
			var nxt *ast.CaseClause
			for k, s := range all {
				if s == ast.Stmt(cur) && k+1 < len(all) {
					nxt = all[k+1].(*ast.CaseClause)
				}
			}
			if nxt == nil {
				c.fail(cur, "fallthrough out of the last clause")
			}
			cur = nxt
		}
	}
	// else-chain in source order of the non-default clauses; the default clause last
	res := list(nil)
	if def != nil {
		res = list(append([]string{c.cset("default:", "POk σ")}, c.stmts(bodyOf(def))...))
	}
	for k := len(cls) - 1; k >= 0; k-- {
		cc := cls[k].cc
		if len(cc.List) != 1 {
			c.fail(cc, "case with several values")
		}
		cond := c.bin(&ast.BinaryExpr{X: x.Tag, Op: token.EQL, Y: cc.List[0], OpPos: cc.Pos()})
		ft := ""
		if len(cc.Body) > 0 {
			if br, ok := cc.Body[len(cc.Body)-1].(*ast.BranchStmt); ok && br.Tok == token.FALLTHROUGH {
				ft = " fallthrough"
			}
		}
		res = list([]string{"CIf " + coqstr("switch "+c.text(x.Tag)+" case "+c.text(cc.List[0])+ft) +
			" (fun σ => " + joinGuards(cond.guards, "POk "+cond.s) + ")\n  " +
			list(c.stmts(bodyOf(cc))) + "\n  " + res})
	}
	// position of the default clause among the clauses is part of the text
	pos := "switch " + c.text(x.Tag) + " clauses:"
	for _, s := range all {
		cc := s.(*ast.CaseClause)
		if cc.List == nil {
			pos += " default"
		} else {
			pos += " " + c.text(cc.List[0])
		}
	}
	return "CIf " + coqstr(pos) + " (fun σ => POk true)\n  " + res + "\n  []"
}

func (c *c8ctx) forStmt(x *ast.ForStmt) string {
	if x.Init == nil && x.Cond == nil && x.Post == nil {
		return "CLoop\n  " + list(c.stmts(x.Body.List))
	}
	// for i := 0; i < int(bound); i++
	as, ok := x.Init.(*ast.AssignStmt)
	if !ok || as.Tok != token.DEFINE || c.text(as) != "i := 0" {
		c.fail(x, "for initialiser")
	}
	inc, ok := x.Post.(*ast.IncDecStmt)
	if !ok || c.text(inc) != "i++" {
		c.fail(x, "for post statement")
	}
	if !c.dec {
		c.fail(x, "counted loop in a command function")
	}
	c.depth++
	if c.depth > 2 {
		c.fail(x, "loops nested deeper than two")
	}
	fld := []string{"i", "j"}[c.depth-1]
	cond := c.ex(x.Cond)
	if cond.ty != "bool" || len(cond.guards) != 0 {
		c.fail(x, "loop condition")
	}
	body := c.stmts(x.Body.List)
	c.depth--
	hdr := c.text(x.Init) + "; " + c.text(x.Cond) + "; " + c.text(x.Post)
	return "CFor " + coqstr(hdr) + " (fun σ => " + c.set(fld, "σ", "(0)%Z") + ") (fun σ => " + cond.s + ") (fun σ => " +
		c.set(fld, "σ", "(d_"+fld+" σ + 1)%Z") + ")\n  " + list(body)
}

func (c *c8ctx) rangeStmt(x *ast.RangeStmt) string {
	if x.Tok != token.DEFINE {
		c.fail(x, "range with assignment")
	}
	over := c.ex(x.X)
	key, val := "_", "_"
	if x.Key != nil {
		key = c.text(x.Key)
	}
	if x.Value != nil {
		val = c.text(x.Value)
	}
	hdr := "for " + key + ", " + val + " := range " + c.text(x.X)
	st := "σ"
	switch over.ty {
	case "str":
		if key != "_" {
			st = c.assign(x, key, c8e{s: "i", ty: "int"}, st)
		}
		if val != "_" {
			st = c.assign(x, val, c8e{s: "x", ty: "byte"}, st)
		}
		return "CRangeN " + coqstr(hdr) + " (fun σ => " + joinGuards(over.guards, "POk "+over.s) + ") (fun σ i x => " + st + ")\n  " + list(c.stmts(x.Body.List))
	case "kids":
		if key != "_" {
			c.fail(x, "range over children with an index variable")
		}
		if val != "_" {
			st = c.assign(x, val, c8e{s: "x", ty: "int"}, st)
		}
		return "CRangeZ " + coqstr(hdr) + " (fun σ => " + joinGuards(over.guards, "POk "+over.s) + ") (fun σ i x => " + st + ")\n  " + list(c.stmts(x.Body.List))
	}
	c.fail(x, "range over a %s", over.ty)
	return ""
}

// results
func (c *c8ctx) ret(x *ast.ReturnStmt) string {
	res := x.Results
	switch c.rtype {
	case "outcome": // Execute: error
		if len(res) != 1 {
			c.fail(x, "return of %d values", len(res))
		}
		if call, ok := res[0].(*ast.CallExpr); ok && c.text(call.Fun) == "node.Run" {
			if len(call.Args) != 2 || c.text(call.Args[1]) != "args" {
				c.fail(x, "arguments of node.Run")
			}
			return "match run " + c.get("node") + " with Some h => ORun h " + c.get("args") + " | None => OCrash pNilRun end"
		}
		e := c.ex(res[0])
		switch e.ty {
		case "newerr":
			return "OErr"
		case "err":
			return "if " + e.s + " then OErr else OCrash pStuck"
		}
		c.fail(x, "return of a %s", e.ty)
	case "pres": // parse: named results left, value, err
		if len(res) != 0 {
			c.fail(x, "parse returns its named results")
		}
		return "if " + c.get("err") + " then PErr else PR " + c.get("left") + " " + c.get("value")
	case "nres": // next: (next int32, err error)
		if len(res) == 0 {
			return "if " + c.get("err") + " then NErr else NR " + c.get("next")
		}
		if len(res) != 2 {
			c.fail(x, "return of %d values", len(res))
		}
		n, e := c.ex(res[0]), c.ex(res[1])
		if n.ty != "int" || len(n.guards)+len(e.guards) != 0 {
			c.fail(x, "return values")
		}
		switch e.ty {
		case "nil":
			return "NR " + n.s
		case "err":
			return "if " + e.s + " then NErr else NR " + n.s
		}
		c.fail(x, "return of a %s", e.ty)
	case "sp": // StringParser.Parse: (left string, value ParsedData, err error)
		if len(res) != 3 {
			c.fail(x, "return of %d values", len(res))
		}
		if cl, ok := res[2].(*ast.CompositeLit); ok && c.text(cl.Type) == "ParseErr" {
			return "PErr"
		}
		l, v, e := c.ex(res[0]), c.ex(res[1]), c.ex(res[2])
		if l.ty != "str" || v.ty != "str" || e.ty != "nil" {
			c.fail(x, "return of %s, %s, %s", l.ty, v.ty, e.ty)
		}
		gs := append(append([]c8g{}, l.guards...), v.guards...)
		body := "PR " + l.s + " (PStr " + v.s + ")"
		for i := len(gs) - 1; i >= 0; i-- {
			body = "if " + gs[i].cond + " then " + body + " else PCrash " + gs[i].code
		}
		return body
	case "dec":
		if len(res) == 0 {
			c.fail(x, "bare return in a decoder")
		}
		last := res[len(res)-1]
		if cl, ok := last.(*ast.CompositeLit); ok && c.text(cl.Type) == "ConfigErr" {
			return "Fail 1%N"
		}
		e := c.ex(last)
		switch e.ty {
		case "nil":
			return "Ret tt"
		case "err":
			return "if " + e.s + " then Fail (err_of " + c.lastErr + ") else Ret tt"
		case "newerr":
			return "Fail (err_of " + e.s + ")"
		}
		c.fail(x, "return of a %s", e.ty)
	}
	c.fail(x, "return in a function of result kind %s", c.rtype)
	return ""
}

// ---------------------------------------------------------------- driver

func c8find(files []*ast.File, recv, name string) (*ast.FuncDecl, bool) {
	var found *ast.FuncDecl
	n := 0
	for _, f := range files {
		for _, d := range f.Decls {
			fd, ok := d.(*ast.FuncDecl)
			if !ok || fd.Name.Name != name {
				continue
			}
			r := ""
			if fd.Recv != nil && len(fd.Recv.List) == 1 {
				t := fd.Recv.List[0].Type
				if st, ok := t.(*ast.StarExpr); ok {
					t = st.X
				}
				if ix, ok := t.(*ast.IndexExpr); ok {
					t = ix.X
				}
				if id, ok := t.(*ast.Ident); ok {
					r = id.Name
				}
			}
			if r == recv {
				found = fd
				n++
			}
		}
	}
	return found, n == 1
}

func genC08(repo string) (string, error) {
	var out bytes.Buffer
	var err error
	func() {
		defer func() {
			if r := recover(); r != nil {
				if f, ok := r.(c8fail); ok {
					err = fmt.Errorf("%s", f.msg)
					return
				}
				panic(r)
			}
		}()
		out.WriteString("(* GENERATED by tools/gotrans (c08.go) from server/command, registry/network.go and bot/configuration.go - do not edit *)\n")
		out.WriteString("From Coq Require Import ZArith NArith Bool List String.\n")
		out.WriteString("From GoMC Require Import Base.Bytes Base.Dec Model.C05 Model.C06 Model.C08 Model.C08_syntax Model.C08_sites.\n")
		out.WriteString("Import ListNotations.\nLocal Open Scope string_scope.\nLocal Open Scope bool_scope.\n\n")

		fset := token.NewFileSet()
		parse := func(dir string) []*ast.File {
			files, _, e := parseDir(fset, filepath.Join(repo, dir))
			if e != nil {
				panic(c8fail{e.Error()})
			}
			return files
		}
		cmdFiles := parse("server/command")
		// the node kinds: const ( RootNode = iota; LiteralNode; ArgumentNode )
		consts := map[string]string{}
		for _, f := range cmdFiles {
			for _, d := range f.Decls {
				gd, ok := d.(*ast.GenDecl)
				if !ok || gd.Tok != token.CONST || len(gd.Specs) == 0 {
					continue
				}
				if vs := gd.Specs[0].(*ast.ValueSpec); vs.Names[0].Name == "RootNode" {
					if len(vs.Values) != 1 || (&c8ctx{fset: fset}).text(vs.Values[0]) != "iota" {
						panic(c8fail{fset.Position(vs.Pos()).String() + ": RootNode is not iota"})
					}
					for i, sp := range gd.Specs {
						v := sp.(*ast.ValueSpec)
						if i > 0 && len(v.Values) != 0 {
							panic(c8fail{fset.Position(v.Pos()).String() + ": node kind with an explicit value"})
						}
						consts[v.Names[0].Name] = strconv.Itoa(i)
					}
				}
			}
		}
		for _, k := range []string{"RootNode", "LiteralNode", "ArgumentNode"} {
			if _, ok := consts[k]; !ok {
				panic(c8fail{"server/command: constant " + k + " not found"})
			}
			fmt.Fprintf(&out, "Definition c08_%s : N := (%s)%%N.\n", k, consts[k])
		}
		out.WriteString("\n")

		emit := func(files []*ast.File, recv, name, coqName, params, sty, rty, rtype string, dec bool, vars map[string]c8var, body func(fd *ast.FuncDecl) []ast.Stmt) {
			fd, ok := c8find(files, recv, name)
			if !ok {
				panic(c8fail{fmt.Sprintf("function (%s).%s not found exactly once", recv, name)})
			}
			c := &c8ctx{fset: fset, fn: recv + "." + name, dec: dec, vars: vars, rtype: rtype, consts: consts, lastErr: "\"\""}
			ss := c.stmts(body(fd))
			fmt.Fprintf(&out, "(* %s: %s *)\nDefinition %s %s: list (cstmt %s %s) :=\n  %s.\n\n", fset.Position(fd.Pos()), c.fn, coqName, params, sty, rty, list(ss))
		}
		whole := func(fd *ast.FuncDecl) []ast.Stmt { return fd.Body.List }

		emit(cmdFiles, "StringParser", "Parse", "c08_sp_Parse", "", "cst", "pres", "sp", false, map[string]c8var{
			"s": {"fmt", "int"}, "cmd": {"cmd", "str"}, "sb": {"sb", "str"}, "isEscaping": {"esc", "bool"},
			"i": {"i", "int"}, "v": {"v", "byte"}}, whole)
		emit(cmdFiles, "Node", "parse", "c08_node_parse", "(call_Parse : Z -> list N -> pres) ", "cst", "pres", "pres", false, map[string]c8var{
			"n": {"node", "node"}, "cmd": {"cmd", "str"}, "left": {"left", "str"}, "value": {"value", "data"}, "err": {"err", "err"}}, whole)
		emit(cmdFiles, "Node", "next", "c08_node_next", "(g : graph) (call_Parse : Z -> list N -> pres) ", "cst", "nres", "nres", false, map[string]c8var{
			"n": {"node", "node"}, "left": {"left", "str"}, "next": {"next", "int"}, "err": {"err", "err"},
			"value": {"value", "data"}, "literal": {"lit", "str"}, "i": {"i", "int"}}, whole)
		emit(cmdFiles, "Graph", "Execute", "c08_Execute", "(g : graph) (call_parse : node -> list N -> pres) (call_next : node -> list N -> nres) ", "cst", "outcome", "outcome", false, map[string]c8var{
			"g": {"", "graph"}, "cmd": {"cmd", "str"}, "left": {"left", "str"}, "value": {"value", "data"}, "args": {"args", "args"},
			"node": {"node", "node"}, "next": {"next", "int"}, "err": {"err", "err"}}, whole)

		regFiles := parse("registry")
		emit(regFiles, "Registry", "ReadFrom", "c08_Registry_ReadFrom", "(nbt_entry : N -> dec unit) ", "dst", "(dec unit)", "dec", true, map[string]c8var{
			"length": {"length", "int"}, "key": {"key", "strskip"}, "hasData": {"has", "bool"}, "i": {"", "loopi"},
			"n": {"", "skip"}, "n1": {"", "skip"}, "n2": {"", "skip"}, "n3": {"", "skip"}, "data": {"", "skip"}, "err": {"err", "err"}}, whole)
		emit(regFiles, "Registry", "ReadTagsFrom", "c08_Registry_ReadTagsFrom", "", "dst", "(dec unit)", "dec", true, map[string]c8var{
			"count": {"count", "int"}, "tag": {"key", "strskip"}, "length": {"length", "int"}, "id": {"id", "int"}, "i": {"", "loopi"},
			"reg": {"", "reg"}, "values": {"", "skip"},
			"n": {"", "skip"}, "n1": {"", "skip"}, "n2": {"", "skip"}, "n3": {"", "skip"}, "err": {"err", "err"}}, whole)

		botFiles := parse("bot")
		emit(botFiles, "idleTagsDecoder", "ReadFrom", "c08_idle_ReadFrom", "", "dst", "(dec unit)", "dec", true, map[string]c8var{
			"count": {"count", "int"}, "tag": {"key", "strskip"}, "length": {"length", "int"}, "id": {"id", "int"}, "i": {"", "loopi"},
			"n": {"", "skip"}, "n1": {"", "skip"}, "n2": {"", "skip"}, "n3": {"", "skip"}, "err": {"err", "err"}}, whole)
		emit(botFiles, "Client", "joinConfiguration", "c08_update_tags", "(known : list N -> option Z) (call_idle : dec unit) (call_tags : Z -> dec unit) ", "dst", "(dec unit)", "dec", true, map[string]c8var{
			"length": {"length", "int"}, "registryID": {"key", "str"}, "registry": {"", "regopt"}, "i": {"", "loopi"},
			"r": {"", "skip"}, "err": {"err", "err"}},
			func(fd *ast.FuncDecl) []ast.Stmt {
				var found []ast.Stmt
				n := 0
				ast.Inspect(fd.Body, func(nd ast.Node) bool {
					if cc, ok := nd.(*ast.CaseClause); ok && len(cc.List) == 1 {
						var b bytes.Buffer
						printer.Fprint(&b, fset, cc.List[0])
						if b.String() == "packetid.ClientboundConfigUpdateTags" {
							found = cc.Body
							n++
						}
					}
					return true
				})
				if n != 1 {
					panic(c8fail{"bot/configuration.go: case packetid.ClientboundConfigUpdateTags not found exactly once"})
				}
				return found
			})
		genC08sites(repo, &out)
		genC08alloc(repo, &out)
	}()
	return out.String(), err
}

func emitC08(repo, outdir string) {
	s, err := genC08(repo)
	if err != nil {
		fmt.Fprintln(os.Stderr, "gotrans: c08:", err)
		os.Exit(1)
	}
	if err := writeIfChanged(filepath.Join(outdir, "C08gen.v"), s); err != nil {
		fmt.Fprintln(os.Stderr, "gotrans:", err)
		os.Exit(1)
	}
}

var _ = parser.ParseFile

// ---------------------------------------------------------------- phase 5: every decode site
//
// c8sites enumerates every `<x>.Scan(args...)` call of bot/... and server/... and every ReadFrom method
// of the packages listed in c8methodPkgs, classifies each argument / each read by the DECLARED type of
// what is read (AST only: var declarations, struct fields, conversions (*pk.T)(...), pk.Array / pk.Tuple /
// pk.Opt / pk.Option / pk.NBT wrappers) and emits rows (name, source text, descriptor of
// Model/C08_sites.v).  A read through a type whose ReadFrom method is in one of these packages is
// expanded in place (a cycle is an error).  Anything that cannot be classified is an error.

type c8pkg struct {
	dir     string
	name    string
	files   []*ast.File
	structs map[string]*ast.StructType
	types   map[string]ast.Expr      // non-struct named types
	reads   map[string]*ast.FuncDecl // receiver type name -> ReadFrom method
	imports map[*ast.File]map[string]string
}

type c8sites struct {
	fset   *token.FileSet
	repo   string
	pkgs   map[string]*c8pkg // by directory
	byName map[string]*c8pkg // by package name as written in qualifiers
	choice int
	stack  []string
}

func (t *c8sites) fail(n ast.Node, f string, a ...any) {
	panic(c8fail{fmt.Sprintf("%s: %s", t.fset.Position(n.Pos()), fmt.Sprintf(f, a...))})
}
func (t *c8sites) text(n ast.Node) string {
	var b bytes.Buffer
	printer.Fprint(&b, t.fset, n)
	return strings.Join(strings.Fields(b.String()), " ")
}

func (t *c8sites) load(dir string) *c8pkg {
	if p, ok := t.pkgs[dir]; ok {
		return p
	}
	files, name, err := parseDir(t.fset, filepath.Join(t.repo, dir))
	if err != nil || len(files) == 0 {
		panic(c8fail{fmt.Sprintf("cannot parse %s: %v", dir, err)})
	}
	p := &c8pkg{dir: dir, name: name, files: files, structs: map[string]*ast.StructType{}, types: map[string]ast.Expr{},
		reads: map[string]*ast.FuncDecl{}, imports: map[*ast.File]map[string]string{}}
	for _, f := range files {
		im := map[string]string{}
		for _, is := range f.Imports {
			path, _ := strconv.Unquote(is.Path.Value)
			alias := path[strings.LastIndex(path, "/")+1:]
			if is.Name != nil {
				alias = is.Name.Name
			}
			im[alias] = path
		}
		p.imports[f] = im
		for _, d := range f.Decls {
			switch x := d.(type) {
			case *ast.GenDecl:
				if x.Tok != token.TYPE {
					continue
				}
				for _, sp := range x.Specs {
					ts := sp.(*ast.TypeSpec)
					if st, ok := ts.Type.(*ast.StructType); ok {
						p.structs[ts.Name.Name] = st
					} else {
						p.types[ts.Name.Name] = ts.Type
					}
				}
			case *ast.FuncDecl:
				if x.Name.Name == "ReadFrom" && x.Recv != nil && x.Body != nil {
					p.reads[c8recvName(x)] = x
				}
			}
		}
	}
	t.pkgs[dir] = p
	return p
}

func c8recvName(fd *ast.FuncDecl) string {
	ty := fd.Recv.List[0].Type
	if st, ok := ty.(*ast.StarExpr); ok {
		ty = st.X
	}
	if ix, ok := ty.(*ast.IndexExpr); ok {
		ty = ix.X
	}
	if id, ok := ty.(*ast.Ident); ok {
		return id.Name
	}
	return "?"
}

// the packages a qualifier can denote (by import path suffix) and their directories
var c8qualDirs = map[string]string{
	"github.com/Tnze/go-mc/chat": "chat", "github.com/Tnze/go-mc/chat/sign": "chat/sign",
	"github.com/Tnze/go-mc/level": "level", "github.com/Tnze/go-mc/level/component": "level/component",
	"github.com/Tnze/go-mc/yggdrasil/user": "yggdrasil/user", "github.com/Tnze/go-mc/bot": "bot",
	"github.com/Tnze/go-mc/bot/screen": "bot/screen",
}

var c8leaf = map[string]string{
	"Boolean": "TBool", "Byte": "TByte", "UnsignedByte": "TUByte", "Short": "TShort", "UnsignedShort": "TUShort",
	"Int": "TInt", "Long": "TLong", "Float": "TFloat", "Double": "TDouble", "VarInt": "TVarInt", "VarLong": "TVarLong",
	"String": "TString", "Identifier": "TString", "ByteArray": "TByteArray", "UUID": "TUUID", "Angle": "TAngle",
	"Position": "TPosition", "BitSet": "TBitSet",
}

// where an expression is evaluated: package, file, enclosing function
type c8where struct {
	p    *c8pkg
	file *ast.File
	fn   *ast.FuncDecl
	pos  token.Pos
}

func (t *c8sites) isPk(w c8where, q string) bool {
	return w.p.imports[w.file][q] == "github.com/Tnze/go-mc/net/packet"
}

// classify a TYPE expression
func (t *c8sites) ty(w c8where, e ast.Expr) string {
	switch x := e.(type) {
	case *ast.ParenExpr:
		return t.ty(w, x.X)
	case *ast.StarExpr:
		return t.ty(w, x.X)
	case *ast.SelectorExpr:
		q, ok := x.X.(*ast.Ident)
		if !ok {
			t.fail(e, "type %s", t.text(e))
		}
		if t.isPk(w, q.Name) {
			if l, ok := c8leaf[x.Sel.Name]; ok {
				return "DF " + l
			}
			switch x.Sel.Name {
			case "FixedBitSet":
				return "DExt \"FixedBitSet\""
			case "PluginMessageData":
				return "DRest"
			}
			t.fail(e, "packet type %s is not classified", x.Sel.Name)
		}
		path := w.p.imports[w.file][q.Name]
		switch path + "." + x.Sel.Name {
		case "github.com/Tnze/go-mc/chat.Message":
			return "DExt \"chat.Message\""
		case "github.com/Tnze/go-mc/chat.JsonMessage":
			return "DExt \"chat.JsonMessage\""
		case "github.com/Tnze/go-mc/level.Chunk":
			return "DExt \"level.Chunk\""
		}
		dir, ok := c8qualDirs[path]
		if !ok {
			t.fail(e, "type %s of package %q is not classified", t.text(e), path)
		}
		return t.named(t.load(dir), x.Sel.Name, e)
	case *ast.Ident:
		if w.p.dir == "chat" && x.Name == "Message" {
			return "DExt \"chat.Message\""
		}
		return t.named(w.p, x.Name, e)
	case *ast.StructType:
		// an anonymous struct has no methods: pk.Ary type-asserts its element to FieldDecoder and panics
		return "DPanic " + coqstr("element type "+t.text(e)+" is not a FieldDecoder")
	case *ast.IndexListExpr:
		if sel, ok := x.X.(*ast.SelectorExpr); ok && sel.Sel.Name == "Option" {
			if q, ok := sel.X.(*ast.Ident); ok && t.isPk(w, q.Name) && len(x.Indices) == 2 {
				return "DOption (" + t.ty(w, x.Indices[0]) + ")"
			}
		}
	}
	t.fail(e, "type %s is not classified", t.text(e))
	return ""
}

// a named type of package p: its ReadFrom method expanded, or the decoder it embeds
func (t *c8sites) named(p *c8pkg, name string, at ast.Node) string {
	key := p.dir + "." + name
	if fd, ok := p.reads[name]; ok {
		for _, s := range t.stack {
			if s == key {
				t.fail(at, "ReadFrom methods refer to each other in a cycle through %s", key)
			}
		}
		t.stack = append(t.stack, key)
		d := t.method(p, fd)
		t.stack = t.stack[:len(t.stack)-1]
		return d
	}
	if st, ok := p.structs[name]; ok {
		// a struct without its own ReadFrom: the method promoted from its single embedded field
		var emb []*ast.Field
		for _, f := range st.Fields.List {
			if len(f.Names) == 0 {
				emb = append(emb, f)
			}
		}
		if len(emb) == 1 {
			return t.ty(t.whereOfType(p, st), emb[0].Type)
		}
	}
	if _, ok := p.structs[name]; ok {
		// compiles only as the element of a pk.Array, whose ReadFrom type-asserts it to FieldDecoder
		return "DPanic " + coqstr("type "+p.dir+"."+name+" is not a FieldDecoder")
	}
	t.fail(at, "type %s.%s has no ReadFrom method", p.dir, name)
	return ""
}

func (t *c8sites) whereOfType(p *c8pkg, n ast.Node) c8where {
	for _, f := range p.files {
		if f.Pos() <= n.Pos() && n.Pos() < f.End() {
			return c8where{p: p, file: f}
		}
	}
	return c8where{p: p, file: p.files[0]}
}

// the declared type of an identifier used at w.pos inside w.fn
func (t *c8sites) varType(w c8where, name string, at ast.Node) (ast.Expr, c8where) {
	fd := w.fn
	if fd.Recv != nil && len(fd.Recv.List[0].Names) == 1 && fd.Recv.List[0].Names[0].Name == name {
		return fd.Recv.List[0].Type, w
	}
	var found ast.Expr
	var foundPos token.Pos
	take := func(pos token.Pos, e ast.Expr) {
		if pos < w.pos && pos >= foundPos {
			found, foundPos = e, pos
		}
	}
	for _, f := range fd.Type.Params.List {
		for _, n := range f.Names {
			if n.Name == name {
				take(n.Pos(), f.Type)
			}
		}
	}
	ast.Inspect(fd.Body, func(n ast.Node) bool {
		switch x := n.(type) {
		case *ast.FuncLit:
			for _, f := range x.Type.Params.List {
				for _, nm := range f.Names {
					if nm.Name == name {
						take(nm.Pos(), f.Type)
					}
				}
			}
		case *ast.ValueSpec:
			for _, nm := range x.Names {
				if nm.Name == name && x.Type != nil {
					take(nm.Pos(), x.Type)
				}
			}
		case *ast.AssignStmt:
			if x.Tok == token.DEFINE && len(x.Lhs) == len(x.Rhs) {
				for i, l := range x.Lhs {
					if id, ok := l.(*ast.Ident); ok && id.Name == name {
						switch r := x.Rhs[i].(type) {
						case *ast.CallExpr:
							switch t.text(r.Fun) {
							case "level.EmptyChunk":
								take(id.Pos(), &ast.SelectorExpr{X: &ast.Ident{Name: "level", NamePos: id.Pos()}, Sel: &ast.Ident{Name: "Chunk"}})
							case "new":
								take(id.Pos(), r.Args[0])
							default:
								// pk.NewFixedBitSet(n): a pk.FixedBitSet
								if sel, ok := r.Fun.(*ast.SelectorExpr); ok && sel.Sel.Name == "NewFixedBitSet" {
									if q, ok := sel.X.(*ast.Ident); ok && t.isPk(w, q.Name) {
										take(id.Pos(), &ast.SelectorExpr{X: &ast.Ident{Name: q.Name, NamePos: id.Pos()}, Sel: &ast.Ident{Name: "FixedBitSet"}})
									}
								}
							}
						case *ast.CompositeLit:
							take(id.Pos(), r.Type)
						case *ast.UnaryExpr:
							if cl, ok := r.X.(*ast.CompositeLit); ok && r.Op == token.AND {
								take(id.Pos(), cl.Type)
							}
						}
					}
				}
			}
		}
		return true
	})
	if found == nil {
		t.fail(at, "no declaration with a type found for %s", name)
	}
	return found, w
}

// the type of a value expression (identifier or field selection)
func (t *c8sites) exprType(w c8where, e ast.Expr) (ast.Expr, c8where) {
	switch x := e.(type) {
	case *ast.ParenExpr:
		return t.exprType(w, x.X)
	case *ast.Ident:
		return t.varType(w, x.Name, e)
	case *ast.SelectorExpr:
		bt, bw := t.exprType(w, x.X)
		// the struct type bt denotes
		for {
			if st, ok := bt.(*ast.StarExpr); ok {
				bt = st.X
				continue
			}
			break
		}
		var p *c8pkg
		var name string
		switch y := bt.(type) {
		case *ast.Ident:
			p, name = bw.p, y.Name
		case *ast.SelectorExpr:
			q := y.X.(*ast.Ident)
			dir, ok := c8qualDirs[bw.p.imports[bw.file][q.Name]]
			if !ok {
				t.fail(e, "struct type %s is not known", t.text(bt))
			}
			p, name = t.load(dir), y.Sel.Name
		default:
			t.fail(e, "field selection on %s", t.text(bt))
		}
		st, ok := p.structs[name]
		if !ok {
			t.fail(e, "%s.%s is not a struct", p.dir, name)
		}
		for _, f := range st.Fields.List {
			for _, n := range f.Names {
				if n.Name == x.Sel.Name {
					return f.Type, t.whereOfType(p, st)
				}
			}
			if len(f.Names) == 0 { // embedded
				et := f.Type
				if se, ok := et.(*ast.StarExpr); ok {
					et = se.X
				}
				en := ""
				switch z := et.(type) {
				case *ast.Ident:
					en = z.Name
				case *ast.SelectorExpr:
					en = z.Sel.Name
				}
				if en == x.Sel.Name {
					return f.Type, t.whereOfType(p, st)
				}
			}
		}
		t.fail(e, "struct %s.%s has no field %s", p.dir, name, x.Sel.Name)
	}
	t.fail(e, "value expression %s", t.text(e))
	return nil, w
}

// classify a FIELD expression: what is handed to Scan / put into a Tuple / has ReadFrom called on it
func (t *c8sites) field(w c8where, e ast.Expr) string {
	switch x := e.(type) {
	case *ast.ParenExpr:
		return t.field(w, x.X)
	case *ast.UnaryExpr:
		if x.Op == token.AND {
			ty, tw := t.exprType(w, x.X)
			return t.ty(tw, ty)
		}
	case *ast.Ident, *ast.SelectorExpr:
		ty, tw := t.exprType(w, e)
		return t.ty(tw, ty)
	case *ast.CallExpr:
		// conversion (*T)(...)
		if pe, ok := x.Fun.(*ast.ParenExpr); ok {
			if st, ok := pe.X.(*ast.StarExpr); ok {
				return t.ty(w, st.X)
			}
		}
		if sel, ok := x.Fun.(*ast.SelectorExpr); ok {
			if q, ok := sel.X.(*ast.Ident); ok && t.isPk(w, q.Name) && len(x.Args) == 1 {
				switch sel.Sel.Name {
				case "Array":
					return "DAry (" + t.elem(w, x.Args[0]) + ")"
				case "NBT":
					return "DExt \"NBT\""
				}
			}
		}
	case *ast.CompositeLit:
		if sel, ok := x.Type.(*ast.SelectorExpr); ok {
			if q, ok := sel.X.(*ast.Ident); ok && t.isPk(w, q.Name) {
				switch sel.Sel.Name {
				case "Tuple":
					var ds []string
					for _, el := range x.Elts {
						ds = append(ds, t.field(w, el))
					}
					return "DSeq [" + strings.Join(ds, "; ") + "]"
				case "NBTField":
					return "DExt \"NBT\""
				case "Opt":
					var fld ast.Expr
					for _, el := range x.Elts {
						kv, ok := el.(*ast.KeyValueExpr)
						if !ok {
							t.fail(e, "pk.Opt without field names")
						}
						if t.text(kv.Key) == "Field" {
							fld = kv.Value
						}
					}
					if fld == nil {
						t.fail(e, "pk.Opt without Field")
					}
					t.choice++
					k := t.choice
					return fmt.Sprintf("DChoice %d (%s) (DSeq [])", k, t.field(w, fld))
				}
			}
		}
	}
	t.fail(e, "field expression %s is not classified", t.text(e))
	return ""
}

// the element descriptor of the slice handed to pk.Array
func (t *c8sites) elem(w c8where, arg ast.Expr) string {
	var sl ast.Expr
	var sw c8where
	switch x := arg.(type) {
	case *ast.UnaryExpr:
		if x.Op == token.AND {
			sl, sw = t.exprType(w, x.X)
		}
	case *ast.CallExpr: // (*[]T)(unsafe.Pointer(...))
		if pe, ok := x.Fun.(*ast.ParenExpr); ok {
			if st, ok := pe.X.(*ast.StarExpr); ok {
				sl, sw = st.X, w
			}
		}
	}
	at, ok := sl.(*ast.ArrayType)
	if !ok || at.Len != nil {
		t.fail(arg, "argument of pk.Array is not a pointer to a slice: %s", t.text(arg))
	}
	return t.ty(sw, at.Elt)
}

// a ReadFrom method as a descriptor: its reads in source order
func (t *c8sites) method(p *c8pkg, fd *ast.FuncDecl) string {
	w := c8where{p: p, fn: fd}
	for _, f := range p.files {
		if f.Pos() <= fd.Pos() && fd.Pos() < f.End() {
			w.file = f
		}
	}
	if len(fd.Type.Params.List) != 1 || len(fd.Type.Params.List[0].Names) != 1 {
		t.fail(fd, "ReadFrom with an unexpected parameter list")
	}
	rd := fd.Type.Params.List[0].Names[0].Name
	ds := t.reads(w, rd, fd.Body.List)
	return "DSeq [" + strings.Join(ds, "; ") + "]"
}

func (t *c8sites) hasRead(rd string, n ast.Node) bool {
	found := false
	ast.Inspect(n, func(m ast.Node) bool {
		if c, ok := m.(*ast.CallExpr); ok {
			if sel, ok := c.Fun.(*ast.SelectorExpr); ok {
				if (sel.Sel.Name == "ReadFrom" || sel.Sel.Name == "Read") && len(c.Args) >= 1 {
					found = true
				}
			}
			if id, ok := c.Fun.(*ast.Ident); ok && id.Name == "panic" {
				found = true
			}
		}
		return true
	})
	return found
}

// the reads of one expression, in evaluation order
func (t *c8sites) readsOf(w c8where, rd string, e ast.Node) []string {
	var out []string
	ast.Inspect(e, func(m ast.Node) bool {
		c, ok := m.(*ast.CallExpr)
		if !ok {
			return true
		}
		if id, ok := c.Fun.(*ast.Ident); ok && id.Name == "panic" {
			out = append(out, "DPanic "+coqstr(t.text(c)))
			return false
		}
		sel, ok := c.Fun.(*ast.SelectorExpr)
		if !ok {
			return true
		}
		switch {
		case sel.Sel.Name == "ReadFrom" && len(c.Args) == 1 && t.text(c.Args[0]) == rd:
			w2 := w
			w2.pos = c.Pos()
			out = append(out, t.field(w2, sel.X))
			return false
		case sel.Sel.Name == "Read" && t.text(sel.X) == rd && len(c.Args) == 1:
			se, ok := c.Args[0].(*ast.SliceExpr)
			if !ok || se.Low != nil || se.High != nil {
				t.fail(c, "Read into %s", t.text(c.Args[0]))
			}
			w2 := w
			w2.pos = c.Pos()
			ty, tw := t.exprType(w2, se.X)
			out = append(out, fmt.Sprintf("DRaw %d", t.arrayLen(tw, ty, c)))
			return false
		case sel.Sel.Name == "ReadFrom" || sel.Sel.Name == "Read":
			t.fail(c, "a read that does not use the method's reader: %s", t.text(c))
		}
		for _, a := range c.Args {
			if t.text(a) == rd {
				t.fail(c, "the reader is handed to %s, which is not classified", t.text(c.Fun))
			}
		}
		return true
	})
	return out
}

func (t *c8sites) arrayLen(w c8where, ty ast.Expr, at ast.Node) int64 {
	for {
		switch x := ty.(type) {
		case *ast.StarExpr:
			ty = x.X
			continue
		case *ast.ArrayType:
			if lit, ok := x.Len.(*ast.BasicLit); ok {
				n, err := strconv.ParseInt(lit.Value, 0, 64)
				if err == nil {
					return n
				}
			}
		case *ast.Ident:
			if u, ok := w.p.types[x.Name]; ok {
				ty = u
				continue
			}
		}
		t.fail(at, "the length of %s is not a literal", t.text(ty))
	}
}

// an unconditional error return: return ..., errors.New(..) / fmt.Errorf(..)
func (t *c8sites) failOf(s ast.Stmt) string {
	rs, ok := s.(*ast.ReturnStmt)
	if !ok || len(rs.Results) == 0 {
		return ""
	}
	if c, ok := rs.Results[len(rs.Results)-1].(*ast.CallExpr); ok {
		if fn := t.text(c.Fun); fn == "errors.New" || fn == "fmt.Errorf" {
			return "DFail " + coqstr(t.text(c))
		}
	}
	return ""
}

func (t *c8sites) hasFail(n ast.Node) bool {
	found := false
	ast.Inspect(n, func(m ast.Node) bool {
		if s, ok := m.(ast.Stmt); ok && t.failOf(s) != "" {
			found = true
		}
		return true
	})
	return found
}

func (t *c8sites) reads(w c8where, rd string, l []ast.Stmt) []string {
	var out []string
	lastIdent := ""
	for _, s := range l {
		if !t.hasRead(rd, s) && !t.hasFail(s) {
			continue
		}
		prevIdent := lastIdent
		if id := t.readIdent(rd, s); id != "" {
			lastIdent = id
		}
		switch x := s.(type) {
		case *ast.ExprStmt, *ast.AssignStmt:
			out = append(out, t.readsOf(w, rd, s)...)
		case *ast.ReturnStmt:
			out = append(out, t.readsOf(w, rd, s)...)
			if f := t.failOf(s); f != "" {
				out = append(out, f)
			}
		case *ast.IfStmt:
			if x.Init != nil {
				out = append(out, t.readsOf(w, rd, x.Init)...)
			}
			if t.hasRead(rd, x.Cond) {
				t.fail(x, "a read inside a condition")
			}
			if t.text(x.Cond) == "err != nil" {
				// the error branch of the read before it: returns, reads nothing
				if t.hasRead(rd, x.Body) || x.Else != nil {
					t.fail(x, "reads in the error branch")
				}
				continue
			}
			var a, b []string
			a = t.reads(w, rd, x.Body.List)
			switch e := x.Else.(type) {
			case nil:
			case *ast.BlockStmt:
				b = t.reads(w, rd, e.List)
			case *ast.IfStmt:
				b = t.reads(w, rd, []ast.Stmt{e})
			}
			if len(a)+len(b) > 0 {
				t.choice++
				out = append(out, fmt.Sprintf("DChoice %d (DSeq [%s]) (DSeq [%s])", t.choice, strings.Join(a, "; "), strings.Join(b, "; ")))
			}
		case *ast.ForStmt:
			// for i := 0; i < int(x); i++ { reads }: x is the VarInt read last
			if x.Init == nil || x.Cond == nil || x.Post == nil || t.text(x.Init) != "i := 0" || t.text(x.Post) != "i++" {
				t.fail(x, "loop with reads inside that is not `for i := 0; i < int(x); i++`")
			}
			cond := t.text(x.Cond)
			if !strings.HasPrefix(cond, "i < int(") || !strings.HasSuffix(cond, ")") {
				t.fail(x, "loop condition %s", cond)
			}
			bound := cond[len("i < int(") : len(cond)-1]
			if len(out) == 0 || out[len(out)-1] != "DF TVarInt" || prevIdent != bound {
				t.fail(x, "the loop bound %s is not the VarInt read just before the loop", bound)
			}
			body := t.reads(w, rd, x.Body.List)
			out[len(out)-1] = "DLoop (DSeq [" + strings.Join(body, "; ") + "])"
		default:
			t.fail(s, "statement with a read, a panic or an error return inside: %s (%T)", t.text(s), s)
		}
	}
	return out
}

// the identifier whose ReadFrom is called by the (init of the) statement, if it is a plain identifier
func (t *c8sites) readIdent(rd string, s ast.Stmt) string {
	var n ast.Node
	switch x := s.(type) {
	case *ast.IfStmt:
		if x.Init == nil {
			return ""
		}
		n = x.Init
	case *ast.AssignStmt, *ast.ExprStmt, *ast.ReturnStmt:
		n = s
	default:
		return ""
	}
	name := ""
	ast.Inspect(n, func(m ast.Node) bool {
		if c, ok := m.(*ast.CallExpr); ok {
			if sel, ok := c.Fun.(*ast.SelectorExpr); ok && sel.Sel.Name == "ReadFrom" && len(c.Args) == 1 {
				if id, ok := sel.X.(*ast.Ident); ok {
					name = id.Name
				}
			}
		}
		return true
	})
	return name
}

var c8scanDirs = []string{"bot", "bot/basic", "bot/msg", "bot/playerlist", "bot/screen", "bot/world", "server", "server/auth"}
var c8methodDirs = []string{"chat/sign", "level/component", "yggdrasil/user", "bot", "bot/screen"}

// methods translated elsewhere (loops with their own skeletons and interpretation lemmas)
var c8methodSkip = map[string]bool{"bot.idleTagsDecoder": true}

func genC08sites(repo string, out *bytes.Buffer) {
	t := &c8sites{fset: token.NewFileSet(), repo: repo, pkgs: map[string]*c8pkg{}}
	type rowT struct{ name, text, desc string }
	var scans, meths []rowT
	for _, dir := range c8scanDirs {
		p := t.load(dir)
		for _, f := range p.files {
			fname := filepath.Base(t.fset.Position(f.Pos()).Filename)
			for _, d := range f.Decls {
				fd, ok := d.(*ast.FuncDecl)
				if !ok || fd.Body == nil {
					continue
				}
				k := 0
				ast.Inspect(fd.Body, func(n ast.Node) bool {
					c, ok := n.(*ast.CallExpr)
					if !ok {
						return true
					}
					sel, ok := c.Fun.(*ast.SelectorExpr)
					if !ok || sel.Sel.Name != "Scan" {
						return true
					}
					k++
					w := c8where{p: p, file: f, fn: fd, pos: c.Pos()}
					var ds []string
					for _, a := range c.Args {
						ds = append(ds, t.field(w, a))
					}
					scans = append(scans, rowT{fmt.Sprintf("%s/%s:%s#%d", dir, fname, fd.Name.Name, k), t.text(c), "DSeq [" + strings.Join(ds, "; ") + "]"})
					return true
				})
			}
		}
	}
	// packet handlers that decode p.Data by hand (r := bytes.NewReader(p.Data), then ReadFrom calls)
	for _, h := range [][2]string{{"bot/playerlist", "handlePlayerInfoUpdatePacket"}, {"bot/playerlist", "handlePlayerInfoRemovePacket"}} {
		p := t.load(h[0])
		var fd *ast.FuncDecl
		var file *ast.File
		for _, f := range p.files {
			for _, d := range f.Decls {
				if x, ok := d.(*ast.FuncDecl); ok && x.Name.Name == h[1] && x.Body != nil {
					fd, file = x, f
				}
			}
		}
		if fd == nil || len(fd.Body.List) == 0 || t.text(fd.Body.List[0]) != "r := bytes.NewReader(p.Data)" {
			panic(c8fail{fmt.Sprintf("%s: handler %s not found or does not start with r := bytes.NewReader(p.Data)", h[0], h[1])})
		}
		w := c8where{p: p, file: file, fn: fd}
		ds := t.reads(w, "r", fd.Body.List[1:])
		scans = append(scans, rowT{h[0] + "/" + filepath.Base(t.fset.Position(file.Pos()).Filename) + ":" + h[1], t.text(fd.Body), "DSeq [" + strings.Join(ds, "; ") + "]"})
	}
	for _, dir := range c8methodDirs {
		p := t.load(dir)
		var names []string
		for n := range p.reads {
			names = append(names, n)
		}
		sortStrings(names)
		for _, n := range names {
			if c8methodSkip[dir+"."+n] {
				continue
			}
			fd := p.reads[n]
			t.stack = []string{dir + "." + n}
			meths = append(meths, rowT{dir + "." + n, t.text(fd.Body), t.method(p, fd)})
			t.stack = nil
		}
	}
	emit := func(name string, rows []rowT) {
		fmt.Fprintf(out, "Definition %s : list row :=\n  [", name)
		for i, r := range rows {
			if i > 0 {
				out.WriteString(";\n   ")
			}
			fmt.Fprintf(out, "mkRow %s\n     %s\n     (%s)", coqstr(r.name), coqstr(r.text), r.desc)
		}
		out.WriteString("].\n\n")
	}
	out.WriteString("(* ---- phase 5: every Scan site of bot/... and server/..., every ReadFrom method of chat/sign,\n   level/component, yggdrasil/user, bot, bot/screen ---- *)\n")
	emit("c08_scan_sites", scans)
	emit("c08_readfrom_sites", meths)
}

func sortStrings(a []string) {
	for i := 1; i < len(a); i++ {
		for j := i; j > 0 && a[j] < a[j-1]; j-- {
			a[j], a[j-1] = a[j-1], a[j]
		}
	}
}

// ---------------------------------------------------------------- phase 7: allocation census
//
// genC08alloc lists, for every function of the directories below, every allocation whose size is an
// expression: make(T, n[, c]) (T not a map / chan without size), reflect.MakeSlice(t, n, c), x.Grow(n),
// and every append inside a loop whose trip count is an expression.  For each row:
//   - the ORIGIN of the size: OPeer when the size expression mentions a variable that was read from the
//     peer earlier in the function (x.ReadFrom(..) with x the receiver, &x or (*T)(&x) handed to a
//     ReadFrom / Scan call), or a variable assigned from such a variable; OParam when it mentions a
//     parameter of the function (and no peer variable); OLocal otherwise (constants, len / cap of a
//     value that exists);
//   - the BOUND: the test on the size variable that dominates the allocation, if any:
//       BConst: an `if v > K {return/...}` (K a constant expression), BAvail: the same against len(..) /
//       x.Len() / cap(..) (bytes or elements present), BCase: the allocation sits in a `case` clause of
//       a switch on the variable with literal labels, BMin: every peer variable of the size expression occurs under a min(..) with an operand that mentions no
//       peer variable (min(n, K); i + min(n-i, i): at most double what has been read),
//       BLocal: the same against an expression over values that were not read from the peer in this
//       function (fields of the receiver, e.g. 1<<l.bits),
//       BRead: (append rows) a ReadFrom / Scan call with an error return precedes the append inside the
//       loop body: one element per successful read, BLower: only a lower bound (v < 0) is tested,
//       BNone.
// AST only; shapes of make / for that cannot be classified are errors.

var c8allocDirs = []string{"level", "level/component", "registry", "chat/sign", "yggdrasil/user", "bot", "bot/basic", "bot/msg",
	"bot/playerlist", "bot/screen", "bot/world", "server", "server/auth", "server/command"}

type c8alloc struct {
	t     *c8sites
	fd    *ast.FuncDecl
	org   map[string]int // variable -> 0 local, 1 param, 2 peer
	src   map[string]string // variable -> the variable it was computed from (conversion, + and * with literals)
	rows  *[]c8arow
	site  string
	k     int
	outer []ast.Node // enclosing statements, outermost first
}

type c8arow struct{ site, kind, text, size, origin, bound, lower string }

func (a *c8alloc) idents(e ast.Node, f func(string)) {
	ast.Inspect(e, func(n ast.Node) bool {
		switch x := n.(type) {
		case *ast.SelectorExpr:
			// x.f: only the root identifier counts (a field of a peer-read struct is peer data)
			a.idents(x.X, f)
			return false
		case *ast.CallExpr:
			if id, ok := x.Fun.(*ast.Ident); ok && (id.Name == "len" || id.Name == "cap") {
				return false // the size of a value that exists
			}
			for _, arg := range x.Args {
				a.idents(arg, f)
			}
			if s, ok := x.Fun.(*ast.SelectorExpr); ok {
				a.idents(s.X, f)
			}
			return false
		case *ast.Ident:
			f(x.Name)
		}
		return true
	})
}

func (a *c8alloc) origin(e ast.Node) int {
	o := 0
	a.idents(e, func(n string) {
		if v, ok := a.org[n]; ok && v > o {
			o = v
		}
	})
	return o
}

// the variables a read call fills: the receiver of x.ReadFrom(..), every &x / (*T)(&x) among the
// arguments and inside composite literals of the receiver (pk.Tuple{&x, ...}.ReadFrom(r))
func (a *c8alloc) markReads(c *ast.CallExpr) {
	sel, ok := c.Fun.(*ast.SelectorExpr)
	if !ok {
		return
	}
	switch sel.Sel.Name {
	case "ReadFrom", "Scan", "ReadTagsFrom", "ReadField", "Unmarshal", "Decode":
	default:
		return
	}
	mark := func(e ast.Expr) {
		for {
			switch x := e.(type) {
			case *ast.ParenExpr:
				e = x.X
				continue
			case *ast.SelectorExpr:
				e = x.X
				continue
			case *ast.IndexExpr:
				e = x.X
				continue
			case *ast.StarExpr:
				e = x.X
				continue
			case *ast.Ident:
				if x.Name != "_" {
					a.org[x.Name] = 2
				}
			}
			return
		}
	}
	if sel.Sel.Name == "ReadFrom" {
		if _, isLit := sel.X.(*ast.CompositeLit); !isLit {
			mark(sel.X)
		}
	}
	var nodes []ast.Node
	nodes = append(nodes, sel.X)
	for _, arg := range c.Args {
		nodes = append(nodes, arg)
	}
	for _, n := range nodes {
		ast.Inspect(n, func(n ast.Node) bool {
			if u, ok := n.(*ast.UnaryExpr); ok && u.Op == token.AND {
				mark(u.X)
			}
			return true
		})
	}
}

func c8terminates(b *ast.BlockStmt) bool {
	if b == nil || len(b.List) == 0 {
		return false
	}
	switch x := b.List[len(b.List)-1].(type) {
	case *ast.ReturnStmt:
		return true
	case *ast.BranchStmt:
		return x.Tok == token.BREAK || x.Tok == token.CONTINUE
	case *ast.ExprStmt:
		if c, ok := x.X.(*ast.CallExpr); ok {
			if id, ok := c.Fun.(*ast.Ident); ok && id.Name == "panic" {
				return true
			}
		}
	}
	return false
}

func c8strip(e ast.Expr) ast.Expr {
	for {
		switch x := e.(type) {
		case *ast.ParenExpr:
			e = x.X
		case *ast.CallExpr: // conversions int(v), int64(v), uint(v)
			if id, ok := x.Fun.(*ast.Ident); ok && len(x.Args) == 1 {
				switch id.Name {
				case "int", "int32", "int64", "uint", "uint32", "uint64":
					e = x.Args[0]
					continue
				}
			}
			return e
		default:
			return e
		}
	}
}

func (a *c8alloc) isConstExpr(e ast.Expr) bool {
	ok := true
	ast.Inspect(e, func(n ast.Node) bool {
		switch x := n.(type) {
		case *ast.Ident:
			if _, local := a.org[x.Name]; local {
				ok = false
			}
		case *ast.CallExpr:
			ok = false
		}
		return ok
	})
	return ok
}

func (a *c8alloc) isAvail(e ast.Expr) bool {
	s := a.t.text(e)
	return strings.Contains(s, "len(") || strings.Contains(s, ".Len()") || strings.Contains(s, "cap(") || strings.Contains(s, "Remaining")
}

// atomic comparisons known to hold: the conjuncts of c when it holds, the negated disjuncts when it does not
type c8fact struct {
	v     string // variable on the left (conversions stripped)
	op    token.Token
	other ast.Expr
	text  string
}

func (a *c8alloc) facts(c ast.Expr, holds bool, src ast.Expr, out *[]c8fact) {
	switch x := c.(type) {
	case *ast.ParenExpr:
		a.facts(x.X, holds, src, out)
		return
	case *ast.UnaryExpr:
		if x.Op == token.NOT {
			a.facts(x.X, !holds, src, out)
		}
		return
	case *ast.BinaryExpr:
		if (x.Op == token.LAND && holds) || (x.Op == token.LOR && !holds) {
			a.facts(x.X, holds, src, out)
			a.facts(x.Y, holds, src, out)
			return
		}
		op := x.Op
		if !holds {
			switch op {
			case token.LSS:
				op = token.GEQ
			case token.LEQ:
				op = token.GTR
			case token.GTR:
				op = token.LEQ
			case token.GEQ:
				op = token.LSS
			default:
				return
			}
		}
		flip := map[token.Token]token.Token{token.LSS: token.GTR, token.LEQ: token.GEQ, token.GTR: token.LSS, token.GEQ: token.LEQ}
		if _, cmp := flip[op]; !cmp {
			return
		}
		txt := a.t.text(src)
		if !holds {
			txt = "not (" + txt + ")"
		}
		if id, ok := c8strip(x.X).(*ast.Ident); ok {
			*out = append(*out, c8fact{id.Name, op, x.Y, txt})
		}
		if id, ok := c8strip(x.Y).(*ast.Ident); ok {
			*out = append(*out, c8fact{id.Name, flip[op], x.X, txt})
		}
	}
}

// the comparisons that hold at position pos: negated conditions of the terminating ifs that precede it in an
// enclosing block, conditions of the enclosing ifs (negated in the else branch)
func (a *c8alloc) factsAt(pos token.Pos) []c8fact {
	var fs []c8fact
	for _, o := range a.outer {
		var list []ast.Stmt
		switch x := o.(type) {
		case *ast.BlockStmt:
			list = x.List
		case *ast.CaseClause:
			list = x.Body
		case *ast.IfStmt:
			if x.Body.Pos() <= pos && pos < x.Body.End() {
				a.facts(x.Cond, true, x.Cond, &fs)
			} else if x.Else != nil && x.Else.Pos() <= pos && pos < x.Else.End() {
				a.facts(x.Cond, false, x.Cond, &fs)
			}
			continue
		default:
			continue
		}
		for _, s := range list {
			if s.End() > pos {
				break
			}
			if is, ok := s.(*ast.IfStmt); ok && is.Else == nil && is.Init == nil && c8terminates(is.Body) {
				a.facts(is.Cond, false, is.Cond, &fs)
			}
		}
	}
	return fs
}

// v and the variables it was computed from by conversions, + and * with constants
func (a *c8alloc) roots(v string) []string {
	r := []string{v}
	for i := 0; i < 8; i++ {
		u, ok := a.src[r[len(r)-1]]
		if !ok {
			break
		}
		r = append(r, u)
	}
	return r
}

func (a *c8alloc) monotoneOf(e ast.Expr) string {
	switch x := c8strip(e).(type) {
	case *ast.Ident:
		if _, ok := a.org[x.Name]; ok {
			return x.Name
		}
	case *ast.BinaryExpr:
		if x.Op == token.ADD || x.Op == token.MUL {
			if _, lit := x.Y.(*ast.BasicLit); lit {
				return a.monotoneOf(x.X)
			}
			if _, lit := x.X.(*ast.BasicLit); lit {
				return a.monotoneOf(x.Y)
			}
		}
	}
	return ""
}

// every peer variable of e occurs under a min(..) one operand of which mentions no peer variable
// (sums and products of such expressions included): min(int(Len), K), i + min(int(Len)-i, i)
func (a *c8alloc) minBounded(e ast.Expr) bool {
	if a.origin(e) < 2 {
		return true
	}
	switch x := c8strip(e).(type) {
	case *ast.BinaryExpr:
		if x.Op == token.ADD || x.Op == token.MUL {
			return a.minBounded(x.X) && a.minBounded(x.Y)
		}
	case *ast.CallExpr:
		if id, ok := x.Fun.(*ast.Ident); ok && id.Name == "min" {
			for _, arg := range x.Args {
				if a.minBounded(arg) {
					return true
				}
			}
		}
	}
	return false
}

// (upper bound, lower bound text) on the peer variables of size expression e at position pos
func (a *c8alloc) boundOf(e ast.Expr, pos token.Pos) (string, string) {
	var vars []string
	a.idents(e, func(n string) {
		if a.org[n] >= 1 {
			vars = append(vars, n)
		}
	})
	fs := a.factsAt(pos)
	upper, lower := "", ""
	for _, v := range vars {
		for _, r := range a.roots(v) {
			for _, f := range fs {
				if f.v != r {
					continue
				}
				switch f.op {
				case token.LSS, token.LEQ:
					if upper == "" && a.isAvail(f.other) {
						upper = "BAvail " + coqstr(f.text)
					} else if upper == "" && a.isConstExpr(f.other) {
						upper = "BConst " + coqstr(f.text)
					} else if upper == "" && a.origin(f.other) == 0 {
						upper = "BLocal " + coqstr(f.text)
					}
				case token.GTR, token.GEQ:
					if lower == "" && a.isConstExpr(f.other) {
						lower = f.text
					}
				}
			}
			// the allocation sits in a clause of a switch on r with constant labels
			for _, o := range a.outer {
				x, ok := o.(*ast.SwitchStmt)
				if !ok || x.Tag == nil {
					continue
				}
				if id, ok := c8strip(x.Tag).(*ast.Ident); !ok || id.Name != r {
					continue
				}
				for _, cc := range x.Body.List {
					cl := cc.(*ast.CaseClause)
					if cl.Pos() <= pos && pos < cl.End() && cl.List != nil {
						lit := true
						var ls []string
						for _, l := range cl.List {
							if !a.isConstExpr(l) {
								lit = false
							}
							ls = append(ls, a.t.text(l))
						}
						if lit && upper == "" {
							t := "switch " + a.t.text(x.Tag) + " case " + strings.Join(ls, ", ")
							upper, lower = "BCase "+coqstr(t), t
						}
					}
				}
			}
		}
	}
	if upper == "" && a.minBounded(e) {
		upper = "BMin " + coqstr(a.t.text(e))
	}
	if len(vars) > 1 && upper != "" {
		// a bound on one of several peer variables does not bound an expression over all of them
		a.t.fail(e, "allocation size %s mentions several peer variables; cannot classify its bound", a.t.text(e))
	}
	if upper == "" {
		upper = "BNone"
	}
	return upper, lower
}

func (a *c8alloc) row(kind string, at ast.Node, size ast.Expr, bound string) {
	a.k++
	o := a.origin(size)
	lower := ""
	if bound == "" {
		bound = "BNone"
		if o >= 1 {
			bound, lower = a.boundOf(size, at.Pos())
		}
	}
	*a.rows = append(*a.rows, c8arow{fmt.Sprintf("%s#%d", a.site, a.k), kind, a.t.text(at), a.t.text(size), []string{"OLocal", "OParam", "OPeer"}[o], bound, lower})
}

// loops: trip count expression of a for / range statement, nil when it is not an expression over variables
func (a *c8alloc) tripOf(n ast.Node) ast.Expr {
	switch x := n.(type) {
	case *ast.ForStmt:
		if b, ok := x.Cond.(*ast.BinaryExpr); ok && (b.Op == token.LSS || b.Op == token.LEQ) {
			return b.Y
		}
		if b, ok := x.Cond.(*ast.BinaryExpr); ok && (b.Op == token.GTR || b.Op == token.GEQ) {
			return b.X
		}
	case *ast.RangeStmt:
		return x.X
	}
	return nil
}

func (a *c8alloc) walk(n ast.Node) {
	if n == nil {
		return
	}
	switch x := n.(type) {
	case *ast.FuncLit:
		// a closure: same variables
		a.walk(x.Body)
		return
	case *ast.AssignStmt:
		for _, r := range x.Rhs {
			a.walk(r)
		}
		// taint: v := f(peer)
		o := 0
		for _, r := range x.Rhs {
			if v := a.origin(r); v > o {
				o = v
			}
		}
		for _, l := range x.Lhs {
			if id, ok := l.(*ast.Ident); ok && id.Name != "_" {
				if cur, ok := a.org[id.Name]; x.Tok == token.DEFINE || !ok || o > cur {
					a.org[id.Name] = o
				}
				delete(a.src, id.Name)
				if len(x.Lhs) == len(x.Rhs) && (x.Tok == token.DEFINE || x.Tok == token.ASSIGN) {
					for i := range x.Lhs {
						if x.Lhs[i] == l {
							if u := a.monotoneOf(x.Rhs[i]); u != "" && u != id.Name {
								a.src[id.Name] = u
							}
						}
					}
				}
			}
		}
		return
	case *ast.DeclStmt:
		if g, ok := x.Decl.(*ast.GenDecl); ok && g.Tok == token.VAR {
			for _, sp := range g.Specs {
				vs := sp.(*ast.ValueSpec)
				o := 0
				for _, v := range vs.Values {
					a.walk(v)
					if w := a.origin(v); w > o {
						o = w
					}
				}
				for _, nm := range vs.Names {
					a.org[nm.Name] = o
				}
			}
		}
		return
	case *ast.CallExpr:
		for _, arg := range x.Args {
			a.walk(arg)
		}
		if s, ok := x.Fun.(*ast.SelectorExpr); ok {
			a.walk(s.X)
		} else if fl, ok := x.Fun.(*ast.FuncLit); ok {
			a.walk(fl)
		}
		a.markReads(x)
		switch f := x.Fun.(type) {
		case *ast.Ident:
			if f.Name == "make" {
				switch x.Args[0].(type) {
				case *ast.MapType, *ast.ChanType:
					if len(x.Args) < 2 {
						return
					}
				}
				if len(x.Args) < 2 {
					return
				}
				size := x.Args[len(x.Args)-1]
				if len(x.Args) == 3 && a.origin(x.Args[1]) > a.origin(x.Args[2]) {
					size = x.Args[1]
				}
				if _, lit := size.(*ast.BasicLit); lit {
					return
				}
				a.row("make", x, size, "")
			}
			if f.Name == "append" {
				// innermost enclosing loop
				for i := len(a.outer) - 1; i >= 0; i-- {
					trip := a.tripOf(a.outer[i])
					if trip == nil {
						if _, isFor := a.outer[i].(*ast.ForStmt); isFor {
							a.row("append", x, &ast.Ident{Name: "unbounded_loop", NamePos: x.Pos()}, "BNone")
							break
						}
						continue
					}
					bound := ""
					if a.origin(trip) == 2 {
						bound = "BNone"
						var body *ast.BlockStmt
						switch l := a.outer[i].(type) {
						case *ast.ForStmt:
							body = l.Body
						case *ast.RangeStmt:
							body = l.Body
						}
						ast.Inspect(body, func(n ast.Node) bool {
							if c, ok := n.(*ast.CallExpr); ok && c.End() <= x.Pos() {
								if s, ok := c.Fun.(*ast.SelectorExpr); ok && (s.Sel.Name == "ReadFrom" || s.Sel.Name == "Scan") {
									bound = "BRead " + coqstr(a.t.text(c))
								}
							}
							return true
						})
					}
					a.row("append", x, trip, bound)
					break
				}
			}
		case *ast.SelectorExpr:
			if id, ok := f.X.(*ast.Ident); ok && id.Name == "reflect" && f.Sel.Name == "MakeSlice" && len(x.Args) == 3 {
				a.row("reflect.MakeSlice", x, x.Args[2], "")
			}
			if f.Sel.Name == "Grow" && len(x.Args) == 1 {
				if _, lit := x.Args[0].(*ast.BasicLit); !lit {
					a.row("Grow", x, x.Args[0], "")
				}
			}
		}
		return
	case *ast.BlockStmt, *ast.CaseClause, *ast.SwitchStmt, *ast.ForStmt, *ast.RangeStmt, *ast.IfStmt:
		a.outer = append(a.outer, n)
		defer func() { a.outer = a.outer[:len(a.outer)-1] }()
		if r, ok := n.(*ast.RangeStmt); ok {
			o := a.origin(r.X)
			for _, e := range []ast.Expr{r.Key, r.Value} {
				if id, ok := e.(*ast.Ident); ok && id.Name != "_" {
					a.org[id.Name] = o
				}
			}
		}
	}
	// children in source order
	var kids []ast.Node
	ast.Inspect(n, func(c ast.Node) bool {
		if c == n {
			return true
		}
		if c != nil {
			kids = append(kids, c)
		}
		return false
	})
	for _, c := range kids {
		a.walk(c)
	}
}

func genC08alloc(repo string, out *bytes.Buffer) {
	t := &c8sites{fset: token.NewFileSet(), repo: repo, pkgs: map[string]*c8pkg{}}
	var rows []c8arow
	for _, dir := range c8allocDirs {
		p := t.load(dir)
		for _, f := range p.files {
			fname := filepath.Base(t.fset.Position(f.Pos()).Filename)
			if strings.HasPrefix(fname, "verif_export") {
				continue
			}
			for _, d := range f.Decls {
				fd, ok := d.(*ast.FuncDecl)
				if !ok || fd.Body == nil {
					continue
				}
				name := fd.Name.Name
				if fd.Recv != nil {
					name = c8recvName(fd) + "." + name
				}
				a := &c8alloc{t: t, fd: fd, org: map[string]int{}, src: map[string]string{}, rows: &rows, site: dir + "/" + fname + ":" + name}
				if fd.Recv != nil {
					for _, fl := range fd.Recv.List {
						for _, nm := range fl.Names {
							a.org[nm.Name] = 0
						}
					}
				}
				for _, fl := range fd.Type.Params.List {
					for _, nm := range fl.Names {
						a.org[nm.Name] = 1
					}
				}
				if fd.Type.Results != nil {
					for _, fl := range fd.Type.Results.List {
						for _, nm := range fl.Names {
							a.org[nm.Name] = 0
						}
					}
				}
				a.walk(fd.Body)
			}
		}
	}
	out.WriteString("(* ---- phase 7: allocations whose size is an expression (make, reflect.MakeSlice, Grow, append in a\n   loop), origin of the size, dominating bound test ---- *)\n")
	out.WriteString("Definition c08_alloc_sites : list arow :=\n  [")
	for i, r := range rows {
		if i > 0 {
			out.WriteString(";\n   ")
		}
		fmt.Fprintf(out, "mkARow %s %s\n     %s\n     %s %s (%s) %s", coqstr(r.site), coqstr(r.kind), coqstr(r.text), coqstr(r.size), r.origin, r.bound, coqstr(r.lower))
	}
	out.WriteString("].\n\n")
}
