package main

// c09.go: the I/O idiom table of property C09 (stream reads are fragmentation-invariant; I/O failures are never
// swallowed), regenerated into coq/Gen/C09gen.v on every run.
//
// The translators of C06 / C07 / C16 / C03 turn the readers into Base.Dec terms whose read effects are ReadFull and
// ReadByte only; they do so by recognising a FEW Go idioms (io.ReadFull, io.CopyN, binary.Read, readByte(r),
// x.ReadByte()) and they fail on the ones they do not know.  Two things are therefore invisible in the generated
// terms: (a) WHICH idiom a ReadFull / ReadByte effect came from (io.CopyN, binary.Read and io.ReadFull all become
// ReadFull; the helper readByte and every ReadByte method become ReadByte whatever their bodies do), and (b)
// everything in functions those translators render as text skeletons or do not visit at all.  This file adds the
// missing distinction for the anchor files of C09: for EVERY function in them it lists every call that touches an
// io.Reader / io.Writer - package functions of io, encoding/binary, bufio, io/ioutil, bytes, compress/*, fmt's
// Fprint/Fscan family, and the methods Read, ReadByte, ReadFrom, ReadString, ..., Write, WriteByte, WriteString,
// WriteTo, ... on any receiver - with
//
//	(function, idiom, stream, other, handling)
//
// stream: the reader / writer the call works on, as source text - the first argument of a package function (the
// SOURCE for io.CopyN / io.Copy, whose destination goes to `other`), the argument of x.WriteTo(w) / x.ReadFrom(r)
// (whose receiver goes to `other`), the receiver of every other method; handling: what happens to the call's results at its statement -
//
//	err:<name>   the last result (the error) is bound to the named variable
//	err:_        the last result is assigned to the blank identifier
//	dropped      the call is an expression statement: all results discarded
//	returned     the call is an operand of a return statement
//	deferred     the call is deferred
//	nested       the call is a sub-expression of something else (its value is used)
//
// Calls of the anchor files' own helper functions that take the stream as a parameter (readByte(r), readBytes(r, n),
// writeTag(w, ...), writeInt32(w, n), compressPacket(buff, ...)) are listed as idiom "call:<name>" with the stream
// argument and the same handling field, so that a delegation stays visible at the caller.
//
// Gen/C09gen.v: c09_io_calls (compared with the recorded table of Proofs/C09_idioms.v and judged by the policy
// predicates there: no bare Read outside the two wrappers, no ReadAtLeast / LimitReader / io.Copy / bufio, every
// Write on a destination writer has its error bound) and c09_io_sites (the same entries with file:line, for the
// reader of a broken obligation; NOT compared, so that moving code does not break anything).

import (
	"bytes"
	"fmt"
	"go/ast"
	"go/parser"
	"go/printer"
	"go/token"
	"os"
	"path/filepath"
	"strings"
)

// the anchor files of C09 (properties.jsonl) plus the files the anchored operations delegate to
var c09Files = []string{
	"net/packet/packet.go", "net/packet/types.go", "net/packet/util.go",
	"nbt/nbt.go", "nbt/decode.go", "nbt/encode.go", "nbt/rawmsg.go", "nbt/snbt.go",
	"nbt/dynbt/decode.go", "nbt/dynbt/encode.go",
	"net/rcon.go", "level/bitstorage.go",
}

var c09PkgFuncs = map[string]map[string]bool{
	"io": {"ReadFull": true, "ReadAtLeast": true, "ReadAll": true, "CopyN": true, "Copy": true, "CopyBuffer": true,
		"LimitReader": true, "TeeReader": true, "MultiReader": true, "MultiWriter": true, "NewSectionReader": true,
		"WriteString": true, "Pipe": true, "NopCloser": true},
	"binary": {"Read": true, "Write": true, "ReadUvarint": true, "ReadVarint": true},
	"bytes":  {"NewReader": true, "NewBuffer": true, "NewBufferString": true},
	"zlib":   {"NewReader": true, "NewWriter": true, "NewReaderDict": true, "NewWriterLevel": true},
	"gzip":   {"NewReader": true, "NewWriter": true, "NewWriterLevel": true},
	"flate":  {"NewReader": true, "NewWriter": true},
	"fmt":    {"Fprint": true, "Fprintf": true, "Fprintln": true, "Fscan": true, "Fscanf": true, "Fscanln": true},
}

// every function of these packages is an idiom (a wrapper changes what a short read means)
var c09WholePkgs = map[string]bool{"bufio": true, "ioutil": true, "iotest": true}

var c09Methods = map[string]bool{
	"Read": true, "ReadByte": true, "ReadFrom": true, "ReadString": true, "ReadBytes": true, "ReadRune": true,
	"ReadLine": true, "ReadAt": true, "Peek": true, "UnreadByte": true, "Discard": true,
	"Write": true, "WriteByte": true, "WriteString": true, "WriteTo": true, "WriteRune": true, "WriteAt": true,
	"Flush": true, "Close": true,
}

type c09Entry struct {
	fn, idiom, stream, other, handling, site string
}

func c09Text(fset *token.FileSet, n ast.Node) string {
	var b bytes.Buffer
	printer.Fprint(&b, fset, n)
	s := strings.Join(strings.Fields(b.String()), " ")
	if len(s) > 60 {
		s = s[:60] + "..."
	}
	return s
}

func c09q(s string) string { return "\"" + strings.ReplaceAll(s, "\"", "\"\"") + "\"" }

// c09StreamTypes: a package-level function with a parameter of one of these types is a HELPER the stream is handed
// to; its calls are listed as idiom "call:<name>" (the helper's own body is in the table under its own name)
var c09StreamTypes = map[string]bool{"io.Reader": true, "io.Writer": true, "io.ByteReader": true, "DecoderReader": true, "nbt.DecoderReader": true}

func genC09(repo string) (string, error) {
	var all []c09Entry
	// pass 1: the helpers of every anchor directory
	helpers := map[string]map[string]bool{}
	for _, rel := range c09Files {
		fset := token.NewFileSet()
		f, err := parser.ParseFile(fset, filepath.Join(repo, rel), nil, parser.SkipObjectResolution)
		if err != nil {
			return "", err
		}
		dir := rel[:strings.LastIndex(rel, "/")]
		if helpers[dir] == nil {
			helpers[dir] = map[string]bool{}
		}
		for _, d := range f.Decls {
			fd, ok := d.(*ast.FuncDecl)
			if !ok || fd.Recv != nil || fd.Type.Params == nil {
				continue
			}
			for _, p := range fd.Type.Params.List {
				if c09StreamTypes[c09Text(fset, p.Type)] {
					helpers[dir][fd.Name.Name] = true
				}
			}
		}
	}
	for _, rel := range c09Files {
		fset := token.NewFileSet()
		f, err := parser.ParseFile(fset, filepath.Join(repo, rel), nil, parser.SkipObjectResolution)
		if err != nil {
			return "", err
		}
		dir := rel[:strings.LastIndex(rel, "/")]
		for _, d := range f.Decls {
			fd, ok := d.(*ast.FuncDecl)
			if !ok || fd.Body == nil {
				continue
			}
			name := fd.Name.Name
			if fd.Recv != nil && len(fd.Recv.List) == 1 {
				t := fd.Recv.List[0].Type
				if st, ok := t.(*ast.StarExpr); ok {
					t = st.X
				}
				if ix, ok := t.(*ast.IndexExpr); ok {
					t = ix.X
				}
				if ix, ok := t.(*ast.IndexListExpr); ok {
					t = ix.X
				}
				if id, ok := t.(*ast.Ident); ok {
					name = id.Name + "." + name
				}
			}
			name = rel[:strings.LastIndex(rel, "/")] + ":" + name
			// how each call's results are consumed at its statement
			handling := map[*ast.CallExpr]string{}
			ast.Inspect(fd.Body, func(n ast.Node) bool {
				switch s := n.(type) {
				case *ast.AssignStmt:
					if len(s.Rhs) == 1 {
						if c, ok := s.Rhs[0].(*ast.CallExpr); ok {
							last := c09Text(fset, s.Lhs[len(s.Lhs)-1])
							handling[c] = "err:" + last
						}
					}
				case *ast.ExprStmt:
					if c, ok := s.X.(*ast.CallExpr); ok {
						handling[c] = "dropped"
					}
				case *ast.ReturnStmt:
					for _, r := range s.Results {
						if c, ok := r.(*ast.CallExpr); ok {
							handling[c] = "returned"
						}
					}
				case *ast.DeferStmt:
					handling[s.Call] = "deferred"
				case *ast.GoStmt:
					handling[s.Call] = "go"
				case *ast.ValueSpec:
					if len(s.Values) == 1 {
						if c, ok := s.Values[0].(*ast.CallExpr); ok {
							handling[c] = "err:" + s.Names[len(s.Names)-1].Name
						}
					}
				}
				return true
			})
			ast.Inspect(fd.Body, func(n ast.Node) bool {
				c, ok := n.(*ast.CallExpr)
				if !ok {
					return true
				}
				if id, ok := c.Fun.(*ast.Ident); ok && helpers[dir][id.Name] && len(c.Args) > 0 {
					h := handling[c]
					if h == "" {
						h = "nested"
					}
					p := fset.Position(c.Pos())
					all = append(all, c09Entry{name, "call:" + id.Name, c09Text(fset, c.Args[0]), "", h, fmt.Sprintf("%s:%d", rel, p.Line)})
					return true
				}
				sel, ok := c.Fun.(*ast.SelectorExpr)
				if !ok {
					return true
				}
				idiom, stream, other := "", "", ""
				if x, ok := sel.X.(*ast.Ident); ok && (c09WholePkgs[x.Name] || c09PkgFuncs[x.Name][sel.Sel.Name]) {
					idiom = x.Name + "." + sel.Sel.Name
					if len(c.Args) > 0 {
						stream = c09Text(fset, c.Args[0])
						if (idiom == "io.CopyN" || idiom == "io.Copy" || idiom == "io.CopyBuffer") && len(c.Args) > 1 {
							stream, other = c09Text(fset, c.Args[1]), c09Text(fset, c.Args[0])
						}
					}
				} else if c09Methods[sel.Sel.Name] {
					if x, ok := sel.X.(*ast.Ident); ok && (x.Name == "binary" || x.Name == "io" || x.Name == "fmt") {
						return true
					}
					idiom = "." + sel.Sel.Name
					stream = c09Text(fset, sel.X)
					if (sel.Sel.Name == "WriteTo" || sel.Sel.Name == "ReadFrom") && len(c.Args) == 1 {
						stream, other = c09Text(fset, c.Args[0]), stream
					}
				}
				if idiom == "" {
					return true
				}
				h := handling[c]
				if h == "" {
					h = "nested"
				}
				p := fset.Position(c.Pos())
				all = append(all, c09Entry{name, idiom, stream, other, h, fmt.Sprintf("%s:%d", rel, p.Line)})
				return true
			})
		}
	}
	var out bytes.Buffer
	out.WriteString("(* GENERATED by tools/gotrans (c09.go) from the anchor files of C09 - do not edit *)\n")
	out.WriteString("From Coq Require Import List String.\nImport ListNotations.\nLocal Open Scope string_scope.\n\n")
	out.WriteString("(* (function, idiom, stream, other operand, handling of the results): every call that touches an io.Reader / io.Writer *)\n")
	out.WriteString("Definition c09_io_calls : list (string * string * string * string * string) := [\n")
	for i, e := range all {
		sep := ";"
		if i == len(all)-1 {
			sep = ""
		}
		fmt.Fprintf(&out, "  (%s, %s, %s, %s, %s)%s\n", c09q(e.fn), c09q(e.idiom), c09q(e.stream), c09q(e.other), c09q(e.handling), sep)
	}
	out.WriteString("].\n\n(* where they are (not compared with anything) *)\n")
	out.WriteString("Definition c09_io_sites : list (string * string * string) := [\n")
	for i, e := range all {
		sep := ";"
		if i == len(all)-1 {
			sep = ""
		}
		fmt.Fprintf(&out, "  (%s, %s, %s)%s\n", c09q(e.fn), c09q(e.idiom), c09q(e.site), sep)
	}
	out.WriteString("].\n")
	return out.String(), nil
}

func emitC09(repo, outdir string) {
	s, err := genC09(repo)
	if err == nil {
		err = writeIfChanged(filepath.Join(outdir, "C09gen.v"), s)
	}
	if err != nil {
		fmt.Fprintln(os.Stderr, "gotrans: c09:", err)
		os.Exit(1)
	}
}
