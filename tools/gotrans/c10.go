package main

// c10.go: translation of net/CFB8/cfb8.go (property C10) into coq/Gen/C10gen.v:
//
//   - XORKeyStream and xorKeyStream: each body becomes a list of statements of the type `cstmt` of
//     coq/Model/C10_syntax.v, in source order.  Every statement must match one of the shapes of that
//     type EXACTLY (if / return / panic, the call of xorKeyStream, slice (re)assignments with their
//     bounds, the bounds-check hints, the classic for loop, the range loops in both forms, Encrypt,
//     subtle.XORBytes, copy, `val ^= ...`, indexed stores); any other statement or expression makes
//     gotrans fail with file:line, which the check reports as a broken correspondence;
//   - every index / bound / length expression and every condition of these bodies is translated
//     funcs.go-style into a NAMED Gallina definition over Z (`c10_<function>_<role>`): constants folded by
//     go/types, an explicit wrap_s 64 after every + - * << on int and wrap_u 64 on uintptr.  Conditions
//     are option-valued: `uintptr(unsafe.Pointer(&s[e]))` is the bounds-checked o_addr, && and ||
//     short-circuit through o_and / o_or (Model/C10_syntax.v).  The statement carries the definition
//     applied to the variables it mentions (fun v => c10_f_x (v (VLen Ssrc)) (v Vi)) plus the rendered
//     source text;
//   - newCFB8 / NewCFB8Encrypt / NewCFB8Decrypt and the struct CFB8: rendered statement texts
//     (cfb8_* : list string) and the length expression of the make as a named definition.
//
// go/parser + go/types with the stub importer of main.go.  The int-typed things (len, the locals, the
// fields blockSize and ivPos) are checked to be `int` by go/types; a change of their type is a failure.

import (
	"bytes"
	"fmt"
	"go/ast"
	"go/constant"
	"go/printer"
	"go/token"
	"go/types"
	"os"
	"path/filepath"
	"strconv"
	"strings"
)

type c10ctx struct {
	fset *token.FileSet
	info *types.Info
	fn   string
	defs bytes.Buffer
	used map[string]int
	// per expression: free variables in order of first use (constructor text, parameter name)
	free    [][2]string
	freeSet map[string]bool
}

type c10err struct{ msg string }

func (c *c10ctx) fail(n ast.Node, f string, a ...any) {
	panic(c10err{fmt.Sprintf("%s: %s: %s", c.fset.Position(n.Pos()), c.fn, fmt.Sprintf(f, a...))})
}

// txt: the source text of a node, white space collapsed
func (c *c10ctx) txt(n ast.Node) string {
	var b bytes.Buffer
	if err := printer.Fprint(&b, c.fset, n); err != nil {
		c.fail(n, "cannot print: %v", err)
	}
	return strings.Join(strings.Fields(b.String()), " ")
}

var c10svars = map[string][2]string{ // Go text -> (constructor, suffix of parameter names)
	"dst": {"Sdst", "Dst"}, "src": {"Ssrc", "Src"}, "ciphertext": {"Sct", "Ct"}, "iv": {"Siv", "Iv"}, "cf.iv": {"Scfiv", "CfIv"},
}
var c10ivars = map[string][2]string{ // Go text -> (evar constructor, parameter name)
	"i": {"Vi", "i"}, "posPlusBlockSize": {"Vppb", "posPlusBlockSize"}, "tempPos": {"Vtp", "tempPos"},
	"cf.ivPos": {"VivPos", "ivPos"}, "cf.blockSize": {"Vbs", "blockSize"},
}
var c10lhs = map[string]string{"i": "Li", "posPlusBlockSize": "Lppb", "tempPos": "Ltp", "cf.ivPos": "LivPos"}

func (c *c10ctx) use(cons, param string) string {
	if !c.freeSet[cons] {
		c.freeSet[cons] = true
		c.free = append(c.free, [2]string{cons, param})
	}
	return param
}

func (c *c10ctx) svar(e ast.Expr) [2]string {
	sv, ok := c10svars[c.txt(e)]
	if !ok {
		c.fail(e, "%s is not a slice variable of Model/C10_syntax.v", c.txt(e))
	}
	return sv
}

// isInt: go/types says e has type int
func (c *c10ctx) requireInt(e ast.Expr) {
	tv, ok := c.info.Types[e]
	if ok && tv.Type != nil {
		if b, ok := tv.Type.Underlying().(*types.Basic); ok && b.Kind() == types.Int {
			return
		}
	}
	c.fail(e, "%s is not of type int", c.txt(e))
}

func c10isCall(e ast.Expr, name string, nargs int) (*ast.CallExpr, bool) {
	call, ok := e.(*ast.CallExpr)
	if !ok || call.Ellipsis != token.NoPos || len(call.Args) != nargs {
		return nil, false
	}
	var b bytes.Buffer
	printer.Fprint(&b, token.NewFileSet(), call.Fun)
	return call, b.String() == name
}

// intExpr: a total expression of Go type int over the variables of Model/C10_syntax.v
func (c *c10ctx) intExpr(e ast.Expr) string {
	if tv, ok := c.info.Types[e]; ok && tv.Value != nil {
		if tv.Value.Kind() != constant.Int {
			c.fail(e, "constant of unsupported kind")
		}
		return zlit(tv.Value)
	}
	switch x := e.(type) {
	case *ast.ParenExpr:
		return c.intExpr(x.X)
	case *ast.Ident, *ast.SelectorExpr:
		iv, ok := c10ivars[c.txt(e)]
		if !ok {
			c.fail(e, "%s is not an integer variable of Model/C10_syntax.v", c.txt(e))
		}
		c.requireInt(e)
		return c.use(iv[0], iv[1])
	case *ast.CallExpr:
		if call, ok := c10isCall(e, "len", 1); ok {
			sv := c.svar(call.Args[0])
			return c.use("(VLen "+sv[0]+")", "len"+sv[1])
		}
		c.fail(e, "call %s is not translated", c.txt(e))
	case *ast.BinaryExpr:
		a, b := c.intExpr(x.X), c.intExpr(x.Y)
		switch x.Op {
		case token.ADD:
			return "(wrap_s 64 (" + a + " + " + b + "))"
		case token.SUB:
			return "(wrap_s 64 (" + a + " - " + b + "))"
		case token.MUL:
			return "(wrap_s 64 (" + a + " * " + b + "))"
		case token.SHL:
			tv, ok := c.info.Types[x.Y]
			if !ok || tv.Value == nil {
				c.fail(e, "shift by a non-constant count")
			}
			return "(wrap_s 64 (Z.shiftl " + a + " " + b + "))"
		case token.AND:
			return "(Z.land " + a + " " + b + ")"
		}
		c.fail(e, "binary operator %s is not translated", x.Op)
	}
	c.fail(e, "integer expression %s (%T) is not translated", c.txt(e), e)
	return ""
}

// hasAddr: the expression contains an address-of (and is therefore option-valued)
func hasAddr(e ast.Expr) bool {
	found := false
	ast.Inspect(e, func(n ast.Node) bool {
		if u, ok := n.(*ast.UnaryExpr); ok && u.Op == token.AND {
			found = true
		}
		return !found
	})
	return found
}

// ptrExpr: an expression of type uintptr, option-valued
func (c *c10ctx) ptrExpr(e ast.Expr) string {
	switch x := e.(type) {
	case *ast.ParenExpr:
		return c.ptrExpr(x.X)
	case *ast.CallExpr:
		call, ok := c10isCall(e, "uintptr", 1)
		if !ok {
			c.fail(e, "call %s is not translated", c.txt(e))
		}
		if inner, ok := c10isCall(call.Args[0], "unsafe.Pointer", 1); ok {
			u, ok := inner.Args[0].(*ast.UnaryExpr)
			if !ok || u.Op != token.AND {
				c.fail(e, "unsafe.Pointer of something that is not &s[e]")
			}
			ix, ok := u.X.(*ast.IndexExpr)
			if !ok {
				c.fail(e, "address of something that is not s[e]")
			}
			sv := c.svar(ix.X)
			idx := c.intExpr(ix.Index)
			return "(o_addr " + c.use("(VAddr "+sv[0]+")", "addr"+sv[1]) + " " + c.use("(VLen "+sv[0]+")", "len"+sv[1]) + " " + idx + ")"
		}
		return "(o_ret (wrap_u 64 " + c.intExpr(call.Args[0]) + "))"
	case *ast.BinaryExpr:
		if x.Op == token.ADD {
			return "(o_map2 (fun x y => wrap_u 64 (x + y)) " + c.ptrExpr(x.X) + " " + c.ptrExpr(x.Y) + ")"
		}
		c.fail(e, "uintptr operator %s is not translated", x.Op)
	}
	c.fail(e, "uintptr expression %s is not translated", c.txt(e))
	return ""
}

var c10cmp = map[token.Token]string{token.EQL: "Z.eqb", token.LSS: "Z.ltb", token.LEQ: "Z.leb", token.GTR: "Z.gtb", token.GEQ: "Z.geb"}

// condExpr: a condition, option-valued (None = the evaluation panics)
func (c *c10ctx) condExpr(e ast.Expr) string {
	switch x := e.(type) {
	case *ast.ParenExpr:
		return c.condExpr(x.X)
	case *ast.SelectorExpr:
		if c.txt(e) == "cf.de" {
			tv, ok := c.info.Types[e]
			if b, isB := tv.Type.Underlying().(*types.Basic); !ok || !isB || b.Kind() != types.Bool {
				c.fail(e, "cf.de is not a bool")
			}
			return "(o_ret (negb (" + c.use("Vde", "de") + " =? 0)))"
		}
	case *ast.BinaryExpr:
		switch x.Op {
		case token.LAND:
			return "(o_and " + c.condExpr(x.X) + " " + c.condExpr(x.Y) + ")"
		case token.LOR:
			return "(o_or " + c.condExpr(x.X) + " " + c.condExpr(x.Y) + ")"
		}
		if f, ok := c10cmp[x.Op]; ok {
			if hasAddr(e) {
				return "(o_map2 " + f + " " + c.ptrExpr(x.X) + " " + c.ptrExpr(x.Y) + ")"
			}
			return "(o_ret (" + f + " " + c.intExpr(x.X) + " " + c.intExpr(x.Y) + "))"
		}
	}
	c.fail(e, "condition %s is not translated", c.txt(e))
	return ""
}

func (c *c10ctx) named(e ast.Expr, role, ctype string, tr func(ast.Expr) string) string {
	c.free, c.freeSet = nil, map[string]bool{}
	body := tr(e)
	base := "c10_" + c.fn + "_" + role
	k := c.used[base]
	c.used[base] = k + 1
	name := base
	if k > 0 {
		name = fmt.Sprintf("%s_%d", base, k)
	}
	var ps, as []string
	for _, fv := range c.free {
		ps = append(ps, fv[1])
		as = append(as, "(v "+fv[0]+")")
	}
	params := ""
	if len(ps) > 0 {
		params = " (" + strings.Join(ps, " ") + " : Z)"
	}
	fmt.Fprintf(&c.defs, "(* %s: %s *)\nDefinition %s%s : %s :=\n  %s.\n\n", c.fn, strings.ReplaceAll(c.txt(e), "(*", "( *"), name, params, ctype, body)
	if len(as) == 0 {
		return "(fun _ : env => " + name + ")"
	}
	return "(fun v : env => " + name + " " + strings.Join(as, " ") + ")"
}

func (c *c10ctx) zExpr(e ast.Expr, role string) string { return c.named(e, role, "Z", c.intExpr) }
func (c *c10ctx) bExpr(e ast.Expr, role string) string {
	return c.named(e, role, "option bool", c.condExpr)
}

// sexp: s, s[lo:], s[:hi], s[lo:hi]
func (c *c10ctx) sexp(e ast.Expr) string {
	bound := func(b ast.Expr, role string) string {
		if b == nil {
			return "None"
		}
		return "(Some (" + gq(c.txt(b)) + ", " + c.zExpr(b, role) + "))"
	}
	if sl, ok := e.(*ast.SliceExpr); ok {
		if sl.Slice3 {
			c.fail(e, "three-index slice")
		}
		sv := c.svar(sl.X)
		return "(SE " + sv[0] + " " + bound(sl.Low, "lo") + " " + bound(sl.High, "hi") + ")"
	}
	sv := c.svar(e)
	return "(SE " + sv[0] + " None None)"
}

// bexp: val, s[e], a ^ b
func (c *c10ctx) bexp(e ast.Expr) string {
	switch x := e.(type) {
	case *ast.ParenExpr:
		return c.bexp(x.X)
	case *ast.Ident:
		if x.Name == "val" {
			return "BVal"
		}
	case *ast.IndexExpr:
		sv := c.svar(x.X)
		return "(BIdx " + sv[0] + " " + gq(c.txt(x.Index)) + " " + c.zExpr(x.Index, "idx") + ")"
	case *ast.BinaryExpr:
		if x.Op == token.XOR {
			return "(BXor " + c.bexp(x.X) + " " + c.bexp(x.Y) + ")"
		}
	}
	c.fail(e, "byte expression %s is not translated", c.txt(e))
	return ""
}

func (c *c10ctx) block(list []ast.Stmt, ind string) string {
	var items []string
	for _, s := range list {
		items = append(items, c.stmt(s, ind+"  ")...)
	}
	return gblock(items, ind)
}

func (c *c10ctx) isByteSlice(e ast.Expr) bool { return c.txt(e) == "[]byte" }

func (c *c10ctx) stmt(s ast.Stmt, ind string) []string {
	switch x := s.(type) {
	case *ast.IfStmt:
		if x.Init != nil {
			c.fail(s, "if with an initialiser")
		}
		cond := c.bExpr(x.Cond, "cond")
		th := c.block(x.Body.List, ind)
		el := "[]"
		switch e := x.Else.(type) {
		case nil:
		case *ast.BlockStmt:
			el = c.block(e.List, ind)
		default:
			c.fail(s, "else-if is not a shape of these functions")
		}
		return []string{fmt.Sprintf("CIf %s %s\n%s    %s\n%s    %s", gq(c.txt(x.Cond)), cond, ind, th, ind, el)}
	case *ast.ReturnStmt:
		if len(x.Results) != 0 {
			c.fail(s, "return with results")
		}
		return []string{"CReturn"}
	case *ast.ExprStmt:
		if call, ok := c10isCall(x.X, "panic", 1); ok {
			lit, ok := call.Args[0].(*ast.BasicLit)
			if !ok || lit.Kind != token.STRING {
				c.fail(s, "panic without a string literal")
			}
			m, err := strconv.Unquote(lit.Value)
			if err != nil {
				c.fail(s, "panic message")
			}
			return []string{"CPanic " + gq(m)}
		}
		if call, ok := c10isCall(x.X, "cf.xorKeyStream", 2); ok {
			return []string{"CCall KxorKeyStream " + c.sexp(call.Args[0]) + " " + c.sexp(call.Args[1])}
		}
		if call, ok := c10isCall(x.X, "cf.c.Encrypt", 2); ok {
			return []string{"CEncrypt " + c.sexp(call.Args[0]) + " " + c.sexp(call.Args[1])}
		}
		if call, ok := c10isCall(x.X, "subtle.XORBytes", 3); ok {
			return []string{"CXorBytes " + c.sexp(call.Args[0]) + " " + c.sexp(call.Args[1]) + " " + c.sexp(call.Args[2])}
		}
		if call, ok := c10isCall(x.X, "copy", 2); ok {
			return []string{"CCopy " + c.sexp(call.Args[0]) + " " + c.sexp(call.Args[1])}
		}
		c.fail(s, "unknown call statement %s", c.txt(x.X))
	case *ast.DeclStmt:
		gd, ok := x.Decl.(*ast.GenDecl)
		if !ok || gd.Tok != token.VAR {
			c.fail(s, "unknown declaration")
		}
		var out []string
		for _, sp := range gd.Specs {
			vs := sp.(*ast.ValueSpec)
			if len(vs.Names) != 1 || len(vs.Values) != 0 || vs.Type == nil {
				c.fail(s, "unknown var declaration %s", c.txt(vs))
			}
			n, ty := vs.Names[0].Name, c.txt(vs.Type)
			switch {
			case ty == "[]byte":
				sv, ok := c10svars[n]
				if !ok {
					c.fail(s, "%s is not a slice variable of Model/C10_syntax.v", n)
				}
				out = append(out, "CVarSlice "+sv[0])
			case ty == "int" && c10lhs[n] != "":
				out = append(out, "CVarInt "+c10lhs[n])
			case ty == "byte" && n == "val":
				out = append(out, "CVarByte")
			default:
				c.fail(s, "unknown var declaration %s %s", n, ty)
			}
		}
		return out
	case *ast.AssignStmt:
		if len(x.Lhs) != 1 || len(x.Rhs) != 1 {
			c.fail(s, "assignment with %d/%d sides", len(x.Lhs), len(x.Rhs))
		}
		l, r := x.Lhs[0], x.Rhs[0]
		lt := c.txt(l)
		full := c.txt(s)
		if _, ok := c10svars[lt]; ok && lt != "cf.iv" && (x.Tok == token.ASSIGN || x.Tok == token.DEFINE) {
			def := "false"
			if x.Tok == token.DEFINE {
				def = "true"
			}
			return []string{"CSetSlice " + c10svars[lt][0] + " " + def + " " + c.sexp(r)}
		}
		if lt == "_" && x.Tok == token.ASSIGN {
			if _, ok := r.(*ast.IndexExpr); !ok {
				c.fail(s, "unknown blank assignment")
			}
			return []string{"CHint " + c.bexp(r)}
		}
		if lv, ok := c10lhs[lt]; ok {
			switch x.Tok {
			case token.ASSIGN:
				c.requireInt(l)
				return []string{"CLet " + lv + " " + gq(full) + " " + c.zExpr(r, c10ivars[lt][1])}
			case token.DEFINE:
				id, isId := l.(*ast.Ident)
				if !isId || c.info.Defs[id] == nil {
					c.fail(s, "definition of something that is not a local")
				}
				if b, ok := c.info.Defs[id].Type().Underlying().(*types.Basic); !ok || b.Kind() != types.Int {
					c.fail(s, "%s is not of type int", lt)
				}
				return []string{"CLet " + lv + " " + gq(full) + " " + c.zExpr(r, c10ivars[lt][1])}
			case token.ADD_ASSIGN:
				c.requireInt(l)
				be := &ast.BinaryExpr{X: l, Op: token.ADD, Y: r, OpPos: x.TokPos}
				return []string{"CLet " + lv + " " + gq(full) + " " + c.named(be, c10ivars[lt][1], "Z", c.intExpr)}
			}
			c.fail(s, "assignment operator %s", x.Tok)
		}
		if lt == "val" && x.Tok == token.XOR_ASSIGN {
			return []string{"CXorVal " + c.bexp(r)}
		}
		if ix, ok := l.(*ast.IndexExpr); ok && x.Tok == token.ASSIGN {
			sv := c.svar(ix.X)
			return []string{"CStore " + sv[0] + " " + gq(c.txt(ix.Index)) + " " + c.zExpr(ix.Index, "idx") + " " + c.bexp(r)}
		}
		c.fail(s, "unknown assignment %s", full)
	case *ast.ForStmt:
		init := "[]"
		if x.Init != nil {
			init = gblock(c.stmt(x.Init, ind+"  "), ind)
		}
		if x.Cond == nil || x.Post == nil {
			c.fail(s, "for without condition or post statement")
		}
		cond := c.bExpr(x.Cond, "cond")
		post := gblock(c.stmt(x.Post, ind+"  "), ind)
		body := c.block(x.Body.List, ind)
		return []string{fmt.Sprintf("CFor %s %s %s\n%s    %s\n%s    %s", init, gq(c.txt(x.Cond)), cond, ind, post, ind, body)}
	case *ast.RangeStmt:
		if x.Key == nil || x.Value == nil || c.txt(x.Key) != "i" || c.txt(x.Value) != "val" {
			c.fail(s, "range loop whose variables are not i, val")
		}
		def := "false"
		switch x.Tok {
		case token.DEFINE:
			def = "true"
		case token.ASSIGN:
		default:
			c.fail(s, "range without variables")
		}
		if _, ok := x.X.(*ast.Ident); !ok {
			c.fail(s, "range over something that is not a variable")
		}
		sv := c.svar(x.X)
		return []string{fmt.Sprintf("CRange %s %s\n%s    %s", def, sv[0], ind, c.block(x.Body.List, ind))}
	}
	c.fail(s, "unknown statement %T: %s", s, c.txt(s))
	return nil
}

// checkSig: func (cf *CFB8) name(dst, src []byte)
func (c *c10ctx) checkSig(fd *ast.FuncDecl) {
	if fd.Recv == nil || len(fd.Recv.List) != 1 || len(fd.Recv.List[0].Names) != 1 || fd.Recv.List[0].Names[0].Name != "cf" || c.txt(fd.Recv.List[0].Type) != "*CFB8" {
		c.fail(fd, "receiver is not (cf *CFB8)")
	}
	names, _ := fieldNames(fd.Type.Params)
	if strings.Join(names, ",") != "dst,src" {
		c.fail(fd, "parameters are (%s), expected (dst, src)", strings.Join(names, ","))
	}
	for _, p := range fd.Type.Params.List {
		if !c.isByteSlice(p.Type) {
			c.fail(fd, "parameter type %s is not []byte", c.txt(p.Type))
		}
	}
	if fd.Type.Results != nil && len(fd.Type.Results.List) > 0 {
		c.fail(fd, "function has results")
	}
}

func genC10(repo string) (out string, err error) {
	defer func() {
		if r := recover(); r != nil {
			if te, ok := r.(c10err); ok {
				err = fmt.Errorf("%s", te.msg)
				return
			}
			if te, ok := r.(trErr); ok {
				err = te
				return
			}
			panic(r)
		}
	}()
	fset := token.NewFileSet()
	files, _, e := parseDir(fset, filepath.Join(repo, "net/CFB8"))
	if e != nil {
		return "", e
	}
	conf := types.Config{Importer: &fakeImporter{map[string]*types.Package{}}, Error: func(error) {}}
	info := &types.Info{Types: map[ast.Expr]types.TypeAndValue{}, Defs: map[*ast.Ident]types.Object{}, Uses: map[*ast.Ident]types.Object{}}
	conf.Check("net/CFB8", fset, files, info)
	c := &c10ctx{fset: fset, info: info, used: map[string]int{}}

	var skels bytes.Buffer
	for _, name := range []string{"XORKeyStream", "xorKeyStream"} {
		fd := findFunc(files, "CFB8", name)
		if fd == nil || fd.Body == nil {
			return "", fmt.Errorf("net/CFB8: method CFB8.%s not found", name)
		}
		c.fn = name
		c.checkSig(fd)
		body := c.block(fd.Body.List, "  ")
		fmt.Fprintf(&skels, "(* net/CFB8/cfb8.go: CFB8.%s *)\nDefinition %s : list sem_stmt :=\n  %s.\n\n", name, name, body)
	}

	// constructors and the struct: rendered text + the length of the make
	var texts bytes.Buffer
	render := func(list []ast.Stmt) string {
		var rs []string
		for _, s := range list {
			rs = append(rs, gq(c.txt(s)))
		}
		return "[" + strings.Join(rs, ";\n   ") + "]"
	}
	for _, name := range []string{"NewCFB8Decrypt", "NewCFB8Encrypt", "newCFB8"} {
		fd := findFunc(files, "", name)
		if fd == nil || fd.Body == nil {
			return "", fmt.Errorf("net/CFB8: function %s not found", name)
		}
		c.fn = name
		fmt.Fprintf(&texts, "(* net/CFB8/cfb8.go: %s *)\nDefinition cfb8_%s_sig : string := %s.\nDefinition cfb8_%s : list string :=\n  %s.\n\n",
			name, name, gq(c.txt(fd.Type)), name, render(fd.Body.List))
		if name == "newCFB8" {
			found := false
			for _, s := range fd.Body.List {
				as, ok := s.(*ast.AssignStmt)
				if !ok || len(as.Rhs) != 1 {
					continue
				}
				call, ok := c10isCall(as.Rhs[0], "make", 2)
				if !ok {
					continue
				}
				if c.txt(call.Args[0]) != "[]byte" || found {
					c.fail(s, "unexpected make")
				}
				found = true
				// the only variable: len(iv) of the parameter iv
				c.named(call.Args[1], "make_len", "Z", c.intExpr)
			}
			if !found {
				c.fail(fd, "no make([]byte, ...) in newCFB8")
			}
		}
	}
	// type CFB8 struct
	var fields []string
	for _, f := range files {
		for _, d := range f.Decls {
			gd, ok := d.(*ast.GenDecl)
			if !ok || gd.Tok != token.TYPE {
				continue
			}
			for _, sp := range gd.Specs {
				ts := sp.(*ast.TypeSpec)
				st, ok := ts.Type.(*ast.StructType)
				if !ok || ts.Name.Name != "CFB8" {
					continue
				}
				for _, fl := range st.Fields.List {
					for _, n := range fl.Names {
						fields = append(fields, gq(n.Name+" "+c.txt(fl.Type)))
					}
				}
			}
		}
	}
	if len(fields) == 0 {
		return "", fmt.Errorf("net/CFB8: type CFB8 struct not found")
	}
	fmt.Fprintf(&texts, "(* net/CFB8/cfb8.go: type CFB8 struct *)\nDefinition cfb8_struct : list string :=\n  [%s].\n\n", strings.Join(fields, "; "))

	var b bytes.Buffer
	b.WriteString("(* GENERATED by tools/gotrans (c10.go) from net/CFB8/cfb8.go - do not edit *)\n")
	b.WriteString("From Coq Require Import ZArith Bool List String.\n")
	b.WriteString("From GoMC Require Import Base.GoInt Model.C10_syntax.\n")
	b.WriteString("Import ListNotations.\nLocal Open Scope Z_scope.\nLocal Open Scope bool_scope.\n\n")
	b.WriteString("(* ---- expressions, funcs.go-style ---- *)\n")
	b.Write(c.defs.Bytes())
	b.WriteString("(* ---- statement skeletons ---- *)\nLocal Open Scope string_scope.\n\n")
	b.Write(skels.Bytes())
	b.Write(texts.Bytes())
	return b.String(), nil
}

// emitC10 is the one call main.go makes
func emitC10(repo, outdir string) {
	s, err := genC10(repo)
	if err != nil {
		fmt.Fprintln(os.Stderr, "gotrans: c10:", err)
		os.Exit(1)
	}
	if err := writeIfChanged(filepath.Join(outdir, "C10gen.v"), s); err != nil {
		fmt.Fprintln(os.Stderr, "gotrans:", err)
		os.Exit(1)
	}
}
