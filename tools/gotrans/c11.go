package main

// c11.go: translation of the parts of level/bitstorage.go that funcs.go does not cover, for property C11,
// into coq/Gen/C11gen.v on every run (vocabulary: coq/Model/C11_syntax.v, coq/Model/C06_syntax.v).
//
//   - the struct declarations BitStorage and newBitStorageErr become the Record `gbs` (one field per Go field,
//     in declaration order; a slice field x is the pair g_x = visible part, g_x_spare = the elements between
//     len and cap) with one setter per field, and the constructor GV_newBitStorageErr of `gval`;
//   - calcBitStorageSize, NewBitStorage, (*BitStorage).Fix: pure functions into `gres gval A`; every Go
//     operation that can panic at run time is an explicit guard placed BEFORE the statement that contains
//     it: a non-constant divisor equal to 0, a negative non-constant shift count, make with a negative
//     length, a slice bound outside 0..cap (GPanic GV_runtime); panic(v) is GPanic v.  A method with a
//     pointer receiver returns the receiver's final state together with its result, also when it panics;
//     a field write b.f = e is the record update set_g_f;
//   - (*BitStorage).ReadFrom: a term of Base.Dec.dec returning (final state of the receiver, n) with the
//     receiver's prior state as an argument; calls of pk.T.ReadFrom are the translations of Gen/C06gen.v
//     (pk.VarInt.ReadFrom, C05's loop, is a parameter); `if err != nil { return ..., err }` after an I/O
//     call is the failure path of that effect: its shape is checked and it is not emitted; between the
//     call and that test only assignments to integer locals are accepted; an I/O call whose error is never
//     tested is refused; run-time panics are Crash;
//   - (*BitStorage).WriteTo: a pure function (n, err, bytes) over a writer that accepts everything, calls
//     of pk.T(e).WriteTo are the translations of Gen/C06gen.v; `for ... range b.data` loops become
//     top-level Fixpoints over the number of elements the slice had at loop entry;
//   - Len and Raw: plain projections; `if b == nil` on a pointer receiver makes the receiver an option.
//
// Everything outside the shapes handled here makes gotrans fail (non-zero exit, file:line in the message).

import (
	"bytes"
	"fmt"
	"go/ast"
	"go/token"
	"go/types"
	"os"
	"path/filepath"
	"sort"
	"strings"
)

type c11ty struct {
	k      string // "int" (sized), "const" (untyped integer constant), "bool"
	signed bool
	w      int
}

func (t c11ty) sized() bool { return t.k == "int" }

type c11var struct {
	coq  string
	kind string // int bool state optstate optslice slice err out
	ty   c11ty
	pk   string // for locals declared `var x pk.T`: T
}

type c11guard struct{ cond, what string }

type c11field struct {
	name  string
	slice bool
	ty    c11ty
}

type c11w struct {
	fset     *token.FileSet
	info     *types.Info
	fd       *ast.FuncDecl
	cname    string
	kind     string // pure new method getter reader writer
	env      map[string]*c11var
	used     map[string]int
	guards   []c11guard
	recv     string
	fields   []c11field
	errFlds  []string // fields of newBitStorageErr in declaration order
	pkTypes  map[string]c11ty
	pendErr  string
	inLoop   bool
	nloops   int
	nmakes   int
	aux      *bytes.Buffer
	ext      bool // the definition takes packet_VarInt_ReadFrom
	resSlice bool
	nres     int
}

func (w *c11w) fail(n ast.Node, f string, a ...any) {
	panic(trErr{fmt.Sprintf("%s: c11: %s", w.fset.Position(n.Pos()), fmt.Sprintf(f, a...))})
}

func (w *c11w) fresh(base string) string {
	n := w.used[base]
	w.used[base] = n + 1
	if n == 0 {
		return base
	}
	return fmt.Sprintf("%s_%d", base, n)
}

func (w *c11w) bindVar(name string, v c11var) string {
	v.coq = w.fresh(name)
	w.env[name] = &v
	return v.coq
}

// rebind gives the Go variable `name` a new Coq version (same kind and type)
func (w *c11w) rebind(n ast.Node, name string) string {
	v, ok := w.env[name]
	if !ok {
		w.fail(n, "assignment to unknown variable %s", name)
	}
	nv := *v
	nv.coq = w.fresh(name)
	w.env[name] = &nv
	return nv.coq
}

func (w *c11w) snapshot() map[string]*c11var {
	m := map[string]*c11var{}
	for k, v := range w.env {
		m[k] = v
	}
	return m
}

func (w *c11w) field(n ast.Node, name string) c11field {
	for _, f := range w.fields {
		if f.name == name {
			return f
		}
	}
	w.fail(n, "BitStorage has no field %s", name)
	return c11field{}
}

func c11tyOf(ty types.Type) (c11ty, bool) {
	if ty == nil {
		return c11ty{}, false
	}
	if s, wd, ok := intKind(ty); ok {
		return c11ty{"int", s, wd}, true
	}
	if b, ok := ty.Underlying().(*types.Basic); ok {
		if b.Info()&types.IsBoolean != 0 {
			return c11ty{k: "bool"}, true
		}
		if b.Kind() == types.UntypedInt {
			return c11ty{k: "const"}, true
		}
	}
	return c11ty{}, false
}

func (w *c11w) wrap(t c11ty, s string) string {
	if t.signed {
		return fmt.Sprintf("(wrap_s %d %s)", t.w, s)
	}
	return fmt.Sprintf("(wrap_u %d %s)", t.w, s)
}

// state gives the current Coq name of the receiver / constructed object
func (w *c11w) state(n ast.Node) string {
	v, ok := w.env[w.recv]
	if !ok || v.kind != "state" {
		w.fail(n, "%s is used before it is known to be non-nil", w.recv)
	}
	return v.coq
}

// sliceOf recognises b.data (a slice field of the state) and the slice parameter; returns Coq terms for
// the visible part and the spare part ("" when the slice has no modelled capacity)
func (w *c11w) sliceOf(e ast.Expr) (vis, spare string, ok bool) {
	switch x := e.(type) {
	case *ast.ParenExpr:
		return w.sliceOf(x.X)
	case *ast.SelectorExpr:
		if id, isId := x.X.(*ast.Ident); isId && id.Name == w.recv {
			f := w.field(e, x.Sel.Name)
			if f.slice {
				b := w.state(e)
				return fmt.Sprintf("(g_%s %s)", f.name, b), fmt.Sprintf("(g_%s_spare %s)", f.name, b), true
			}
		}
	case *ast.Ident:
		if v, isVar := w.env[x.Name]; isVar {
			switch v.kind {
			case "slice", "lslice":
				return v.coq, "", true
			case "optslice":
				w.fail(e, "slice %s is used before it is known to be non-nil", x.Name)
			}
		}
	}
	return "", "", false
}

func (w *c11w) convType(fun ast.Expr) (c11ty, bool) {
	switch x := fun.(type) {
	case *ast.ParenExpr:
		return w.convType(x.X)
	case *ast.Ident:
		if tv, ok := w.info.Types[fun]; ok && tv.IsType() {
			if t, ok := c11tyOf(tv.Type); ok && t.sized() {
				return t, true
			}
		}
	case *ast.SelectorExpr:
		if id, ok := x.X.(*ast.Ident); ok && id.Name == "pk" {
			if t, ok := w.pkTypes[x.Sel.Name]; ok {
				return t, true
			}
		}
	}
	return c11ty{}, false
}

func (w *c11w) guard(cond, what string) { w.guards = append(w.guards, c11guard{cond, what}) }

// ex translates an integer / boolean expression; run-time panic conditions are appended to w.guards
func (w *c11w) ex(e ast.Expr) (string, c11ty) {
	if tv, ok := w.info.Types[e]; ok && tv.Value != nil {
		if t, ok := c11tyOf(tv.Type); ok {
			if t.k == "bool" {
				return tv.Value.String(), t
			}
			return zlit(tv.Value), t
		}
	}
	switch x := e.(type) {
	case *ast.ParenExpr:
		return w.ex(x.X)
	case *ast.BasicLit:
		if x.Kind == token.INT {
			var v int64
			if _, err := fmt.Sscan(x.Value, &v); err == nil {
				return fmt.Sprintf("(%d)", v), c11ty{k: "const"}
			}
		}
	case *ast.Ident:
		if v, ok := w.env[x.Name]; ok {
			switch v.kind {
			case "int", "bool":
				return v.coq, v.ty
			}
			w.fail(e, "%s (a %s) used as a number", x.Name, v.kind)
		}
		if x.Name == "true" || x.Name == "false" {
			return x.Name, c11ty{k: "bool"}
		}
		w.fail(e, "unknown identifier %s", x.Name)
	case *ast.SelectorExpr:
		if id, ok := x.X.(*ast.Ident); ok {
			if c, ok := builtinConsts[id.Name+"."+x.Sel.Name]; ok {
				return c, c11ty{k: "const"}
			}
			if id.Name == w.recv {
				f := w.field(e, x.Sel.Name)
				if f.slice {
					w.fail(e, "slice field %s used as a number", f.name)
				}
				return fmt.Sprintf("(g_%s %s)", f.name, w.state(e)), f.ty
			}
		}
	case *ast.CallExpr:
		if id, ok := x.Fun.(*ast.Ident); ok && (id.Name == "len" || id.Name == "cap") && len(x.Args) == 1 {
			vis, spare, ok := w.sliceOf(x.Args[0])
			if !ok {
				w.fail(e, "%s of something that is not a modelled slice", id.Name)
			}
			it := c11ty{"int", true, 64}
			if id.Name == "len" {
				return "(zlen " + vis + ")", it
			}
			if spare == "" {
				w.fail(e, "cap of a slice whose capacity is not modelled")
			}
			return "(zlen " + vis + " + zlen " + spare + ")", it
		}
		if id, ok := x.Fun.(*ast.Ident); ok && (id.Name == "min" || id.Name == "max") && len(x.Args) == 2 {
			if _, shadow := w.env[id.Name]; shadow {
				w.fail(e, "%s is shadowed", id.Name)
			}
			a, ta := w.ex(x.Args[0])
			b, tb := w.ex(x.Args[1])
			t := ta
			if !t.sized() {
				t = tb
			}
			if !t.sized() || (ta.sized() && tb.sized() && ta != tb) {
				w.fail(e, "%s of operands whose common integer type is not known", id.Name)
			}
			return "(Z." + id.Name + " " + a + " " + b + ")", t
		}
		if t, ok := w.convType(x.Fun); ok {
			if len(x.Args) != 1 {
				w.fail(e, "conversion with %d arguments", len(x.Args))
			}
			a, _ := w.ex(x.Args[0])
			return w.wrap(t, a), t
		}
		w.fail(e, "call inside an expression (only len, cap and integer conversions are translated there)")
	case *ast.UnaryExpr:
		a, t := w.ex(x.X)
		switch x.Op {
		case token.NOT:
			return "(negb " + a + ")", t
		case token.ADD:
			return a, t
		case token.SUB:
			if t.sized() {
				return w.wrap(t, "(- "+a+")"), t
			}
		case token.XOR:
			if t.sized() {
				return w.wrap(t, "(Z.lnot "+a+")"), t
			}
		}
		w.fail(e, "unsupported unary operator %s", x.Op)
	case *ast.BinaryExpr:
		a, ta := w.ex(x.X)
		ng := len(w.guards)
		b, tb := w.ex(x.Y)
		if (x.Op == token.LAND || x.Op == token.LOR) && len(w.guards) != ng {
			w.fail(e, "an operation that can panic in the right operand of %s", x.Op)
		}
		// result type of an arithmetic operation
		rt := func() c11ty {
			if tv, ok := w.info.Types[e]; ok {
				if t, ok := c11tyOf(tv.Type); ok && t.sized() {
					return t
				}
			}
			if x.Op == token.SHL || x.Op == token.SHR {
				if ta.sized() {
					return ta
				}
				w.fail(e, "shift of an untyped constant whose type is not known")
			}
			if ta.sized() && tb.sized() && ta != tb {
				w.fail(e, "operands of different integer types")
			}
			if ta.sized() {
				return ta
			}
			if tb.sized() {
				return tb
			}
			w.fail(e, "arithmetic on untyped constants that go/types did not fold")
			return c11ty{}
		}
		isConst := func(y ast.Expr) bool {
			tv, ok := w.info.Types[y]
			if ok && tv.Value != nil {
				return true
			}
			_, lit := y.(*ast.BasicLit)
			return lit
		}
		bt := c11ty{k: "bool"}
		switch x.Op {
		case token.ADD:
			t := rt()
			return w.wrap(t, "("+a+" + "+b+")"), t
		case token.SUB:
			t := rt()
			return w.wrap(t, "("+a+" - "+b+")"), t
		case token.MUL:
			t := rt()
			return w.wrap(t, "("+a+" * "+b+")"), t
		case token.QUO, token.REM:
			t := rt()
			if !isConst(x.Y) {
				w.guard("("+b+" =? 0)", "div")
			} else if b == "(0)" {
				w.fail(e, "division by the constant 0")
			}
			if x.Op == token.QUO {
				// MinInt / -1 wraps in Go; Z.quot gives 2^(w-1): wrap
				if t.signed && !isConst(x.Y) {
					return w.wrap(t, "(Z.quot "+a+" "+b+")"), t
				}
				return "(Z.quot " + a + " " + b + ")", t
			}
			return "(Z.rem " + a + " " + b + ")", t
		case token.AND:
			return "(Z.land " + a + " " + b + ")", rt()
		case token.OR:
			return "(Z.lor " + a + " " + b + ")", rt()
		case token.XOR:
			return "(Z.lxor " + a + " " + b + ")", rt()
		case token.AND_NOT:
			return "(Z.ldiff " + a + " " + b + ")", rt()
		case token.SHL, token.SHR:
			t := rt()
			if !isConst(x.Y) {
				if !tb.sized() {
					w.fail(e, "shift count of unknown type")
				}
				if tb.signed {
					w.guard("("+b+" <? 0)", "shift")
				}
			}
			if x.Op == token.SHL {
				return w.wrap(t, "(Z.shiftl "+a+" "+b+")"), t
			}
			return "(Z.shiftr " + a + " " + b + ")", t
		case token.EQL:
			if ta.k == "bool" {
				return "(Bool.eqb " + a + " " + b + ")", bt
			}
			return "(" + a + " =? " + b + ")", bt
		case token.NEQ:
			if ta.k == "bool" {
				return "(negb (Bool.eqb " + a + " " + b + "))", bt
			}
			return "(negb (" + a + " =? " + b + "))", bt
		case token.LSS:
			return "(" + a + " <? " + b + ")", bt
		case token.LEQ:
			return "(" + a + " <=? " + b + ")", bt
		case token.GTR:
			return "(" + b + " <? " + a + ")", bt
		case token.GEQ:
			return "(" + b + " <=? " + a + ")", bt
		case token.LAND:
			return "(" + a + " && " + b + ")", bt
		case token.LOR:
			return "(" + a + " || " + b + ")", bt
		}
		w.fail(e, "unsupported binary operator %s", x.Op)
	}
	w.fail(e, "unsupported expression %T", e)
	return "", c11ty{}
}

// ---------------------------------------------------------------------------------------------- outcomes

func (w *c11w) panicWith(n ast.Node, v string) string {
	switch w.kind {
	case "pure", "new":
		return "GPanic " + v
	case "method":
		return "(" + w.state(n) + ", GPanic " + v + ")"
	}
	w.fail(n, "panic in a %s", w.kind)
	return ""
}

// flush emits the pending run-time panic guards in front of the statement text produced by k
func (w *c11w) flush(n ast.Node, k func() string) string {
	gs := w.guards
	w.guards = nil
	var b bytes.Buffer
	for _, g := range gs {
		switch w.kind {
		case "reader":
			cr := map[string]string{"make": "crash_make", "slice": "crash_slice", "index": "crash_index"}[g.what]
			if cr == "" {
				w.fail(n, "run-time panic of kind %s in a reader", g.what)
			}
			fmt.Fprintf(&b, "if %s then Crash %s else\n  ", g.cond, cr)
		case "pure", "new", "method":
			fmt.Fprintf(&b, "if %s then %s else (* run-time panic: %s *)\n  ", g.cond, w.panicWith(n, "GV_runtime"), g.what)
		default:
			w.fail(n, "an operation that can panic (%s) in a %s", g.what, w.kind)
		}
	}
	return b.String() + k()
}

// composite literal T{...} of one of the two struct types, fields in declaration order
func (w *c11w) composite(e ast.Expr) (string, string) {
	if u, ok := e.(*ast.UnaryExpr); ok && u.Op == token.AND {
		e = u.X
	}
	cl, ok := e.(*ast.CompositeLit)
	if !ok {
		return "", ""
	}
	tn := selName(cl.Type)
	vals := map[string]string{}
	for _, el := range cl.Elts {
		kv, ok := el.(*ast.KeyValueExpr)
		if !ok {
			w.fail(el, "composite literal without field names")
		}
		k := selName(kv.Key)
		if _, dup := vals[k]; dup {
			w.fail(el, "duplicate field %s", k)
		}
		if tn == "BitStorage" && w.field(kv, k).slice {
			if !isNil(kv.Value) {
				w.fail(kv, "slice field initialised with something other than nil")
			}
			vals[k] = "(@nil Z) (@nil Z)"
			continue
		}
		v, _ := w.ex(kv.Value)
		vals[k] = v
	}
	switch tn {
	case "BitStorage":
		var as []string
		for _, f := range w.fields {
			v, ok := vals[f.name]
			delete(vals, f.name)
			if !ok {
				v = "(0)"
				if f.slice {
					v = "(@nil Z) (@nil Z)"
				}
			}
			as = append(as, v)
		}
		if len(vals) != 0 {
			w.fail(e, "unknown field in a BitStorage literal")
		}
		return "(mkG " + strings.Join(as, " ") + ")", tn
	case "newBitStorageErr":
		var as []string
		for _, f := range w.errFlds {
			v, ok := vals[f]
			delete(vals, f)
			if !ok {
				v = "(0)"
			}
			as = append(as, v)
		}
		if len(vals) != 0 {
			w.fail(e, "unknown field in a newBitStorageErr literal")
		}
		return "(GV_newBitStorageErr " + strings.Join(as, " ") + ")", tn
	}
	w.fail(e, "composite literal of type %s", tn)
	return "", ""
}

func (w *c11w) outVar(n ast.Node) string {
	v, ok := w.env["c11out"]
	if !ok {
		w.fail(n, "internal: no output variable")
	}
	return v.coq
}

func (w *c11w) ret(x *ast.ReturnStmt) string {
	if w.inLoop {
		w.fail(x, "return inside a loop (other than the failure path of an I/O call)")
	}
	if w.pendErr != "" {
		w.fail(x, "the error of the I/O call above is never tested")
	}
	rs := x.Results
	switch w.kind {
	case "pure":
		if len(rs) != 1 {
			w.fail(x, "return with %d results", len(rs))
		}
		v, _ := w.ex(rs[0])
		return w.flush(x, func() string { return "GRet " + v })
	case "new":
		if len(rs) == 0 {
			return "GRet " + w.state(x)
		}
		if len(rs) == 1 {
			if c, tn := w.composite(rs[0]); tn == "BitStorage" {
				return w.flush(x, func() string { return "GRet " + c })
			}
		}
		w.fail(x, "unsupported return in a constructor")
	case "method":
		if len(rs) != 1 {
			w.fail(x, "return with %d results", len(rs))
		}
		if isNil(rs[0]) {
			return "(" + w.state(x) + ", GRet None)"
		}
		if c, tn := w.composite(rs[0]); tn == "newBitStorageErr" {
			return w.flush(x, func() string { return "(" + w.state(x) + ", GRet (Some " + c + "))" })
		}
		w.fail(x, "unsupported error value")
	case "getter":
		if len(rs) != 1 {
			w.fail(x, "return with %d results", len(rs))
		}
		if w.resSlice {
			if cl, ok := rs[0].(*ast.CompositeLit); ok && len(cl.Elts) == 0 {
				if _, ok := cl.Type.(*ast.ArrayType); ok {
					return "(@nil Z)"
				}
			}
			vis, _, ok := w.sliceOf(rs[0])
			if !ok {
				w.fail(x, "unsupported slice result")
			}
			return vis
		}
		v, _ := w.ex(rs[0])
		if len(w.guards) != 0 {
			w.fail(x, "an operation that can panic in an accessor")
		}
		return v
	case "reader":
		if len(rs) != 2 {
			w.fail(x, "return with %d results", len(rs))
		}
		n, _ := w.ex(rs[0])
		if isNil(rs[1]) {
			return w.flush(x, func() string { return "Ret (" + w.state(x) + ", " + n + ")" })
		}
		if call, ok := rs[1].(*ast.CallExpr); ok && selName(call.Fun) == "errors.New" && len(call.Args) == 1 {
			if lit, ok := call.Args[0].(*ast.BasicLit); ok && lit.Kind == token.STRING {
				return w.flush(x, func() string { return "Fail go_errors_New" })
			}
		}
		w.fail(x, "unsupported error value")
	case "writer":
		if len(rs) == 1 {
			if call, ok := rs[0].(*ast.CallExpr); ok {
				if fn, arg := w.pkCall(call, "WriteTo"); fn != "" {
					n, e, o := w.fresh("n"), w.fresh("e"), w.fresh("o")
					return w.flush(x, func() string {
						return fmt.Sprintf("let '(%s, %s, %s) := %s %s in\n  (%s, %s, (%s ++ %s)%%list)", n, e, o, fn, arg, n, e, w.outVar(x), o)
					})
				}
			}
		}
		if len(rs) != 2 || !isNil(rs[1]) {
			w.fail(x, "unsupported return in a writer")
		}
		n, _ := w.ex(rs[0])
		return w.flush(x, func() string { return "(" + n + ", 0%N, " + w.outVar(x) + ")" })
	}
	w.fail(x, "unsupported return")
	return ""
}

// pkCall recognises pk.T(e).M(w|r) and x.M(w|r) with x declared `var x pk.T`; gives the C06gen definition and,
// for writers, the translated argument
func (w *c11w) pkCall(call *ast.CallExpr, method string) (fn, arg string) {
	sel, ok := call.Fun.(*ast.SelectorExpr)
	if !ok || sel.Sel.Name != method || len(call.Args) != 1 {
		return "", ""
	}
	want := map[string]string{"WriteTo": "w", "ReadFrom": "r"}[method]
	if selName(call.Args[0]) != want {
		w.fail(call, "%s on something other than the function's %s", method, want)
	}
	rx := sel.X
	for {
		p, ok := rx.(*ast.ParenExpr)
		if !ok {
			break
		}
		rx = p.X
	}
	if method == "WriteTo" {
		conv, ok := rx.(*ast.CallExpr)
		if !ok {
			return "", ""
		}
		t, ok := w.convType(conv.Fun)
		cs, isSel := conv.Fun.(*ast.SelectorExpr)
		if !ok || !isSel {
			return "", ""
		}
		a, _ := w.ex(conv)
		_ = t
		switch cs.Sel.Name {
		case "VarInt", "Long":
			return "packet_" + cs.Sel.Name + "_WriteTo_io", a
		}
		w.fail(call, "WriteTo of pk.%s, which is not translated", cs.Sel.Name)
	}
	id, ok := rx.(*ast.Ident)
	if !ok {
		return "", ""
	}
	v, ok := w.env[id.Name]
	if !ok || v.pk == "" {
		w.fail(call, "ReadFrom into %s, which is not a local of a pk type", id.Name)
	}
	switch v.pk {
	case "VarInt":
		w.ext = true
		return "packet_VarInt_ReadFrom", id.Name
	case "Long":
		return "packet_Long_ReadFrom_io", id.Name
	}
	w.fail(call, "ReadFrom of pk.%s, which is not translated", v.pk)
	return "", ""
}

// isErrCheck: `if err != nil { return ..., err }` for the pending error variable
func (w *c11w) isErrCheck(x *ast.IfStmt) bool {
	if w.pendErr == "" || x.Init != nil || x.Else != nil {
		return false
	}
	be, ok := x.Cond.(*ast.BinaryExpr)
	if !ok || be.Op != token.NEQ || selName(be.X) != w.pendErr || !isNil(be.Y) {
		return false
	}
	if len(x.Body.List) != 1 {
		return false
	}
	r, ok := x.Body.List[0].(*ast.ReturnStmt)
	if !ok || len(r.Results) != w.nres || w.nres == 0 {
		return false
	}
	return selName(r.Results[len(r.Results)-1]) == w.pendErr
}

// ---------------------------------------------------------------------------------------------- statements

func (w *c11w) stmts(list []ast.Stmt, fall func() string) string {
	if len(list) == 0 {
		return fall()
	}
	s, rest := list[0], list[1:]
	next := func() string { return w.stmts(rest, fall) }
	if len(w.guards) != 0 {
		w.fail(s, "internal: guards pending at a statement boundary")
	}
	switch x := s.(type) {
	case *ast.EmptyStmt:
		return next()
	case *ast.BlockStmt:
		return w.stmts(append(append([]ast.Stmt{}, x.List...), rest...), fall)
	case *ast.ReturnStmt:
		return w.ret(x)
	case *ast.DeclStmt:
		gd, ok := x.Decl.(*ast.GenDecl)
		if !ok || gd.Tok != token.VAR || len(gd.Specs) != 1 {
			w.fail(s, "unsupported declaration")
		}
		vs := gd.Specs[0].(*ast.ValueSpec)
		if len(vs.Names) != 1 || len(vs.Values) != 0 || vs.Type == nil {
			w.fail(s, "unsupported declaration")
		}
		name := vs.Names[0].Name
		if sel, ok := vs.Type.(*ast.SelectorExpr); ok && selName(sel.X) == "pk" {
			t, ok := w.pkTypes[sel.Sel.Name]
			if !ok {
				w.fail(s, "local of type pk.%s", sel.Sel.Name)
			}
			c := w.bindVar(name, c11var{kind: "int", ty: t, pk: sel.Sel.Name})
			return fmt.Sprintf("let %s := (0) in\n  ", c) + next()
		}
		if tv, ok := w.info.Types[vs.Type]; ok {
			if t, ok := c11tyOf(tv.Type); ok && t.sized() {
				c := w.bindVar(name, c11var{kind: "int", ty: t})
				return fmt.Sprintf("let %s := (0) in\n  ", c) + next()
			}
		}
		w.fail(s, "unsupported declaration")
	case *ast.ExprStmt:
		call, ok := x.X.(*ast.CallExpr)
		if !ok {
			w.fail(s, "unsupported expression statement")
		}
		switch selName(call.Fun) {
		case "panic":
			if w.pendErr != "" {
				w.fail(s, "the error of the I/O call above is never tested")
			}
			if len(call.Args) != 1 {
				w.fail(s, "panic with %d arguments", len(call.Args))
			}
			c, tn := w.composite(call.Args[0])
			if tn != "newBitStorageErr" {
				w.fail(s, "panic with a value that is not a newBitStorageErr literal")
			}
			return w.flush(s, func() string { return w.panicWith(s, c) })
		case "copy":
			// copy(b.data, src): the common prefix of src overwrites the destination
			if len(call.Args) != 2 {
				w.fail(s, "copy with %d arguments", len(call.Args))
			}
			if did, ok := call.Args[0].(*ast.Ident); ok {
				// copy(x, src) with x a slice made by this function and not stored anywhere yet
				dvar, isVar := w.env[did.Name]
				if !isVar || dvar.kind != "lslice" {
					w.fail(s, "copy into %s, which is not a slice made by this function", did.Name)
				}
				sv, _, ok := w.sliceOf(call.Args[1])
				if !ok {
					w.fail(s, "copy from something that is not a modelled slice")
				}
				cur := dvar.coq
				return fmt.Sprintf("let %s := zcopy %s %s in\n  ", w.rebind(s, did.Name), cur, sv) + next()
			}
			dsel, ok := call.Args[0].(*ast.SelectorExpr)
			if !ok || selName(dsel.X) != w.recv || !w.field(s, dsel.Sel.Name).slice {
				w.fail(s, "copy into something that is not a slice field of %s", w.recv)
			}
			cur := w.state(s)
			dv, dsp, _ := w.sliceOf(dsel)
			sv, _, ok := w.sliceOf(call.Args[1])
			if !ok {
				w.fail(s, "copy from something that is not a modelled slice")
			}
			if w.pendErr != "" {
				w.fail(s, "the receiver is modified before the error of the I/O call above is tested")
			}
			nb := w.rebind(s, w.recv)
			return fmt.Sprintf("let %s := set_g_%s %s (zcopy %s %s, %s) in\n  ", nb, dsel.Sel.Name, cur, dv, sv, dsp) + next()
		}
		w.fail(s, "unsupported call statement %s", selName(call.Fun))
	case *ast.AssignStmt:
		return w.assign(x, next)
	case *ast.IfStmt:
		return w.ifStmt(x, rest, fall)
	case *ast.RangeStmt:
		return w.rangeLoop(x, next)
	case *ast.ForStmt:
		return w.rangeLoop(x, next)
	}
	w.fail(s, "unsupported statement %T", s)
	return ""
}

// makeLen: the length expression of a make; in a reader it becomes a top-level definition of its own
// (<function>_make<k>, parameters = the integer variables it mentions) so that the allocation rule can be
// stated about it
func (w *c11w) makeLen(call *ast.CallExpr) string {
	if len(call.Args) != 2 {
		w.fail(call, "make with a capacity argument")
	}
	if ty := types.ExprString(call.Args[0]); ty != "[]uint64" {
		w.fail(call, "make of %s", ty)
	}
	n, _ := w.ex(call.Args[1])
	if w.kind == "reader" {
		vis := map[string]bool{}
		for _, v := range w.env {
			if v.kind == "int" && v.coq != "" {
				vis[v.coq] = true
			}
		}
		toks := strings.FieldsFunc(n, func(r rune) bool {
			return !(r == '_' || r == '\'' || r >= '0' && r <= '9' || r >= 'a' && r <= 'z' || r >= 'A' && r <= 'Z')
		})
		seen := map[string]bool{}
		var ps []string
		for _, tk := range toks {
			if vis[tk] && !seen[tk] {
				seen[tk] = true
				ps = append(ps, tk)
			}
		}
		sort.Strings(ps)
		w.nmakes++
		name := fmt.Sprintf("%s_make%d", w.cname, w.nmakes)
		var bs []string
		for _, p := range ps {
			bs = append(bs, "("+p+" : Z)")
		}
		fmt.Fprintf(w.aux, "(* level, the length of make number %d of func %s *)\nDefinition %s %s : Z :=\n  %s.\n\n", w.nmakes, w.fd.Name.Name, name, strings.Join(bs, " "), n)
		n = "(" + strings.TrimSpace(name+" "+strings.Join(ps, " ")) + ")"
	}
	w.guard("("+n+" <? 0)", "make")
	return n
}

func (w *c11w) assign(x *ast.AssignStmt, next func() string) string {
	// I/O calls
	if len(x.Rhs) == 1 {
		if call, ok := x.Rhs[0].(*ast.CallExpr); ok {
			if sel, ok := call.Fun.(*ast.SelectorExpr); ok && (sel.Sel.Name == "WriteTo" || sel.Sel.Name == "ReadFrom") {
				return w.ioAssign(x, call, sel.Sel.Name, next)
			}
		}
	}
	if len(x.Lhs) != 1 || len(x.Rhs) != 1 {
		w.fail(x, "assignment with several targets")
	}
	lhs, rhs := x.Lhs[0], x.Rhs[0]
	// field writes and element writes
	switch l := lhs.(type) {
	case *ast.SelectorExpr:
		if selName(l.X) != w.recv || x.Tok != token.ASSIGN {
			w.fail(x, "unsupported assignment target")
		}
		if w.pendErr != "" {
			w.fail(x, "the receiver is modified before the error of the I/O call above is tested")
		}
		if w.kind == "getter" || w.kind == "writer" {
			w.fail(x, "field write in a %s", w.kind)
		}
		f := w.field(x, l.Sel.Name)
		cur := w.state(x)
		if !f.slice {
			v, _ := w.ex(rhs)
			// the right-hand side is converted to the field's type by assignment only when it is a constant;
			// otherwise Go requires identical types, which the expression translation already wrapped
			return w.flush(x, func() string {
				return fmt.Sprintf("let %s := set_g_%s %s %s in\n  ", w.rebind(x, w.recv), f.name, cur, v) + next()
			})
		}
		// b.data = make([]uint64, n)
		if call, ok := rhs.(*ast.CallExpr); ok && selName(call.Fun) == "make" {
			n := w.makeLen(call)
			return w.flush(x, func() string {
				return fmt.Sprintf("let %s := set_g_%s %s (zrepeat %s, (@nil Z)) in\n  ", w.rebind(x, w.recv), f.name, cur, n) + next()
			})
		}
		// b.data = x with x a slice made by this function: x is consumed (any later use is refused)
		if id, ok := rhs.(*ast.Ident); ok {
			if lv, ok := w.env[id.Name]; ok && lv.kind == "lslice" {
				val := lv.coq
				delete(w.env, id.Name)
				return fmt.Sprintf("let %s := set_g_%s %s (%s, (@nil Z)) in\n  ", w.rebind(x, w.recv), f.name, cur, val) + next()
			}
		}
		// b.data = b.data[:n]
		if sl, ok := rhs.(*ast.SliceExpr); ok {
			ssel, ok := sl.X.(*ast.SelectorExpr)
			if !ok || selName(ssel.X) != w.recv || ssel.Sel.Name != f.name || sl.Low != nil || sl.High == nil || sl.Slice3 {
				w.fail(x, "unsupported slice expression")
			}
			h, _ := w.ex(sl.High)
			all := fmt.Sprintf("(g_%s %s ++ g_%s_spare %s)%%list", f.name, cur, f.name, cur)
			w.guard(fmt.Sprintf("((%s <? 0) || (zlen %s <? %s))", h, all, h), "slice")
			return w.flush(x, func() string {
				return fmt.Sprintf("let %s := set_g_%s %s (ztake %s %s, zdrop %s %s) in\n  ", w.rebind(x, w.recv), f.name, cur, h, all, h, all) + next()
			})
		}
		w.fail(x, "unsupported value for slice field %s", f.name)
	case *ast.IndexExpr:
		// b.data[i] = e with i the key of the enclosing range over b.data
		ssel, ok := l.X.(*ast.SelectorExpr)
		if !ok || selName(ssel.X) != w.recv || x.Tok != token.ASSIGN {
			w.fail(x, "unsupported assignment target")
		}
		f := w.field(x, ssel.Sel.Name)
		id, ok := l.Index.(*ast.Ident)
		if !ok || !f.slice {
			w.fail(x, "unsupported element write")
		}
		iv, ok := w.env[id.Name]
		if !ok || (iv.pk != "range:"+f.name && iv.pk != "for") {
			w.fail(x, "element write at an index that is neither the key of a range over %s.%s nor a loop counter", w.recv, f.name)
		}
		if w.pendErr != "" {
			w.fail(x, "the receiver is modified before the error of the I/O call above is tested")
		}
		cur := w.state(x)
		v, _ := w.ex(rhs)
		if iv.pk == "for" {
			w.guard(fmt.Sprintf("((%s <? 0) || (zlen (g_%s %s) <=? %s))", iv.coq, f.name, cur, iv.coq), "index")
		}
		return w.flush(x, func() string {
			return fmt.Sprintf("let %s := set_g_%s %s (zupd (g_%s %s) %s %s, g_%s_spare %s) in\n  ", w.rebind(x, w.recv), f.name, cur, f.name, cur, iv.coq, v, f.name, cur) + next()
		})
	case *ast.Ident:
		// b = &BitStorage{...}
		if l.Name == w.recv && w.kind == "new" && x.Tok == token.ASSIGN {
			c, tn := w.composite(rhs)
			if tn != "BitStorage" {
				w.fail(x, "unsupported value for %s", w.recv)
			}
			return w.flush(x, func() string {
				nb := w.bindVar(w.recv, c11var{kind: "state"})
				return fmt.Sprintf("let %s := %s in\n  ", nb, c) + next()
			})
		}
		// x := make([]uint64, n): a slice of this function's own
		if call, ok := rhs.(*ast.CallExpr); ok && selName(call.Fun) == "make" && x.Tok == token.DEFINE {
			if _, exists := w.env[l.Name]; exists {
				w.fail(x, "%s is already declared", l.Name)
			}
			n := w.makeLen(call)
			return w.flush(x, func() string {
				return fmt.Sprintf("let %s := zrepeat %s in\n  ", w.bindVar(l.Name, c11var{kind: "lslice"}), n) + next()
			})
		}
		// x := f(args) with f a translated function that can panic
		if call, ok := rhs.(*ast.CallExpr); ok && selName(call.Fun) == "calcBitStorageSize" && x.Tok == token.DEFINE {
			if w.kind != "new" && w.kind != "method" {
				w.fail(x, "call of calcBitStorageSize in a %s", w.kind)
			}
			var as []string
			for _, a := range call.Args {
				v, _ := w.ex(a)
				as = append(as, v)
			}
			if len(as) != 2 {
				w.fail(x, "calcBitStorageSize with %d arguments", len(as))
			}
			return w.flush(x, func() string {
				pv := w.fresh("pv")
				pan := w.panicWith(x, pv)
				c := w.bindVar(l.Name, c11var{kind: "int", ty: c11ty{"int", true, 64}})
				return fmt.Sprintf("match c11_calcBitStorageSize %s with GPanic %s => %s | GRet %s =>\n  ", strings.Join(as, " "), pv, pan, c) + next() + " end"
			})
		}
		var v string
		var t c11ty
		switch x.Tok {
		case token.DEFINE, token.ASSIGN:
			v, t = w.ex(rhs)
		case token.ADD_ASSIGN, token.SUB_ASSIGN, token.MUL_ASSIGN:
			op := map[token.Token]token.Token{token.ADD_ASSIGN: token.ADD, token.SUB_ASSIGN: token.SUB, token.MUL_ASSIGN: token.MUL}[x.Tok]
			v, t = w.ex(&ast.BinaryExpr{X: lhs, Op: op, Y: rhs, OpPos: x.TokPos})
		default:
			w.fail(x, "unsupported assignment operator %s", x.Tok)
		}
		if x.Tok == token.DEFINE {
			if !t.sized() && t.k != "bool" {
				if tv, ok := w.info.Defs[l]; ok && tv != nil {
					if t2, ok := c11tyOf(tv.Type()); ok {
						t = t2
					}
				}
			}
			if !t.sized() && t.k != "bool" {
				w.fail(x, "type of %s is not known", l.Name)
			}
			return w.flush(x, func() string {
				k := "int"
				if t.k == "bool" {
					k = "bool"
				}
				return fmt.Sprintf("let %s := %s in\n  ", w.bindVar(l.Name, c11var{kind: k, ty: t}), v) + next()
			})
		}
		old, ok := w.env[l.Name]
		if !ok || (old.kind != "int" && old.kind != "bool") {
			w.fail(x, "assignment to %s", l.Name)
		}
		if w.pendErr == l.Name {
			w.fail(x, "assignment to the pending error variable")
		}
		return w.flush(x, func() string {
			return fmt.Sprintf("let %s := %s in\n  ", w.rebind(x, l.Name), v) + next()
		})
	}
	w.fail(x, "unsupported assignment target %T", lhs)
	return ""
}

func (w *c11w) ioAssign(x *ast.AssignStmt, call *ast.CallExpr, method string, next func() string) string {
	if (method == "WriteTo") != (w.kind == "writer") || (method == "ReadFrom") != (w.kind == "reader") {
		w.fail(x, "%s call in a %s", method, w.kind)
	}
	if w.pendErr != "" {
		w.fail(x, "the error of the previous I/O call is never tested")
	}
	if len(x.Lhs) != 2 {
		w.fail(x, "I/O call with 2 results assigned to %d targets", len(x.Lhs))
	}
	nId, ok1 := x.Lhs[0].(*ast.Ident)
	eId, ok2 := x.Lhs[1].(*ast.Ident)
	if !ok1 || !ok2 || eId.Name == "_" || nId.Name == "_" {
		w.fail(x, "results of an I/O call must be assigned to two variables")
	}
	fn, arg := w.pkCall(call, method)
	if fn == "" {
		w.fail(x, "unsupported %s call", method)
	}
	i64 := c11ty{"int", true, 64}
	bindN := func() string {
		if x.Tok == token.DEFINE {
			return w.bindVar(nId.Name, c11var{kind: "int", ty: i64})
		}
		return w.rebind(x, nId.Name)
	}
	return w.flush(x, func() string {
		var pre string
		if method == "WriteTo" {
			out := w.outVar(x)
			o := w.fresh("o")
			nb := bindN()
			eb := w.fresh(eId.Name)
			pre = fmt.Sprintf("let '(%s, %s, %s) := %s %s in\n  let %s := (%s ++ %s)%%list in\n  ", nb, eb, o, fn, arg, w.rebind(x, "c11out"), out, o)
		} else {
			p := w.fresh("p")
			nb := bindN()
			vb := w.rebind(x, arg)
			pre = fmt.Sprintf("bind %s (fun %s => let '(%s, %s) := %s in\n  ", fn, p, vb, nb, p)
		}
		w.env[eId.Name] = &c11var{coq: "", kind: "err"}
		w.pendErr = eId.Name
		body := next()
		if method == "ReadFrom" {
			body += ")"
		}
		return pre + body
	})
}

func (w *c11w) ifStmt(x *ast.IfStmt, rest []ast.Stmt, fall func() string) string {
	// the failure path of the I/O call above
	if w.isErrCheck(x) {
		r := x.Body.List[0].(*ast.ReturnStmt)
		txt := fmt.Sprintf("(* if %s != nil { return with %d results }: the failure path of the I/O call above *)\n  ", w.pendErr, len(r.Results))
		w.pendErr = ""
		return txt + w.stmts(rest, fall)
	}
	if w.pendErr != "" {
		w.fail(x, "the error of the I/O call above is never tested")
	}
	branch := func(body []ast.Stmt) string {
		save := w.snapshot()
		out := w.stmts(append(append([]ast.Stmt{}, body...), rest...), fall)
		w.env = save
		return out
	}
	var elseL []ast.Stmt
	if x.Else != nil {
		elseL = []ast.Stmt{x.Else}
	}
	// nil tests of the receiver and of the optional slice parameter
	if be, ok := x.Cond.(*ast.BinaryExpr); ok && x.Init == nil && isNil(be.Y) && (be.Op == token.EQL || be.Op == token.NEQ) {
		if id, ok := be.X.(*ast.Ident); ok {
			if v, ok := w.env[id.Name]; ok && (v.kind == "optstate" || v.kind == "optslice") {
				opt := v.coq
				nilB, someB := x.Body.List, elseL
				if be.Op == token.NEQ {
					nilB, someB = elseL, x.Body.List
				}
				a := branch(nilB) // the variable stays optional: any use is refused
				save := w.snapshot()
				kind := map[string]string{"optstate": "state", "optslice": "slice"}[v.kind]
				c := w.bindVar(id.Name, c11var{kind: kind})
				b := w.stmts(append(append([]ast.Stmt{}, someB...), rest...), fall)
				w.env = save
				return fmt.Sprintf("match %s with\n  | None => %s\n  | Some %s => %s\n  end", opt, a, c, b)
			}
		}
	}
	var pre string
	save := w.snapshot()
	if x.Init != nil {
		as, ok := x.Init.(*ast.AssignStmt)
		if !ok || as.Tok != token.DEFINE || len(as.Lhs) != 1 || len(as.Rhs) != 1 {
			w.fail(x, "unsupported if-init statement")
		}
		id, ok := as.Lhs[0].(*ast.Ident)
		if !ok {
			w.fail(x, "unsupported if-init statement")
		}
		v, t := w.ex(as.Rhs[0])
		if !t.sized() {
			w.fail(x, "unsupported if-init statement")
		}
		pre = w.flush(x, func() string { return fmt.Sprintf("let %s := %s in\n  ", w.bindVar(id.Name, c11var{kind: "int", ty: t}), v) })
	}
	cond, ct := w.ex(x.Cond)
	if ct.k != "bool" {
		w.fail(x, "condition is not boolean")
	}
	out := pre + w.flush(x, func() string {
		a := branch(x.Body.List)
		b := branch(elseL)
		return "if " + cond + "\n  then " + a + "\n  else " + b
	})
	// the init variable's scope ends with the if statement; the branches carried the rest already
	w.env = save
	return out
}

// rangeLoop: for K, V := range b.data { body }
func (w *c11w) rangeLoop(x ast.Stmt, next func() string) string {
	if w.pendErr != "" {
		w.fail(x, "the error of the I/O call above is never tested")
	}
	if w.inLoop {
		w.fail(x, "nested loop")
	}
	if w.kind != "reader" && w.kind != "writer" {
		w.fail(x, "loop in a %s", w.kind)
	}
	// two shapes: `for K, V := range b.f { body }` over the elements b.f has at loop entry, and the counted
	// loop `for i := a; i < e; i++ { body }` whose bound e the body does not change
	var xBody *ast.BlockStmt
	var f c11field
	isRange := false
	keyName, valName := "_", "_"
	var fromS, toS string
	boundIDs := map[string]bool{}
	switch y := x.(type) {
	case *ast.RangeStmt:
		isRange = true
		xBody = y.Body
		if y.Tok != token.DEFINE {
			w.fail(x, "range loop that does not declare its variables")
		}
		rsel, ok := y.X.(*ast.SelectorExpr)
		if !ok || selName(rsel.X) != w.recv || !w.field(x, rsel.Sel.Name).slice {
			w.fail(x, "range over something that is not a slice field of %s", w.recv)
		}
		f = w.field(x, rsel.Sel.Name)
		if y.Key != nil {
			keyName = selName(y.Key)
		}
		if y.Value != nil {
			valName = selName(y.Value)
		}
		if keyName == "" || valName == "" {
			w.fail(x, "unsupported range variables")
		}
	case *ast.ForStmt:
		xBody = y.Body
		init, ok1 := y.Init.(*ast.AssignStmt)
		cond, ok2 := y.Cond.(*ast.BinaryExpr)
		post, ok3 := y.Post.(*ast.IncDecStmt)
		if !ok1 || !ok2 || !ok3 || init.Tok != token.DEFINE || len(init.Lhs) != 1 || len(init.Rhs) != 1 || cond.Op != token.LSS || post.Tok != token.INC {
			w.fail(x, "unsupported for statement (only `for i := a; i < e; i++`)")
		}
		iv, okA := init.Lhs[0].(*ast.Ident)
		if !okA || selName(cond.X) != iv.Name || selName(post.X) != iv.Name || iv.Name == "_" {
			w.fail(x, "unsupported for statement (loop variable)")
		}
		if _, exists := w.env[iv.Name]; exists {
			w.fail(x, "the loop variable shadows %s", iv.Name)
		}
		keyName = iv.Name
		var ft, tt c11ty
		fromS, ft = w.ex(init.Rhs[0])
		toS, tt = w.ex(cond.Y)
		if len(w.guards) != 0 {
			w.fail(x, "an operation that can panic in a loop header")
		}
		i64 := c11ty{"int", true, 64}
		if (ft.sized() && ft != i64) || tt != i64 {
			w.fail(x, "loop counter that is not an int")
		}
		ast.Inspect(cond.Y, func(n ast.Node) bool {
			switch z := n.(type) {
			case *ast.Ident:
				boundIDs[z.Name] = true
			case *ast.SelectorExpr:
				w.fail(x, "loop bound that reads a field")
			case *ast.CallExpr:
				if _, ok := w.convType(z.Fun); !ok {
					w.fail(x, "loop bound that calls a function")
				}
			}
			return true
		})
	default:
		w.fail(x, "unsupported loop")
	}
	x0 := x
	_ = x0
	// variables of the enclosing function the body assigns (loop-carried state), in a fixed order
	assigned := map[string]bool{}
	bad := false
	ast.Inspect(xBody, func(n ast.Node) bool {
		switch y := n.(type) {
		case *ast.AssignStmt:
			for _, l := range y.Lhs {
				switch t := l.(type) {
				case *ast.Ident:
					if y.Tok != token.DEFINE {
						assigned[t.Name] = true
					}
				case *ast.SelectorExpr:
					if selName(t.X) == w.recv {
						if isRange && w.field(t, t.Sel.Name).slice {
							w.fail(y, "the ranged slice field is assigned inside the loop")
						}
						assigned[w.recv] = true
					}
				case *ast.IndexExpr:
					assigned[w.recv] = true
				}
			}
			if len(y.Rhs) == 1 {
				if call, ok := y.Rhs[0].(*ast.CallExpr); ok {
					if sel, ok := call.Fun.(*ast.SelectorExpr); ok && sel.Sel.Name == "ReadFrom" {
						if id, ok := sel.X.(*ast.Ident); ok {
							assigned[id.Name] = true
						}
					}
					if sel, ok := call.Fun.(*ast.SelectorExpr); ok && sel.Sel.Name == "WriteTo" {
						assigned["c11out"] = true
					}
				}
			}
		case *ast.IncDecStmt, *ast.BranchStmt, *ast.ForStmt, *ast.GoStmt, *ast.DeferStmt, *ast.SwitchStmt, *ast.LabeledStmt:
			bad = true
		case *ast.RangeStmt:
			if ast.Stmt(y) != x {
				bad = true
			}
		}
		return true
	})
	for n := range boundIDs {
		if assigned[n] {
			w.fail(x, "the loop assigns its own bound (%s)", n)
		}
	}
	if bad {
		w.fail(x, "unsupported statement inside the loop")
	}
	if assigned[keyName] || assigned[valName] {
		w.fail(x, "the loop assigns its own range variables")
	}
	var state []string
	for n := range assigned {
		if v, ok := w.env[n]; ok {
			switch v.kind {
			case "int", "bool", "state", "out":
				state = append(state, n)
			default:
				w.fail(x, "the loop assigns %s (a %s)", n, v.kind)
			}
		}
	}
	sort.Strings(state)
	if len(state) == 0 {
		w.fail(x, "loop without effect on the translated state")
	}
	coqTy := func(n string) string {
		switch w.env[n].kind {
		case "state":
			return "gbs"
		case "out":
			return "list Z"
		case "bool":
			return "bool"
		}
		return "Z"
	}
	w.nloops++
	loop := fmt.Sprintf("%s_loop%d", w.cname, w.nloops)
	var outer, tys []string
	for _, n := range state {
		outer = append(outer, w.env[n].coq)
		tys = append(tys, coqTy(n))
	}
	rngInit := ""
	if isRange {
		rngInit = fmt.Sprintf("(g_%s %s)", f.name, w.state(x))
	}
	// names visible at loop entry (candidates for capture)
	visible := map[string]string{}
	for n, v := range w.env {
		if v.coq != "" {
			switch v.kind {
			case "int":
				visible[v.coq] = "Z"
			case "bool":
				visible[v.coq] = "bool"
			case "state":
				visible[v.coq] = "gbs"
			case "slice", "out":
				visible[v.coq] = "list Z"
			}
		}
		_ = n
	}
	save := w.snapshot()
	k, k1 := w.fresh("k"), w.fresh("k")
	rng := w.fresh("rng")
	idxBase := "i"
	if keyName != "_" {
		idxBase = keyName
	}
	iF := w.fresh(idxBase)
	if keyName != "_" {
		role := "for"
		if isRange {
			role = "range:" + f.name
		}
		w.env[keyName] = &c11var{coq: iF, kind: "int", ty: c11ty{"int", true, 64}, pk: role}
	}
	rngArg, rngBinder := "", ""
	if isRange {
		rngArg, rngBinder = " "+rng, fmt.Sprintf(" (%s : list Z)", rng)
	}
	var formals []string
	for _, n := range state {
		formals = append(formals, w.rebind(x, n))
	}
	var pre string
	if valName != "_" {
		pre = fmt.Sprintf("let %s := znth %s %s in\n  ", w.bindVar(valName, c11var{kind: "int", ty: f.ty}), rng, iF)
	}
	w.inLoop = true
	body := pre + w.stmts(append([]ast.Stmt{}, xBody.List...), func() string {
		if w.pendErr != "" {
			w.fail(x, "the error of the last I/O call of the loop body is never tested")
		}
		var cs []string
		for _, n := range state {
			cs = append(cs, w.env[n].coq)
		}
		return "(" + loop + " \x05 " + k1 + rngArg + " (wrap_s 64 (" + iF + " + 1)) " + strings.Join(cs, " ") + ")"
	})
	w.inLoop = false
	w.env = save
	isFormal := map[string]bool{iF: true, k: true, k1: true, rng: true}
	for _, fm := range formals {
		isFormal[fm] = true
	}
	toks := strings.FieldsFunc(body, func(r rune) bool {
		return !(r == '_' || r == '\'' || r >= '0' && r <= '9' || r >= 'a' && r <= 'z' || r >= 'A' && r <= 'Z')
	})
	seen := map[string]bool{}
	var captured []string
	for _, tk := range toks {
		if seen[tk] || isFormal[tk] {
			continue
		}
		if _, ok := visible[tk]; ok {
			seen[tk] = true
			captured = append(captured, tk)
		}
	}
	sort.Strings(captured)
	var capB []string
	for _, c := range captured {
		capB = append(capB, "("+c+" : "+visible[c]+")")
	}
	capS := strings.Join(captured, " ")
	body = strings.ReplaceAll(body, "\x05", capS)
	var formB []string
	for i, fm := range formals {
		formB = append(formB, "("+fm+" : "+tys[i]+")")
	}
	zero := tuple(formals)
	if w.kind == "reader" {
		zero = "Ret " + tuple(formals)
		if len(formals) > 1 {
			zero = "Ret " + tuple(formals)
		}
	}
	fmt.Fprintf(w.aux, "(* level, a loop of func %s *)\nFixpoint %s %s (%s : nat)%s (%s : Z) %s {struct %s} :=\n  match %s with\n  | O => %s\n  | S %s => %s\n  end.\n\n",
		w.fd.Name.Name, loop, strings.Join(capB, " "), k, rngBinder, iF, strings.Join(formB, " "), k, k, zero, k1, body)
	var after []string
	for _, n := range state {
		after = append(after, w.rebind(x, n))
	}
	pat := after[0]
	if len(after) > 1 {
		pat = "'(" + strings.Join(after, ", ") + ")"
	}
	callS := fmt.Sprintf("%s %s (Z.to_nat (zlen %s)) %s (0) %s", loop, capS, rngInit, rngInit, strings.Join(outer, " "))
	if !isRange {
		callS = fmt.Sprintf("%s %s (Z.to_nat (%s - %s)) %s %s", loop, capS, toS, fromS, fromS, strings.Join(outer, " "))
	}
	if w.kind == "reader" {
		p := w.fresh("p")
		if len(after) == 1 {
			return fmt.Sprintf("bind (%s) (fun %s =>\n  ", callS, after[0]) + next() + ")"
		}
		return fmt.Sprintf("bind (%s) (fun %s => let %s := %s in\n  ", callS, p, pat, p) + next() + ")"
	}
	return fmt.Sprintf("let %s := %s in\n  ", pat, callS) + next()
}

// ---------------------------------------------------------------------------------------------- driver

type c11spec struct {
	recv, name, kind string
}

var c11Specs = []c11spec{
	{"", "calcBitStorageSize", "pure"},
	{"", "NewBitStorage", "new"},
	{"BitStorage", "Fix", "method"},
	{"BitStorage", "Len", "getter"},
	{"BitStorage", "Raw", "getter"},
	{"BitStorage", "ReadFrom", "reader"},
	{"BitStorage", "WriteTo", "writer"},
}

func c11StructFields(fset *token.FileSet, files []*ast.File, info *types.Info, name string) ([]c11field, error) {
	for _, f := range files {
		for _, d := range f.Decls {
			gd, ok := d.(*ast.GenDecl)
			if !ok || gd.Tok != token.TYPE {
				continue
			}
			for _, sp := range gd.Specs {
				ts := sp.(*ast.TypeSpec)
				if ts.Name.Name != name {
					continue
				}
				st, ok := ts.Type.(*ast.StructType)
				if !ok {
					return nil, fmt.Errorf("%s: c11: %s is not a struct", fset.Position(ts.Pos()), name)
				}
				var out []c11field
				for _, fl := range st.Fields.List {
					if len(fl.Names) == 0 {
						return nil, fmt.Errorf("%s: c11: embedded field in %s", fset.Position(fl.Pos()), name)
					}
					for _, n := range fl.Names {
						cf := c11field{name: n.Name}
						if at, ok := fl.Type.(*ast.ArrayType); ok && at.Len == nil {
							et, ok := c11tyOf(info.Types[at.Elt].Type)
							if !ok || !et.sized() {
								return nil, fmt.Errorf("%s: c11: slice field %s of unsupported element type", fset.Position(fl.Pos()), n.Name)
							}
							cf.slice, cf.ty = true, et
						} else {
							t, ok := c11tyOf(info.Types[fl.Type].Type)
							if !ok || !t.sized() {
								return nil, fmt.Errorf("%s: c11: field %s of unsupported type", fset.Position(fl.Pos()), n.Name)
							}
							cf.ty = t
						}
						out = append(out, cf)
					}
				}
				return out, nil
			}
		}
	}
	return nil, fmt.Errorf("c11: type %s not found in level", name)
}

func (t c11ty) goName() string {
	if !t.sized() {
		return t.k
	}
	if t.signed {
		return fmt.Sprintf("int%d", t.w)
	}
	return fmt.Sprintf("uint%d", t.w)
}

func genC11(repo string) (out string, err error) {
	defer func() {
		if r := recover(); r != nil {
			if te, ok := r.(trErr); ok {
				err = te
				return
			}
			panic(r)
		}
	}()
	fset := token.NewFileSet()
	files, _, e := parseDir(fset, filepath.Join(repo, "level"))
	if e != nil {
		return "", e
	}
	conf := types.Config{Importer: &fakeImporter{map[string]*types.Package{}}, Error: func(error) {}}
	info := &types.Info{Types: map[ast.Expr]types.TypeAndValue{}, Defs: map[*ast.Ident]types.Object{}, Uses: map[*ast.Ident]types.Object{}}
	conf.Check("level", fset, files, info)
	// the declared types of pk.VarInt and pk.Long, from net/packet
	pfset := token.NewFileSet()
	pfiles, _, e := parseDir(pfset, filepath.Join(repo, "net/packet"))
	if e != nil {
		return "", e
	}
	pkTypes := map[string]c11ty{}
	for _, f := range pfiles {
		for _, d := range f.Decls {
			gd, ok := d.(*ast.GenDecl)
			if !ok || gd.Tok != token.TYPE {
				continue
			}
			for _, sp := range gd.Specs {
				ts := sp.(*ast.TypeSpec)
				if ts.Name.Name != "VarInt" && ts.Name.Name != "Long" {
					continue
				}
				id, ok := ts.Type.(*ast.Ident)
				if !ok {
					return "", fmt.Errorf("%s: c11: pk.%s is not declared as a basic integer type", pfset.Position(ts.Pos()), ts.Name.Name)
				}
				t, ok := map[string]c11ty{"int32": {"int", true, 32}, "int64": {"int", true, 64}, "int16": {"int", true, 16}, "int8": {"int", true, 8},
					"uint32": {"int", false, 32}, "uint64": {"int", false, 64}, "uint16": {"int", false, 16}, "uint8": {"int", false, 8}, "int": {"int", true, 64}}[id.Name]
				if !ok {
					return "", fmt.Errorf("%s: c11: pk.%s is declared as %s", pfset.Position(ts.Pos()), ts.Name.Name, id.Name)
				}
				pkTypes[ts.Name.Name] = t
			}
		}
	}
	if len(pkTypes) != 2 {
		return "", fmt.Errorf("c11: declarations of pk.VarInt and pk.Long not found")
	}
	fields, e := c11StructFields(fset, files, info, "BitStorage")
	if e != nil {
		return "", e
	}
	errF, e := c11StructFields(fset, files, info, "newBitStorageErr")
	if e != nil {
		return "", e
	}
	var errNames []string
	for _, f := range errF {
		if f.slice {
			return "", fmt.Errorf("c11: slice field in newBitStorageErr")
		}
		errNames = append(errNames, f.name)
	}

	var b bytes.Buffer
	b.WriteString("(* GENERATED by tools/gotrans (c11.go) from level/bitstorage.go of the repository working tree - do not edit *)\n")
	b.WriteString("From Coq Require Import ZArith NArith Bool List.\nFrom GoMC Require Import Base.Bytes Base.Dec Base.GoInt Model.C06_syntax Gen.C06gen Model.C11_syntax.\nImport ListNotations.\nLocal Open Scope Z_scope.\nLocal Open Scope bool_scope.\n\n")
	// the struct as a record
	b.WriteString("(* level, type BitStorage struct {")
	for i, f := range fields {
		if i > 0 {
			b.WriteString(";")
		}
		if f.slice {
			fmt.Fprintf(&b, " %s []%s", f.name, f.ty.goName())
		} else {
			fmt.Fprintf(&b, " %s %s", f.name, f.ty.goName())
		}
	}
	b.WriteString(" } *)\nRecord gbs : Type := mkG {")
	var binders []string
	for i, f := range fields {
		if i > 0 {
			b.WriteString(";")
		}
		if f.slice {
			fmt.Fprintf(&b, " g_%s : list Z; g_%s_spare : list Z", f.name, f.name)
			binders = append(binders, "g_"+f.name, "g_"+f.name+"_spare")
		} else {
			fmt.Fprintf(&b, " g_%s : Z", f.name)
			binders = append(binders, "g_"+f.name)
		}
	}
	b.WriteString(" }.\n")
	for _, f := range fields {
		var as []string
		for _, g := range fields {
			if g.name == f.name {
				if f.slice {
					as = append(as, "(fst v)", "(snd v)")
				} else {
					as = append(as, "v")
				}
				continue
			}
			as = append(as, "(g_"+g.name+" b)")
			if g.slice {
				as = append(as, "(g_"+g.name+"_spare b)")
			}
		}
		vt := "Z"
		if f.slice {
			vt = "list Z * list Z"
		}
		fmt.Fprintf(&b, "Definition set_g_%s (b : gbs) (v : %s) : gbs := mkG %s.\n", f.name, vt, strings.Join(as, " "))
	}
	b.WriteString("\n(* level, type newBitStorageErr struct {")
	for i, f := range errF {
		if i > 0 {
			b.WriteString(";")
		}
		fmt.Fprintf(&b, " %s %s", f.name, f.ty.goName())
	}
	b.WriteString(" }; GV_runtime stands for every run-time panic *)\nInductive gval : Type := GV_runtime | GV_newBitStorageErr")
	for _, f := range errF {
		fmt.Fprintf(&b, " (%s : Z)", f.name)
	}
	b.WriteString(".\n\n")

	for _, sp := range c11Specs {
		fd := findFunc(files, sp.recv, sp.name)
		if fd == nil || fd.Body == nil {
			return "", fmt.Errorf("c11: function level %s.%s not found", sp.recv, sp.name)
		}
		cname := "c11_"
		if sp.recv != "" {
			cname += sp.recv + "_"
		}
		cname += sp.name
		aux := &bytes.Buffer{}
		w := &c11w{fset: fset, info: info, fd: fd, cname: cname, kind: sp.kind, env: map[string]*c11var{}, used: map[string]int{},
			fields: fields, errFlds: errNames, pkTypes: pkTypes, aux: aux}
		for _, r := range []string{"wrap_s", "wrap_u", "Z", "N", "bool", "true", "false", "negb", "fst", "snd", "if", "then", "else", "let", "in", "fun", "at", "as", "end", "match", "with", "return", "Type", "Set", "Prop", "forall", "exists", "bind", "Ret", "Fail", "Crash", "gbs", "mkG", "zlen", "znth", "zupd", "ztake", "zdrop", "zrepeat", "zcopy", "Some", "None", "GRet", "GPanic"} {
			w.used[r] = 1
		}
		var params []string
		// does the body test the receiver against nil?
		recvOpt := false
		if fd.Recv != nil {
			if len(fd.Recv.List) != 1 || len(fd.Recv.List[0].Names) != 1 {
				return "", fmt.Errorf("%s: c11: unsupported receiver", fset.Position(fd.Pos()))
			}
			if _, ok := fd.Recv.List[0].Type.(*ast.StarExpr); !ok {
				return "", fmt.Errorf("%s: c11: value receiver", fset.Position(fd.Pos()))
			}
			w.recv = fd.Recv.List[0].Names[0].Name
			ast.Inspect(fd.Body, func(n ast.Node) bool {
				if be, ok := n.(*ast.BinaryExpr); ok && isNil(be.Y) && selName(be.X) == w.recv {
					recvOpt = true
				}
				return true
			})
			if recvOpt {
				params = append(params, fmt.Sprintf("(%s : option gbs)", w.bindVar(w.recv, c11var{kind: "optstate"})))
			} else {
				params = append(params, fmt.Sprintf("(%s : gbs)", w.bindVar(w.recv, c11var{kind: "state"})))
			}
		}
		for _, f := range fd.Type.Params.List {
			for _, n := range f.Names {
				ts := types.ExprString(f.Type)
				switch {
				case ts == "io.Reader" && sp.kind == "reader" && n.Name == "r":
				case ts == "io.Writer" && sp.kind == "writer" && n.Name == "w":
				case ts == "[]uint64":
					params = append(params, fmt.Sprintf("(%s : option (list Z))", w.bindVar(n.Name, c11var{kind: "optslice"})))
				default:
					t, ok := c11tyOf(info.Types[f.Type].Type)
					if !ok || !t.sized() {
						return "", fmt.Errorf("%s: c11: parameter %s of unsupported type %s", fset.Position(f.Pos()), n.Name, ts)
					}
					params = append(params, fmt.Sprintf("(%s : Z)", w.bindVar(n.Name, c11var{kind: "int", ty: t})))
				}
			}
		}
		// results
		var resTypes []string
		var inits string
		if fd.Type.Results != nil {
			for _, f := range fd.Type.Results.List {
				resTypes = append(resTypes, types.ExprString(f.Type))
				for _, n := range f.Names {
					switch {
					case sp.kind == "new" && types.ExprString(f.Type) == "*BitStorage":
						w.recv = n.Name // nil until assigned: not bound
					case sp.kind == "pure":
						t, ok := c11tyOf(info.Types[f.Type].Type)
						if !ok || !t.sized() {
							return "", fmt.Errorf("%s: c11: unsupported named result", fset.Position(f.Pos()))
						}
						inits += fmt.Sprintf("let %s := (0) in\n  ", w.bindVar(n.Name, c11var{kind: "int", ty: t}))
					default:
						return "", fmt.Errorf("%s: c11: named results in a %s", fset.Position(f.Pos()), sp.kind)
					}
				}
				if len(f.Names) > 1 {
					return "", fmt.Errorf("%s: c11: several results in one declaration", fset.Position(f.Pos()))
				}
			}
		}
		w.nres = len(resTypes)
		want := map[string]string{"pure": "int", "new": "*BitStorage", "method": "error", "reader": "int64 error", "writer": "int64 error"}[sp.kind]
		got := strings.Join(resTypes, " ")
		var rt string
		switch sp.kind {
		case "getter":
			switch got {
			case "int":
				rt = "Z"
			case "[]uint64":
				rt = "list Z"
				w.resSlice = true
			default:
				return "", fmt.Errorf("%s: c11: accessor %s returns %s", fset.Position(fd.Pos()), sp.name, got)
			}
		default:
			if got != want {
				return "", fmt.Errorf("%s: c11: %s returns (%s), expected (%s)", fset.Position(fd.Pos()), sp.name, got, want)
			}
			rt = map[string]string{"pure": "gres gval Z", "new": "gres gval gbs", "method": "gbs * gres gval (option gval)", "reader": "dec (gbs * Z)", "writer": "Z * N * list Z"}[sp.kind]
		}
		if sp.kind == "writer" {
			inits += fmt.Sprintf("let %s := (@nil Z) in\n  ", w.bindVar("c11out", c11var{kind: "out"}))
		}
		body := inits + w.stmts(fd.Body.List, func() string {
			w.fail(fd, "control reaches the end of %s", sp.name)
			return ""
		})
		if w.ext {
			params = append([]string{"(packet_VarInt_ReadFrom : dec (Z * Z))"}, params...)
		}
		b.WriteString(aux.String())
		fmt.Fprintf(&b, "(* level, func %s *)\nDefinition %s %s : %s :=\n  %s.\n\n", strings.TrimPrefix(sp.recv+"."+sp.name, "."), cname, strings.Join(params, " "), rt, body)
	}
	return b.String(), nil
}

func emitC11(repo, outdir string) {
	s, err := genC11(repo)
	if err != nil {
		fmt.Fprintln(os.Stderr, "gotrans: c11:", err)
		os.Exit(1)
	}
	if err := writeIfChanged(filepath.Join(outdir, "C11gen.v"), s); err != nil {
		fmt.Fprintln(os.Stderr, "gotrans:", err)
		os.Exit(1)
	}
}
