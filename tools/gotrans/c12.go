package main

// c12.go: translation of level/palette.go (property C12) into coq/Gen/C12gen.v, regenerated on every run.
//
// Every function listed in c12Funcs is rendered, statement by statement and in source order, as a term of
// the types gstmt / gexpr / gfunc of coq/Model/C12_syntax.v: one constructor per AST node, identifiers,
// operators, field and method names as strings, integer literals as Z, type expressions (composite
// literal types, the first argument of make, parameter / result / var types) as their source text.
// Parentheses are dropped (the tree carries the grouping).  Nothing is interpreted here: the meaning is
// given by the interpreter of Model/C12_syntax.v, the obligations are in Proofs/C12_expected.v (recorded
// copies, `*_skel_ok`) and Proofs/C12_skel*.v (interpretation lemmas against Model/C12.v).
//
// Any node kind outside the grammar (closures, defer, go, labels, type switches, channel operations,
// declarations with initialisers, ...) and any listed function that is missing make gotrans exit
// non-zero with file:line - a broken correspondence, never a guess.

import (
	"bytes"
	"fmt"
	"go/ast"
	"go/parser"
	"go/printer"
	"go/token"
	"os"
	"path/filepath"
	"strconv"
	"strings"
)

type c12Fn struct{ recv, name string }

var c12Funcs = []c12Fn{
	{"PaletteContainer", "Get"},
	{"PaletteContainer", "Set"},
	{"PaletteContainer", "ReadFrom"},
	{"PaletteContainer", "WriteTo"},
	{"statesCfg", "bits"},
	{"statesCfg", "create"},
	{"biomesCfg", "bits"},
	{"biomesCfg", "create"},
	{"singleValuePalette", "id"},
	{"singleValuePalette", "value"},
	{"singleValuePalette", "ReadFrom"},
	{"singleValuePalette", "WriteTo"},
	{"linearPalette", "id"},
	{"linearPalette", "value"},
	{"linearPalette", "ReadFrom"},
	{"linearPalette", "WriteTo"},
	{"hashPalette", "id"},
	{"hashPalette", "value"},
	{"hashPalette", "ReadFrom"},
	{"hashPalette", "WriteTo"},
	{"globalPalette", "id"},
	{"globalPalette", "value"},
	{"globalPalette", "ReadFrom"},
	{"globalPalette", "WriteTo"},
	{"", "NewStatesPaletteContainer"},
	{"", "NewStatesPaletteContainerWithData"},
	{"", "NewBiomesPaletteContainer"},
	{"", "NewBiomesPaletteContainerWithData"},
	{"", "withCap"},
	{"", "resolveIndirect"},
}

type c12ctx struct {
	fset *token.FileSet
}

type c12Err struct{ msg string }

func (c *c12ctx) fail(n ast.Node, format string, a ...any) {
	panic(c12Err{fmt.Sprintf("%s: %s", c.fset.Position(n.Pos()), fmt.Sprintf(format, a...))})
}

func c12q(s string) string { return "\"" + strings.ReplaceAll(s, "\"", "\"\"") + "\"" }

func (c *c12ctx) text(n ast.Node) string {
	var b bytes.Buffer
	if err := printer.Fprint(&b, c.fset, n); err != nil {
		c.fail(n, "cannot print node: %v", err)
	}
	return strings.Join(strings.Fields(b.String()), " ")
}

func c12list(xs []string) string { return "[" + strings.Join(xs, "; ") + "]" }

func (c *c12ctx) exprs(es []ast.Expr) string {
	out := make([]string, len(es))
	for i, e := range es {
		out[i] = c.expr(e)
	}
	return c12list(out)
}

func (c *c12ctx) optExpr(e ast.Expr) string {
	if e == nil {
		return "[]"
	}
	return "[" + c.expr(e) + "]"
}

func (c *c12ctx) expr(e ast.Expr) string {
	switch x := e.(type) {
	case *ast.BasicLit:
		switch x.Kind {
		case token.INT:
			v, err := strconv.ParseInt(x.Value, 0, 64)
			if err != nil {
				c.fail(x, "integer literal %s", x.Value)
			}
			return fmt.Sprintf("(EInt (%d))", v)
		case token.STRING:
			s, err := strconv.Unquote(x.Value)
			if err != nil {
				c.fail(x, "string literal %s", x.Value)
			}
			for i := 0; i < len(s); i++ {
				if s[i] < 32 || s[i] > 126 {
					c.fail(x, "string literal with a non-printable byte")
				}
			}
			return "(EStr " + c12q(s) + ")"
		}
		c.fail(x, "literal kind %s", x.Kind)
	case *ast.Ident:
		return "(EId " + c12q(x.Name) + ")"
	case *ast.ParenExpr:
		return c.expr(x.X)
	case *ast.SelectorExpr:
		return "(ESel " + c.expr(x.X) + " " + c12q(x.Sel.Name) + ")"
	case *ast.StarExpr:
		return "(EUn \"*\" " + c.expr(x.X) + ")"
	case *ast.UnaryExpr:
		switch x.Op {
		case token.SUB, token.NOT, token.AND, token.XOR, token.ADD:
			return "(EUn " + c12q(x.Op.String()) + " " + c.expr(x.X) + ")"
		}
		c.fail(x, "unary operator %s", x.Op)
	case *ast.BinaryExpr:
		return "(EBin " + c12q(x.Op.String()) + " " + c.expr(x.X) + " " + c.expr(x.Y) + ")"
	case *ast.IndexExpr:
		return "(EIndex " + c.expr(x.X) + " " + c.expr(x.Index) + ")"
	case *ast.SliceExpr:
		if x.Slice3 {
			c.fail(x, "3-index slice")
		}
		return "(ESlice " + c.expr(x.X) + " " + c.optExpr(x.Low) + " " + c.optExpr(x.High) + ")"
	case *ast.CallExpr:
		if x.Ellipsis.IsValid() {
			c.fail(x, "call with ...")
		}
		if id, ok := x.Fun.(*ast.Ident); ok && id.Name == "make" {
			if len(x.Args) < 1 {
				c.fail(x, "make without a type")
			}
			return "(EMake " + c12q(c.text(x.Args[0])) + " " + c.exprs(x.Args[1:]) + ")"
		}
		return "(ECall " + c.expr(x.Fun) + " " + c.exprs(x.Args) + ")"
	case *ast.CompositeLit:
		if x.Type == nil {
			c.fail(x, "composite literal without a type")
		}
		var fs []string
		for _, el := range x.Elts {
			if kv, ok := el.(*ast.KeyValueExpr); ok {
				k, ok := kv.Key.(*ast.Ident)
				if !ok {
					c.fail(kv, "composite literal key that is not a field name")
				}
				fs = append(fs, "("+c12q(k.Name)+", "+c.expr(kv.Value)+")")
			} else {
				fs = append(fs, "(\"\", "+c.expr(el)+")")
			}
		}
		return "(ELit " + c12q(c.text(x.Type)) + " " + c12list(fs) + ")"
	}
	c.fail(e, "expression of kind %T", e)
	return ""
}

func (c *c12ctx) block(b *ast.BlockStmt, ind string) string {
	if b == nil {
		return "[]"
	}
	return c.stmts(b.List, ind)
}

func (c *c12ctx) stmts(ss []ast.Stmt, ind string) string {
	if len(ss) == 0 {
		return "[]"
	}
	out := make([]string, len(ss))
	for i, s := range ss {
		out[i] = ind + "  " + c.stmt(s, ind+"  ")
	}
	return "[\n" + strings.Join(out, ";\n") + " ]"
}

func (c *c12ctx) optStmt(s ast.Stmt, ind string) string {
	if s == nil {
		return "[]"
	}
	return "[" + c.stmt(s, ind) + "]"
}

func (c *c12ctx) stmt(s ast.Stmt, ind string) string {
	switch x := s.(type) {
	case *ast.AssignStmt:
		if x.Tok == token.DEFINE {
			names := make([]string, len(x.Lhs))
			for i, l := range x.Lhs {
				id, ok := l.(*ast.Ident)
				if !ok {
					c.fail(l, ":= with a left side that is not an identifier")
				}
				names[i] = c12q(id.Name)
			}
			return "SDefine " + c12list(names) + " " + c.exprs(x.Rhs)
		}
		return "SAssign " + c.exprs(x.Lhs) + " " + c12q(x.Tok.String()) + " " + c.exprs(x.Rhs)
	case *ast.DeclStmt:
		gd, ok := x.Decl.(*ast.GenDecl)
		if !ok || gd.Tok != token.VAR || len(gd.Specs) != 1 {
			c.fail(x, "declaration statement other than a single var")
		}
		vs := gd.Specs[0].(*ast.ValueSpec)
		if len(vs.Values) != 0 || vs.Type == nil {
			c.fail(x, "var with an initialiser or without a type")
		}
		names := make([]string, len(vs.Names))
		for i, n := range vs.Names {
			names[i] = c12q(n.Name)
		}
		return "SVar " + c12list(names) + " " + c12q(c.text(vs.Type))
	case *ast.IfStmt:
		el := "[]"
		switch e := x.Else.(type) {
		case nil:
		case *ast.BlockStmt:
			el = c.block(e, ind)
		case *ast.IfStmt:
			el = "[\n" + ind + "  " + c.stmt(e, ind+"  ") + " ]"
		default:
			c.fail(x, "else branch of kind %T", x.Else)
		}
		return "SIf " + c.optStmt(x.Init, ind) + " " + c.expr(x.Cond) + " " + c.block(x.Body, ind) + " " + el
	case *ast.ForStmt:
		return "SFor " + c.optStmt(x.Init, ind) + " " + c.optExpr(x.Cond) + " " + c.optStmt(x.Post, ind) + " " + c.block(x.Body, ind)
	case *ast.RangeStmt:
		if x.Tok != token.DEFINE {
			c.fail(x, "range without :=")
		}
		name := func(e ast.Expr) string {
			if e == nil {
				return "_"
			}
			id, ok := e.(*ast.Ident)
			if !ok {
				c.fail(e, "range variable that is not an identifier")
			}
			return id.Name
		}
		return "SRange " + c12q(name(x.Key)) + " " + c12q(name(x.Value)) + " " + c.expr(x.X) + " " + c.block(x.Body, ind)
	case *ast.SwitchStmt:
		if x.Init != nil {
			c.fail(x, "switch with an init statement")
		}
		var cs []string
		for _, cl := range x.Body.List {
			cc, ok := cl.(*ast.CaseClause)
			if !ok {
				c.fail(cl, "switch clause of kind %T", cl)
			}
			for _, b := range cc.Body {
				if br, ok := b.(*ast.BranchStmt); ok {
					c.fail(br, "%s inside a switch", br.Tok)
				}
			}
			cs = append(cs, ind+"  ("+c.exprs(cc.List)+", "+c.stmts(cc.Body, ind+"  ")+")")
		}
		return "SSwitch " + c.optExpr(x.Tag) + " [\n" + strings.Join(cs, ";\n") + " ]"
	case *ast.ReturnStmt:
		return "SReturn " + c.exprs(x.Results)
	case *ast.ExprStmt:
		return "SExpr " + c.expr(x.X)
	case *ast.IncDecStmt:
		inc := "false"
		if x.Tok == token.INC {
			inc = "true"
		}
		return "SIncDec " + c.expr(x.X) + " " + inc
	}
	c.fail(s, "statement of kind %T", s)
	return ""
}

func (c *c12ctx) fields(fl *ast.FieldList) string {
	if fl == nil {
		return "[]"
	}
	var out []string
	for _, f := range fl.List {
		ty := c12q(c.text(f.Type))
		if len(f.Names) == 0 {
			out = append(out, "(\"\", "+ty+")")
		}
		for _, n := range f.Names {
			out = append(out, "("+c12q(n.Name)+", "+ty+")")
		}
	}
	return c12list(out)
}

// c12RecvTypeName: the receiver's type name without pointer and type parameters
func c12RecvTypeName(e ast.Expr) string {
	switch x := e.(type) {
	case *ast.StarExpr:
		return c12RecvTypeName(x.X)
	case *ast.IndexExpr:
		return c12RecvTypeName(x.X)
	case *ast.IndexListExpr:
		return c12RecvTypeName(x.X)
	case *ast.Ident:
		return x.Name
	}
	return ""
}

func genC12(repo string) (out string, err error) {
	defer func() {
		if r := recover(); r != nil {
			if e, ok := r.(c12Err); ok {
				err = fmt.Errorf("%s", e.msg)
				return
			}
			panic(r)
		}
	}()
	c := &c12ctx{fset: token.NewFileSet()}
	path := filepath.Join(repo, "level", "palette.go")
	f, perr := parser.ParseFile(c.fset, path, nil, parser.SkipObjectResolution)
	if perr != nil {
		return "", perr
	}
	decls := map[string]*ast.FuncDecl{}
	for _, d := range f.Decls {
		fd, ok := d.(*ast.FuncDecl)
		if !ok {
			continue
		}
		key := fd.Name.Name
		if fd.Recv != nil && len(fd.Recv.List) == 1 {
			key = c12RecvTypeName(fd.Recv.List[0].Type) + "." + key
		}
		if _, dup := decls[key]; dup {
			return "", fmt.Errorf("%s: two declarations of %s", path, key)
		}
		decls[key] = fd
	}
	var b bytes.Buffer
	b.WriteString("(* GENERATED by tools/gotrans (c12.go) from level/palette.go - do not edit *)\n")
	b.WriteString("From Coq Require Import List String ZArith.\n")
	b.WriteString("From GoMC Require Import Model.C12_syntax.\n")
	b.WriteString("Import ListNotations.\nLocal Open Scope string_scope.\nLocal Open Scope Z_scope.\n\n")
	var names []string
	for _, fn := range c12Funcs {
		key := fn.name
		if fn.recv != "" {
			key = fn.recv + "." + fn.name
		}
		fd := decls[key]
		if fd == nil || fd.Body == nil {
			return "", fmt.Errorf("%s: function %s not found", path, key)
		}
		coq := "pal_" + strings.ReplaceAll(key, ".", "_")
		names = append(names, coq)
		recv := "(\"\", \"\")"
		if fd.Recv != nil {
			r := fd.Recv.List[0]
			rn := "_"
			if len(r.Names) == 1 {
				rn = r.Names[0].Name
			}
			recv = "(" + c12q(rn) + ", " + c12q(c.text(r.Type)) + ")"
		}
		if fd.Type.TypeParams != nil && fd.Recv == nil {
			// generic functions: the type parameters are part of the name text
			coqTP := c.text(fd.Type.TypeParams.List[0].Type)
			_ = coqTP
		}
		fmt.Fprintf(&b, "(* level/palette.go:%d  %s *)\n", c.fset.Position(fd.Pos()).Line, key)
		fmt.Fprintf(&b, "Definition %s : gfunc :=\n  {| g_recv := %s; g_name := %s;\n     g_params := %s;\n     g_results := %s;\n     g_body := %s |}.\n\n",
			coq, recv, c12q(fd.Name.Name), c.fields(fd.Type.Params), c.fields(fd.Type.Results), c.stmts(fd.Body.List, "      "))
	}
	// every function declared in the file must be either translated or explicitly left out
	skipped := map[string]bool{"PaletteContainer.Palette": true, "singleValuePalette.export": true, "linearPalette.export": true,
		"hashPalette.export": true, "globalPalette.export": true}
	listed := map[string]bool{}
	for _, fn := range c12Funcs {
		k := fn.name
		if fn.recv != "" {
			k = fn.recv + "." + fn.name
		}
		listed[k] = true
	}
	for k, fd := range decls {
		if !listed[k] && !skipped[k] {
			return "", fmt.Errorf("%s: function %s is neither translated nor on the skip list", c.fset.Position(fd.Pos()), k)
		}
	}
	fmt.Fprintf(&b, "Definition pal_translated : list (string * gfunc) :=\n  [%s].\n", func() string {
		var xs []string
		for _, n := range names {
			xs = append(xs, "("+c12q(n)+", "+n+")")
		}
		return strings.Join(xs, ";\n   ")
	}())
	return b.String(), nil
}

func emitC12(repo, outdir string) {
	s, err := genC12(repo)
	if err != nil {
		fmt.Fprintln(os.Stderr, "gotrans: c12:", err)
		os.Exit(1)
	}
	if err := writeIfChanged(filepath.Join(outdir, "C12gen.v"), s); err != nil {
		fmt.Fprintln(os.Stderr, "gotrans:", err)
		os.Exit(1)
	}
}
