package main

// c13.go: translation of level/chunk.go (property C13) into coq/Gen/C13gen.v:
//
//   - the body of every function of the file as a statement tree (`gstmt` of coq/Model/C13_syntax.v):
//     simple statements as rendered text, if / for / range structured.  Only the statement kinds that
//     occur today are accepted (assignment, define, inc/dec, expression, return, var declaration, if,
//     for, range); anything else makes gotrans fail;
//   - the elements of the `pk.Tuple{...}` literal of Section / BlockEntity / lightData / Chunk WriteTo and
//     ReadFrom as lists of `cfield`, in source order (the wire order); every element must have one of
//     the shapes of `cfield` EXACTLY;
//   - the height-map tables: which key ChunkFromSave reads for which field, which key ChunkToSave writes
//     from which field, which decoded array Chunk.ReadFrom stores into which field, the struct tags of the
//     two network height maps;
//   - integer expressions and conditions, funcs.go-style, as named definitions over Z / bool with an
//     explicit wrap_s / wrap_u after every + - * << and conversion according to the Go type of the
//     result (go/types; the `save` package is type-checked first so that v.Y, c.YPos have their types):
//     PackXZ / UnpackXZ, the section index and bounds test of ChunkFromSave, the block-entity coordinates,
//     the height-map width and size tests of ChunkFromSave and Chunk.ReadFrom, Y of ChunkToSave, the
//     sizes of EmptyChunk and of the light masks, the counter updates of SetBlock, the loop bound of
//     countNoneAirBlocks.
//
// Fails loudly (non-zero exit, file:line) on any shape it does not understand.

import (
	"bytes"
	"fmt"
	"go/ast"
	"go/constant"
	"go/printer"
	"go/token"
	"go/types"
	"os"
	"path/filepath"
	"strconv"
	"strings"
)

type c13ctx struct {
	fset  *token.FileSet
	info  *types.Info
	file  *ast.File
	fn    string
	out   bytes.Buffer
	free  []string // free variables of the current expression (name:sort)
	freeS map[string]bool
}

type c13err struct{ msg string }

func (c *c13ctx) fail(n ast.Node, f string, a ...any) {
	panic(c13err{fmt.Sprintf("%s: %s: %s", c.fset.Position(n.Pos()), c.fn, fmt.Sprintf(f, a...))})
}

func (c *c13ctx) txt(n ast.Node) string {
	var b bytes.Buffer
	if err := printer.Fprint(&b, c.fset, n); err != nil {
		c.fail(n, "cannot render: %v", err)
	}
	return strings.Join(strings.Fields(b.String()), " ")
}

func c13q(s string) string { return "\"" + strings.ReplaceAll(s, "\"", "\"\"") + "\"" }

// ---------------------------------------------------------------- statement trees

func (c *c13ctx) stmts(list []ast.Stmt, ind string) string {
	var items []string
	for _, s := range list {
		items = append(items, c.stmt(s, ind+"  "))
	}
	if len(items) == 0 {
		return "[]"
	}
	return "[\n" + ind + "  " + strings.Join(items, ";\n"+ind+"  ") + "\n" + ind + "]"
}

func (c *c13ctx) stmt(s ast.Stmt, ind string) string {
	switch x := s.(type) {
	case *ast.AssignStmt, *ast.IncDecStmt, *ast.ExprStmt, *ast.ReturnStmt, *ast.DeclStmt:
		return "GS " + c13q(c.txt(x))
	case *ast.IfStmt:
		init := ""
		if x.Init != nil {
			init = c.txt(x.Init)
		}
		el := "[]"
		switch e := x.Else.(type) {
		case nil:
		case *ast.BlockStmt:
			el = c.stmts(e.List, ind)
		case *ast.IfStmt:
			el = "[" + c.stmt(e, ind) + "]"
		default:
			c.fail(x, "else branch of kind %T", x.Else)
		}
		return "GIf " + c13q(init) + " " + c13q(c.txt(x.Cond)) + " " + c.stmts(x.Body.List, ind) + " " + el
	case *ast.ForStmt:
		hdr := ""
		if x.Init != nil {
			hdr += c.txt(x.Init)
		}
		hdr += "; "
		if x.Cond != nil {
			hdr += c.txt(x.Cond)
		}
		hdr += "; "
		if x.Post != nil {
			hdr += c.txt(x.Post)
		}
		return "GFor " + c13q(hdr) + " " + c.stmts(x.Body.List, ind)
	case *ast.RangeStmt:
		hdr := ""
		if x.Key != nil {
			hdr = c.txt(x.Key)
			if x.Value != nil {
				hdr += ", " + c.txt(x.Value)
			}
			hdr += " " + x.Tok.String() + " "
		}
		hdr += "range " + c.txt(x.X)
		return "GFor " + c13q(hdr) + " " + c.stmts(x.Body.List, ind)
	}
	c.fail(s, "statement of kind %T is not translated", s)
	return ""
}

func c13recvName(fd *ast.FuncDecl) string {
	if fd.Recv == nil || len(fd.Recv.List) == 0 {
		return ""
	}
	t := fd.Recv.List[0].Type
	if st, ok := t.(*ast.StarExpr); ok {
		t = st.X
	}
	if id, ok := t.(*ast.Ident); ok {
		return id.Name
	}
	return "?"
}

func c13name(fd *ast.FuncDecl) string {
	if r := c13recvName(fd); r != "" {
		return r + "_" + fd.Name.Name
	}
	return fd.Name.Name
}

func (c *c13ctx) fun(name string) *ast.FuncDecl {
	for _, d := range c.file.Decls {
		if fd, ok := d.(*ast.FuncDecl); ok && c13name(fd) == name {
			return fd
		}
	}
	panic(c13err{"level/chunk.go: function " + name + " not found"})
}

// ---------------------------------------------------------------- tuple elements

func (c *c13ctx) findTuple(fd *ast.FuncDecl) *ast.CompositeLit {
	var found *ast.CompositeLit
	ast.Inspect(fd.Body, func(n ast.Node) bool {
		if cl, ok := n.(*ast.CompositeLit); ok {
			if sel, ok := cl.Type.(*ast.SelectorExpr); ok && sel.Sel.Name == "Tuple" {
				if found != nil {
					c.fail(cl, "more than one pk.Tuple literal")
				}
				found = cl
			}
		}
		return true
	})
	if found == nil {
		c.fail(fd, "no pk.Tuple literal")
	}
	return found
}

func (c *c13ctx) structTag(f *ast.Field) string {
	if f.Tag == nil {
		c.fail(f, "struct field without a tag")
	}
	s, err := strconv.Unquote(f.Tag.Value)
	if err != nil || !strings.HasPrefix(s, "nbt:\"") || !strings.HasSuffix(s, "\"") {
		c.fail(f, "struct tag %s is not nbt:\"...\"", f.Tag.Value)
	}
	return s[5 : len(s)-1]
}

func (c *c13ctx) field(e ast.Expr) string {
	switch x := e.(type) {
	case *ast.Ident, *ast.SelectorExpr:
		return "FSel " + c13q(c.txt(x))
	case *ast.UnaryExpr:
		if x.Op != token.AND {
			c.fail(e, "tuple element %s", c.txt(e))
		}
		if cl, ok := x.X.(*ast.CompositeLit); ok {
			var fs []string
			for _, el := range cl.Elts {
				kv, ok := el.(*ast.KeyValueExpr)
				if !ok {
					c.fail(el, "composite element without a key")
				}
				fs = append(fs, "("+c13q(c.txt(kv.Key))+", "+c13q(c.txt(kv.Value))+")")
			}
			return "FNew " + c13q(c.txt(cl.Type)) + " [" + strings.Join(fs, "; ") + "]"
		}
		return "FAddr " + c13q(c.txt(x.X))
	case *ast.CallExpr:
		if len(x.Args) != 1 {
			c.fail(e, "tuple element %s", c.txt(e))
		}
		arg := x.Args[0]
		// ( *pk.T)(&sel)
		if p, ok := x.Fun.(*ast.ParenExpr); ok {
			st, ok1 := p.X.(*ast.StarExpr)
			u, ok2 := arg.(*ast.UnaryExpr)
			if !ok1 || !ok2 || u.Op != token.AND {
				c.fail(e, "tuple element %s", c.txt(e))
			}
			return "FPtrConv " + c13q(c.txt(st.X)) + " " + c13q(c.txt(u.X))
		}
		f := c.txt(x.Fun)
		// pk.NBT(struct{...}{...})
		if cl, ok := arg.(*ast.CompositeLit); ok {
			st, ok := cl.Type.(*ast.StructType)
			if !ok || f != "pk.NBT" {
				c.fail(e, "tuple element %s", c.txt(e))
			}
			tags := map[string]string{}
			var order []string
			for _, fl := range st.Fields.List {
				if len(fl.Names) != 1 {
					c.fail(fl, "struct field list")
				}
				tags[fl.Names[0].Name] = c.structTag(fl)
				order = append(order, fl.Names[0].Name)
			}
			vals := map[string]string{}
			for _, el := range cl.Elts {
				kv, ok := el.(*ast.KeyValueExpr)
				if !ok {
					c.fail(el, "composite element without a key")
				}
				vals[c.txt(kv.Key)] = c.txt(kv.Value)
			}
			var fs []string
			for _, n := range order { // the encoder walks the struct fields in declaration order
				v, ok := vals[n]
				if !ok {
					c.fail(cl, "field %s has no value", n)
				}
				fs = append(fs, "("+c13q(n)+", "+c13q(tags[n])+", "+c13q(v)+")")
			}
			if len(vals) != len(order) {
				c.fail(cl, "values for unknown fields")
			}
			return "FNBTStruct [" + strings.Join(fs, "; ") + "]"
		}
		if u, ok := arg.(*ast.UnaryExpr); ok && u.Op == token.AND {
			return "FCallAddr " + c13q(f) + " " + c13q(c.txt(u.X))
		}
		switch arg.(type) {
		case *ast.Ident, *ast.SelectorExpr:
		default:
			c.fail(e, "tuple element %s", c.txt(e))
		}
		if strings.HasPrefix(f, "pk.") && f != "pk.NBT" && f != "pk.Array" {
			return "FConv " + c13q(f) + " " + c13q(c.txt(arg))
		}
		return "FCall " + c13q(f) + " " + c13q(c.txt(arg))
	}
	c.fail(e, "tuple element %s of kind %T", c.txt(e), e)
	return ""
}

func (c *c13ctx) emitTuple(name string) {
	fd := c.fun(name)
	c.fn = name
	cl := c.findTuple(fd)
	var fs []string
	for _, el := range cl.Elts {
		fs = append(fs, c.field(el))
	}
	fmt.Fprintf(&c.out, "Definition c13_%s_fields : list cfield := [\n  %s\n].\n\n", name, strings.Join(fs, ";\n  "))
}

// ---------------------------------------------------------------- expressions

func (c *c13ctx) useVar(name, sort string) string {
	id := "g_" + strings.NewReplacer(".", "_", "(", "_", ")", "", "[", "_", "]", "").Replace(name)
	key := id + ":" + sort
	if !c.freeS[key] {
		c.freeS[key] = true
		c.free = append(c.free, key)
	}
	return id
}

// a local defined by `x := bits.Len(...)` is an int (math/bits is a stub for go/types here)
func (c *c13ctx) definedByBitsLen(id *ast.Ident) bool {
	found := false
	ast.Inspect(c.fun(c.fn).Body, func(n ast.Node) bool {
		if as, ok := n.(*ast.AssignStmt); ok && as.Tok == token.DEFINE && len(as.Lhs) == 1 && len(as.Rhs) == 1 {
			if l, ok := as.Lhs[0].(*ast.Ident); ok && l.Name == id.Name {
				if call, ok := as.Rhs[0].(*ast.CallExpr); ok && isBitsLen(call) {
					found = true
				}
			}
		}
		return true
	})
	return found
}

func (c *c13ctx) intType(e ast.Expr) (signed bool, width int) {
	if id, ok := e.(*ast.Ident); ok && c.definedByBitsLen(id) {
		return true, 64
	}
	tv, ok := c.info.Types[e]
	if !ok || tv.Type == nil || tv.Type == types.Typ[types.Invalid] {
		// inside the argument of a call go/types could not resolve (bits.Len): type by structure
		switch x := e.(type) {
		case *ast.ParenExpr:
			return c.intType(x.X)
		case *ast.BasicLit:
			if x.Kind == token.INT {
				return true, 64
			}
		case *ast.BinaryExpr:
			if _, isLit := x.X.(*ast.BasicLit); isLit && x.Op != token.SHL && x.Op != token.SHR {
				return c.intType(x.Y)
			}
			return c.intType(x.X)
		case *ast.CallExpr:
			if id, ok := x.Fun.(*ast.Ident); ok && len(x.Args) == 1 {
				if id.Name == "len" {
					return true, 64
				}
				if b, ok := types.Universe.Lookup(id.Name).(*types.TypeName); ok {
					if s, w, ok := intKind(b.Type()); ok {
						return s, w
					}
				}
			}
		}
		c.fail(e, "no type for %s", c.txt(e))
	}
	s, w, ok := intKind(tv.Type)
	if !ok {
		if b, okb := tv.Type.Underlying().(*types.Basic); okb && b.Info()&types.IsUntyped != 0 {
			return true, 64
		}
		c.fail(e, "%s has the non-integer type %s", c.txt(e), tv.Type)
	}
	return s, w
}

func (c *c13ctx) wrapAs(e ast.Expr, s string) string {
	sg, w := c.intType(e)
	if sg {
		return fmt.Sprintf("(wrap_s %d %s)", w, s)
	}
	return fmt.Sprintf("(wrap_u %d %s)", w, s)
}

func isBitsLen(x *ast.CallExpr) bool {
	sel, ok := x.Fun.(*ast.SelectorExpr)
	if !ok || sel.Sel.Name != "Len" {
		return false
	}
	id, ok := sel.X.(*ast.Ident)
	return ok && id.Name == "bits"
}

// iexpr: an integer expression
func (c *c13ctx) iexpr(e ast.Expr) string {
	if tv, ok := c.info.Types[e]; ok && tv.Value != nil && tv.Value.Kind() == constant.Int {
		return "(" + tv.Value.ExactString() + ")"
	}
	switch x := e.(type) {
	case *ast.ParenExpr:
		return c.iexpr(x.X)
	case *ast.BasicLit:
		if x.Kind == token.INT {
			if v := constant.MakeFromLiteral(x.Value, token.INT, 0); v.Kind() == constant.Int {
				return "(" + v.ExactString() + ")"
			}
		}
	case *ast.Ident:
		c.intType(x)
		return c.useVar(x.Name, "Z")
	case *ast.SelectorExpr:
		c.intType(x)
		return c.useVar(c.txt(x), "Z")
	case *ast.BinaryExpr:
		a, b := c.iexpr(x.X), c.iexpr(x.Y)
		switch x.Op {
		case token.ADD:
			return c.wrapAs(e, "("+a+" + "+b+")")
		case token.SUB:
			return c.wrapAs(e, "("+a+" - "+b+")")
		case token.MUL:
			return c.wrapAs(e, "("+a+" * "+b+")")
		case token.SHL:
			return c.wrapAs(e, "(Z.shiftl "+a+" "+b+")")
		case token.SHR:
			return "(Z.shiftr " + a + " " + b + ")"
		case token.AND:
			return "(Z.land " + a + " " + b + ")"
		case token.OR:
			return "(Z.lor " + a + " " + b + ")"
		}
		c.fail(e, "integer operator %s", x.Op)
	case *ast.CallExpr:
		if len(x.Args) == 1 {
			if tv, ok := c.info.Types[x.Fun]; ok && tv.IsType() { // conversion
				if _, _, ok := intKind(tv.Type); !ok {
					c.fail(e, "conversion to %s", tv.Type)
				}
				return c.wrapAs(e, c.iexpr(x.Args[0]))
			}
			if id, ok := x.Fun.(*ast.Ident); ok && id.Name != "len" {
				if b, ok := types.Universe.Lookup(id.Name).(*types.TypeName); ok {
					if _, _, ok := intKind(b.Type()); ok {
						return c.wrapAs(e, c.iexpr(x.Args[0]))
					}
				}
			}
			if id, ok := x.Fun.(*ast.Ident); ok && id.Name == "len" {
				return c.useVar("len("+c.txt(x.Args[0])+")", "Z")
			}
			if isBitsLen(x) {
				return "(go_bits_len " + c.iexpr(x.Args[0]) + ")"
			}
		}
		if id, ok := x.Fun.(*ast.Ident); ok && id.Name == "calcBitStorageSize" && len(x.Args) == 2 {
			return "(level_calcBitStorageSize " + c.iexpr(x.Args[0]) + " " + c.iexpr(x.Args[1]) + ")"
		}
		c.fail(e, "call %s in an integer expression", c.txt(e))
	}
	c.fail(e, "integer expression %s of kind %T", c.txt(e), e)
	return ""
}

// bexpr: a condition
func (c *c13ctx) bexpr(e ast.Expr) string {
	switch x := e.(type) {
	case *ast.ParenExpr:
		return c.bexpr(x.X)
	case *ast.UnaryExpr:
		if x.Op == token.NOT {
			return "(negb " + c.bexpr(x.X) + ")"
		}
	case *ast.BinaryExpr:
		switch x.Op {
		case token.LOR:
			return "(" + c.bexpr(x.X) + " || " + c.bexpr(x.Y) + ")"
		case token.LAND:
			return "(" + c.bexpr(x.X) + " && " + c.bexpr(x.Y) + ")"
		}
		if id, ok := x.Y.(*ast.Ident); ok && id.Name == "nil" { // x != nil / x == nil
			v := c.useVar(c.txt(x.X)+"_is_nil", "bool")
			if x.Op == token.NEQ {
				return "(negb " + v + ")"
			}
			if x.Op == token.EQL {
				return v
			}
		}
		a, b := c.iexpr(x.X), c.iexpr(x.Y)
		switch x.Op {
		case token.LSS:
			return "(" + a + " <? " + b + ")"
		case token.GTR:
			return "(" + b + " <? " + a + ")"
		case token.LEQ:
			return "(" + a + " <=? " + b + ")"
		case token.GEQ:
			return "(" + b + " <=? " + a + ")"
		case token.EQL:
			return "(" + a + " =? " + b + ")"
		case token.NEQ:
			return "(negb (" + a + " =? " + b + "))"
		}
	}
	c.fail(e, "condition %s", c.txt(e))
	return ""
}

func (c *c13ctx) emitExpr(role string, e ast.Expr, boolean bool) {
	c.free, c.freeS = nil, map[string]bool{}
	var body, ty string
	if boolean {
		body, ty = c.bexpr(e), "bool"
	} else {
		body, ty = c.iexpr(e), "Z"
	}
	params := ""
	for _, f := range c.free {
		p := strings.SplitN(f, ":", 2)
		params += " (" + p[0] + " : " + p[1] + ")"
	}
	fmt.Fprintf(&c.out, "(* %s: %s *)\nDefinition c13_%s_%s%s : %s :=\n  %s.\n\n", c.fn, c.txt(e), c.fn, role, params, ty, body)
}

// finders (all fail when the shape is not there exactly once)
func (c *c13ctx) assignRHS(fd *ast.FuncDecl, lhs string, idx int) ast.Expr {
	var found []ast.Expr
	ast.Inspect(fd.Body, func(n ast.Node) bool {
		if as, ok := n.(*ast.AssignStmt); ok && len(as.Lhs) == len(as.Rhs) {
			for i, l := range as.Lhs {
				if c.txt(l) == lhs {
					found = append(found, as.Rhs[i])
				}
			}
		}
		return true
	})
	if len(found) != 1 {
		c.fail(fd, "%d assignments to %s (one expected)", len(found), lhs)
	}
	_ = idx
	return found[0]
}

func (c *c13ctx) ifConds(fd *ast.FuncDecl) []*ast.IfStmt {
	var out []*ast.IfStmt
	ast.Inspect(fd.Body, func(n ast.Node) bool {
		if s, ok := n.(*ast.IfStmt); ok {
			out = append(out, s)
		}
		return true
	})
	return out
}

// the `if` whose condition, rendered, contains every given fragment
func (c *c13ctx) condWith(fd *ast.FuncDecl, frags ...string) ast.Expr {
	var found []ast.Expr
	for _, s := range c.ifConds(fd) {
		t := c.txt(s.Cond)
		ok := true
		for _, f := range frags {
			if !strings.Contains(t, f) {
				ok = false
			}
		}
		if ok {
			found = append(found, s.Cond)
		}
	}
	if len(found) != 1 {
		c.fail(fd, "%d conditions mentioning %v (one expected)", len(found), frags)
	}
	return found[0]
}

func (c *c13ctx) callArgs(fd *ast.FuncDecl, fun string) [][]ast.Expr {
	var out [][]ast.Expr
	ast.Inspect(fd.Body, func(n ast.Node) bool {
		if x, ok := n.(*ast.CallExpr); ok && c.txt(x.Fun) == fun {
			out = append(out, x.Args)
		}
		return true
	})
	return out
}

// ---------------------------------------------------------------- height-map tables

func (c *c13ctx) tables() {
	// ChunkFromSave: HeightMaps{F: NewBitStorage(bitsForHeight, 16*16, c.Heightmaps["KEY"])}
	c.fn = "ChunkFromSave"
	fd := c.fun("ChunkFromSave")
	var rows []string
	ast.Inspect(fd.Body, func(n ast.Node) bool {
		cl, ok := n.(*ast.CompositeLit)
		if !ok || c.txt(cl.Type) != "HeightMaps" {
			return true
		}
		for _, el := range cl.Elts {
			kv, ok := el.(*ast.KeyValueExpr)
			if !ok {
				c.fail(el, "HeightMaps element without a key")
			}
			call, ok := kv.Value.(*ast.CallExpr)
			if !ok || c.txt(call.Fun) != "NewBitStorage" || len(call.Args) != 3 {
				c.fail(kv, "HeightMaps field value %s", c.txt(kv.Value))
			}
			ix, ok := call.Args[2].(*ast.IndexExpr)
			if !ok || c.txt(ix.X) != "c.Heightmaps" {
				c.fail(kv, "HeightMaps data %s", c.txt(call.Args[2]))
			}
			lit, ok := ix.Index.(*ast.BasicLit)
			if !ok || lit.Kind != token.STRING {
				c.fail(kv, "HeightMaps key %s", c.txt(ix.Index))
			}
			key, _ := strconv.Unquote(lit.Value)
			rows = append(rows, "("+c13q(c.txt(kv.Key))+", "+c13q(key)+", "+c13q(c.txt(call.Args[0]))+", "+c13q(c.txt(call.Args[1]))+")")
		}
		return false
	})
	if len(rows) == 0 {
		c.fail(fd, "no HeightMaps literal")
	}
	fmt.Fprintf(&c.out, "(* ChunkFromSave: field, key it is loaded from, width argument, length argument *)\nDefinition c13_ChunkFromSave_heightmaps : list (string * string * string * string) := [\n  %s\n].\n\n", strings.Join(rows, ";\n  "))

	// ChunkToSave: dst.Heightmaps["KEY"] = c.HeightMaps.F.Raw()
	c.fn = "ChunkToSave"
	fd = c.fun("ChunkToSave")
	rows = nil
	ast.Inspect(fd.Body, func(n ast.Node) bool {
		as, ok := n.(*ast.AssignStmt)
		if !ok || len(as.Lhs) != 1 {
			return true
		}
		ix, ok := as.Lhs[0].(*ast.IndexExpr)
		if !ok || c.txt(ix.X) != "dst.Heightmaps" {
			return true
		}
		lit, ok := ix.Index.(*ast.BasicLit)
		if !ok || lit.Kind != token.STRING {
			c.fail(as, "height-map key %s", c.txt(ix.Index))
		}
		key, _ := strconv.Unquote(lit.Value)
		r := c.txt(as.Rhs[0])
		if !strings.HasPrefix(r, "c.HeightMaps.") || !strings.HasSuffix(r, ".Raw()") {
			c.fail(as, "height-map value %s", r)
		}
		rows = append(rows, "("+c13q(key)+", "+c13q(strings.TrimSuffix(strings.TrimPrefix(r, "c.HeightMaps."), ".Raw()"))+")")
		return true
	})
	if len(rows) == 0 {
		c.fail(fd, "no height-map assignment")
	}
	fmt.Fprintf(&c.out, "(* ChunkToSave: key, field stored under it *)\nDefinition c13_ChunkToSave_heightmaps : list (string * string) := [\n  %s\n].\n\n", strings.Join(rows, ";\n  "))

	// Chunk.ReadFrom: c.HeightMaps.F = NewBitStorage(bitsForHeight, 16*16, heightmaps.G) and the struct tags
	c.fn = "Chunk_ReadFrom"
	fd = c.fun("Chunk_ReadFrom")
	rows = nil
	ast.Inspect(fd.Body, func(n ast.Node) bool {
		as, ok := n.(*ast.AssignStmt)
		if !ok || len(as.Lhs) != 1 || !strings.HasPrefix(c.txt(as.Lhs[0]), "c.HeightMaps.") {
			return true
		}
		call, ok := as.Rhs[0].(*ast.CallExpr)
		if !ok || c.txt(call.Fun) != "NewBitStorage" || len(call.Args) != 3 {
			c.fail(as, "height-map value %s", c.txt(as.Rhs[0]))
		}
		rows = append(rows, "("+c13q(strings.TrimPrefix(c.txt(as.Lhs[0]), "c.HeightMaps."))+", "+c13q(c.txt(call.Args[2]))+", "+c13q(c.txt(call.Args[0]))+", "+c13q(c.txt(call.Args[1]))+")")
		return true
	})
	fmt.Fprintf(&c.out, "(* Chunk.ReadFrom: field, decoded array stored into it, width argument, length argument *)\nDefinition c13_Chunk_ReadFrom_heightmaps : list (string * string * string * string) := [\n  %s\n].\n\n", strings.Join(rows, ";\n  "))
	rows = nil
	ast.Inspect(fd.Body, func(n ast.Node) bool {
		vs, ok := n.(*ast.ValueSpec)
		if !ok || len(vs.Names) != 1 || vs.Names[0].Name != "heightmaps" {
			return true
		}
		st, ok := vs.Type.(*ast.StructType)
		if !ok {
			c.fail(vs, "heightmaps is not a struct")
		}
		for _, fl := range st.Fields.List {
			if len(fl.Names) != 1 {
				c.fail(fl, "struct field list")
			}
			rows = append(rows, "("+c13q(fl.Names[0].Name)+", "+c13q(c.structTag(fl))+", "+c13q(c.txt(fl.Type))+")")
		}
		return false
	})
	if len(rows) == 0 {
		c.fail(fd, "no heightmaps struct")
	}
	fmt.Fprintf(&c.out, "(* Chunk.ReadFrom: the destination struct of the height-map NBT: field, tag, type *)\nDefinition c13_Chunk_ReadFrom_struct : list (string * string * string) := [\n  %s\n].\n\n", strings.Join(rows, ";\n  "))
}

// ---------------------------------------------------------------- driver

func checkPkg(fset *token.FileSet, repo, rel, path string, imp *fakeImporter, info *types.Info) (*types.Package, []*ast.File, error) {
	files, _, err := parseDir(fset, filepath.Join(repo, rel))
	if err != nil {
		return nil, nil, err
	}
	conf := types.Config{Importer: imp, Error: func(error) {}}
	pkg, _ := conf.Check(path, fset, files, info)
	if pkg == nil {
		return nil, nil, fmt.Errorf("cannot type-check %s", rel)
	}
	return pkg, files, nil
}

func genC13(repo string) (out string, err error) {
	defer func() {
		if r := recover(); r != nil {
			if e, ok := r.(c13err); ok {
				err = fmt.Errorf("%s", e.msg)
				return
			}
			panic(r)
		}
	}()
	fset := token.NewFileSet()
	imp := &fakeImporter{map[string]*types.Package{}}
	savePkg, _, err := checkPkg(fset, repo, "save", "github.com/Tnze/go-mc/save", imp, &types.Info{})
	if err != nil {
		return "", err
	}
	imp.pkgs["github.com/Tnze/go-mc/save"] = savePkg
	info := &types.Info{Types: map[ast.Expr]types.TypeAndValue{}, Defs: map[*ast.Ident]types.Object{}, Uses: map[*ast.Ident]types.Object{}}
	_, files, err := checkPkg(fset, repo, "level", "github.com/Tnze/go-mc/level", imp, info)
	if err != nil {
		return "", err
	}
	c := &c13ctx{fset: fset, info: info}
	for _, f := range files {
		if strings.HasSuffix(fset.Position(f.Pos()).Filename, "/chunk.go") {
			c.file = f
		}
	}
	if c.file == nil {
		return "", fmt.Errorf("level/chunk.go not found")
	}
	c.out.WriteString("(* GENERATED by tools/gotrans (c13.go) from level/chunk.go - do not edit *)\n")
	c.out.WriteString("From Coq Require Import ZArith Bool List String.\nFrom GoMC Require Import Base.GoInt Gen.Funcs Model.C13_syntax.\nImport ListNotations.\nLocal Open Scope string_scope.\nLocal Open Scope Z_scope.\nLocal Open Scope bool_scope.\n\n")

	// ---- every function body
	var names []string
	for _, d := range c.file.Decls {
		fd, ok := d.(*ast.FuncDecl)
		if !ok || fd.Body == nil {
			continue
		}
		c.fn = c13name(fd)
		names = append(names, c.fn)
		fmt.Fprintf(&c.out, "Definition c13_%s_body : list gstmt :=\n  %s.\n\n", c.fn, c.stmts(fd.Body.List, "  "))
	}
	fmt.Fprintf(&c.out, "Definition c13_functions : list string := [%s].\n\n", strings.Join(func() []string {
		var q []string
		for _, n := range names {
			q = append(q, c13q(n))
		}
		return q
	}(), "; "))

	// ---- wire order
	for _, n := range []string{"Section_WriteTo", "Section_ReadFrom", "BlockEntity_WriteTo", "BlockEntity_ReadFrom",
		"lightData_WriteTo", "lightData_ReadFrom", "Chunk_WriteTo", "Chunk_ReadFrom"} {
		c.emitTuple(n)
	}
	c.tables()

	// ---- expressions
	c.fn = "BlockEntity_PackXZ"
	fd := c.fun(c.fn)
	c.emitExpr("reject", c.condWith(fd, "X", "Z"), true)
	c.emitExpr("value", c.assignRHS(fd, "b.XZ", 0), false)
	c.fn = "BlockEntity_UnpackXZ"
	fd = c.fun(c.fn)
	{
		var ret *ast.ReturnStmt
		for _, s := range fd.Body.List {
			if r, ok := s.(*ast.ReturnStmt); ok {
				ret = r
			}
		}
		if ret == nil || len(ret.Results) != 2 || len(fd.Body.List) != 1 {
			c.fail(fd, "body is not `return X, Z`")
		}
		c.emitExpr("X", ret.Results[0], false)
		c.emitExpr("Z", ret.Results[1], false)
	}
	c.fn = "ChunkFromSave"
	fd = c.fun(c.fn)
	c.emitExpr("index", c.assignRHS(fd, "i", 0), false)
	c.emitExpr("out_of_bounds", c.condWith(fd, "i <", "secs"), true)
	c.emitExpr("x", c.assignRHS(fd, "x", 0), false)
	c.emitExpr("z", c.assignRHS(fd, "z", 0), false)
	c.emitExpr("entity_y", c.assignRHS(fd, "blockEntities[i].Y", 0), false)
	c.emitExpr("bitsForHeight", c.assignRHS(fd, "bitsForHeight", 0), false)
	c.emitExpr("wantLen", c.assignRHS(fd, "wantLen", 0), false)
	c.emitExpr("bad_heightmap", c.condWith(fd, "hm != nil"), true)
	c.fn = "ChunkToSave"
	fd = c.fun(c.fn)
	c.emitExpr("Y", c.assignRHS(fd, "s.Y", 0), false)
	c.fn = "Chunk_ReadFrom"
	fd = c.fun(c.fn)
	c.emitExpr("bitsForHeight", c.assignRHS(fd, "bitsForHeight", 0), false)
	c.emitExpr("wantLen", c.assignRHS(fd, "wantLen", 0), false)
	c.emitExpr("bad_heightmap", c.condWith(fd, "hm != nil"), true)
	for i, args := range c.callArgs(fd, "make") {
		if len(args) != 2 {
			c.fail(fd, "make with %d arguments", len(args))
		}
		c.emitExpr("mask_len_"+strconv.Itoa(i), args[1], false)
	}
	c.fn = "Chunk_WriteTo"
	fd = c.fun(c.fn)
	for i, args := range c.callArgs(fd, "make") {
		if len(args) != 2 {
			c.fail(fd, "make with %d arguments", len(args))
		}
		c.emitExpr("mask_len_"+strconv.Itoa(i), args[1], false)
	}
	c.fn = "EmptyChunk"
	fd = c.fun(c.fn)
	for _, f := range []string{"NewStatesPaletteContainer", "NewBiomesPaletteContainer"} {
		calls := c.callArgs(fd, f)
		if len(calls) != 1 || len(calls[0]) != 2 {
			c.fail(fd, "%d calls of %s", len(calls), f)
		}
		c.emitExpr(f+"_length", calls[0][0], false)
		c.emitExpr(f+"_default", calls[0][1], false)
	}
	for i, args := range c.callArgs(fd, "NewBitStorage") {
		if len(args) != 3 || c.txt(args[2]) != "nil" {
			c.fail(fd, "NewBitStorage arguments")
		}
		c.emitExpr("heightmap_bits_"+strconv.Itoa(i), args[0], false)
		c.emitExpr("heightmap_len_"+strconv.Itoa(i), args[1], false)
	}
	for _, pr := range [][2]string{{"readStatesPalette", "NewStatesPaletteContainerWithData"}, {"readBiomesPalette", "NewBiomesPaletteContainerWithData"}} {
		c.fn = pr[0]
		fd = c.fun(c.fn)
		calls := c.callArgs(fd, pr[1])
		if len(calls) != 1 || len(calls[0]) != 3 {
			c.fail(fd, "%d calls of %s", len(calls), pr[1])
		}
		c.emitExpr("length", calls[0][0], false)
	}
	c.fn = "countNoneAirBlocks"
	fd = c.fun(c.fn)
	{
		var loop *ast.ForStmt
		for _, s := range fd.Body.List {
			if f, ok := s.(*ast.ForStmt); ok {
				loop = f
			}
		}
		if loop == nil || loop.Cond == nil {
			c.fail(fd, "no counted loop")
		}
		be, ok := loop.Cond.(*ast.BinaryExpr)
		if !ok || be.Op != token.LSS {
			c.fail(loop, "loop condition %s", c.txt(loop.Cond))
		}
		c.emitExpr("bound", be.Y, false)
		// blockCount++ on the named int16 result
		n := 0
		ast.Inspect(loop.Body, func(nd ast.Node) bool {
			if st, ok := nd.(*ast.IncDecStmt); ok {
				if c.txt(st.X) != "blockCount" || st.Tok != token.INC {
					c.fail(st, "inc/dec %s", c.txt(st))
				}
				sg, w := c.intType(st.X)
				if !sg {
					c.fail(st, "unsigned counter")
				}
				n++
				fmt.Fprintf(&c.out, "(* countNoneAirBlocks: %s *)\nDefinition c13_countNoneAirBlocks_inc (g_blockCount : Z) : Z :=\n  (wrap_s %d (g_blockCount + 1)).\n\n", c.txt(st), w)
			}
			return true
		})
		if n != 1 {
			c.fail(loop, "%d counter updates (one expected)", n)
		}
	}
	// SetBlock: s.BlockCount-- / s.BlockCount++ on an int16
	c.fn = "Section_SetBlock"
	fd = c.fun(c.fn)
	{
		var ops []string
		ast.Inspect(fd.Body, func(n ast.Node) bool {
			if s, ok := n.(*ast.IncDecStmt); ok {
				if c.txt(s.X) != "s.BlockCount" {
					c.fail(s, "inc/dec of %s", c.txt(s.X))
				}
				sg, w := c.intType(s.X)
				if !sg {
					c.fail(s, "unsigned counter")
				}
				op := "+"
				if s.Tok == token.DEC {
					op = "-"
				}
				ops = append(ops, s.Tok.String())
				fmt.Fprintf(&c.out, "(* Section_SetBlock: %s *)\nDefinition c13_Section_SetBlock_%s (g_s_BlockCount : Z) : Z :=\n  (wrap_s %d (g_s_BlockCount %s 1)).\n\n", c.txt(s), map[string]string{"+": "inc", "-": "dec"}[op], w, op)
			}
			return true
		})
		if strings.Join(ops, "") != "--++" {
			c.fail(fd, "counter updates %v (-- then ++ expected)", ops)
		}
	}
	return c.out.String(), nil
}

func emitC13(repo, outdir string) {
	s, err := genC13(repo)
	if err != nil {
		fmt.Fprintln(os.Stderr, "gotrans: c13:", err)
		os.Exit(1)
	}
	if err := writeIfChanged(filepath.Join(outdir, "C13gen.v"), s); err != nil {
		fmt.Fprintln(os.Stderr, "gotrans:", err)
		os.Exit(1)
	}
}
