package main

// c14.go: translation of save/region/mca.go (properties C14 and C15) into coq/Gen/C14gen.v:
//
//   - Load, CreateWriter, ReadSector, WriteSector, ExistSector, PadToFullSector, findSpace, setHead: each body
//     becomes a list of statements of the type `rstmt` of coq/Model/C14_syntax.v, IN SOURCE ORDER.  Every
//     statement must match one of the shapes below EXACTLY (the table reads of Load, the occupancy loop with
//     its bounds test, the four checks of ReadSector, the free / findSpace / mark / setHead / timestamp /
//     Seek / length / data sequence of WriteSector, ...); any other statement or expression makes gotrans
//     fail (non-zero exit, file:line), which the check reports as a broken correspondence;
//   - every integer expression and every condition of these bodies is translated funcs.go-style into a NAMED
//     Gallina definition over Z (`c14_<function>_<role>`): constants folded by go/types, an explicit
//     wrap_s / wrap_u after every + - * << and conversion according to the Go type of the result, / and % as
//     Z.quot / Z.rem.  The statement carries the definition applied to the variables it mentions
//     (fun v => c14_f_x (v Vn) (v Vneed)) plus the rendered source text;
//   - a table access must be written r.offsets[z][x] / r.Timestamps[z][x] (z first): anything else fails;
//   - writeAt (the WriterAt / Seek+Write alternative) as rendered text.
//
// go/parser + go/types with the stub importer of main.go; what the stub importer cannot type
// (r.f.Seek, time.Now().Unix()) is typed here from the signatures of io.Seeker and time.Time.

import (
	"bytes"
	"fmt"
	"go/ast"
	"go/constant"
	"go/printer"
	"go/token"
	"go/types"
	"os"
	"path/filepath"
	"strconv"
	"strings"
)

type c14ctx struct {
	fset    *token.FileSet
	info    *types.Info
	files   []*ast.File
	fn      string
	defs    bytes.Buffer
	used    map[string]int
	free    []string
	freeSet map[string]bool
	localTy map[string]types.Type
}

type c14err struct{ msg string }

func (c *c14ctx) fail(n ast.Node, f string, a ...any) {
	panic(c14err{fmt.Sprintf("%s: %s: %s", c.fset.Position(n.Pos()), c.fn, fmt.Sprintf(f, a...))})
}

// the integer variables of Model/C14_syntax.v, by their Go spelling
var c14vars = map[string]string{
	"x": "Vx", "z": "Vz", "need": "Vneed", "n": "Vn", "now": "Vnow", "sec": "Vsec", "num": "Vnum",
	"length": "Vlength", "size": "Vsize", "i": "Vi", "o": "Vo", "s": "Vs", "v": "Vv",
	"offset": "Voffset", "timestamp": "Vtimestamp", "oldN": "VoldN", "oldNow": "VoldNow", "off": "Voff",
	"len(data)": "VlenData", "r.offsets[z][x]": "Vtab",
}

func (c *c14ctx) txt(n ast.Node) string {
	var b bytes.Buffer
	if err := printer.Fprint(&b, c.fset, n); err != nil {
		c.fail(n, "cannot render: %v", err)
	}
	s := strings.Join(strings.Fields(b.String()), " ")
	if strings.ContainsAny(s, "\\") {
		c.fail(n, "text with a backslash cannot be rendered")
	}
	return s
}

func c14q(s string) string { return "\"" + strings.ReplaceAll(s, "\"", "\"\"") + "\"" }

func (c *c14ctx) v(n ast.Node, key string) string {
	fv, ok := c14vars[key]
	if !ok {
		c.fail(n, "%s is not a variable of Model/C14_syntax.v", key)
	}
	if !c.freeSet[fv] {
		c.freeSet[fv] = true
		c.free = append(c.free, fv)
	}
	return "v" + strings.TrimPrefix(fv, "V")
}

var c14int, c14int64, c14int32 = types.Typ[types.Int], types.Typ[types.Int64], types.Typ[types.Int32]

func c14isInt(t types.Type) bool {
	_, _, ok := intKind(t)
	return ok
}

func (c *c14ctx) typeOf1(e ast.Expr) types.Type {
	switch x := e.(type) {
	case *ast.ParenExpr:
		return c.typeOf1(x.X)
	case *ast.Ident:
		if t, ok := c.localTy[c.fn+"."+x.Name]; ok {
			return t
		}
	case *ast.CallExpr:
		if id, ok := x.Fun.(*ast.Ident); ok && id.Name == "len" {
			return c14int
		}
	}
	if tv, ok := c.info.Types[e]; ok && tv.Type != nil {
		if c14isInt(tv.Type) {
			return tv.Type
		}
		if b, ok := tv.Type.Underlying().(*types.Basic); ok && b.Info()&types.IsUntyped != 0 {
			return tv.Type
		}
	}
	if be, ok := e.(*ast.BinaryExpr); ok {
		if be.Op == token.SHL || be.Op == token.SHR {
			return c.typeOf1(be.X)
		}
		tx, ty := c.typeOf1(be.X), c.typeOf1(be.Y)
		if c14isInt(tx) {
			return tx
		}
		if c14isInt(ty) {
			return ty
		}
	}
	return nil
}

func (c *c14ctx) typeOf(e ast.Expr) types.Type {
	t := c.typeOf1(e)
	if t == nil || !c14isInt(t) {
		c.fail(e, "no sized integer type for %s", c.txt(e))
	}
	return t
}

func (c *c14ctx) wrap(e ast.Expr, ty types.Type, s string) string {
	signed, w, ok := intKind(ty)
	if !ok {
		c.fail(e, "result type %v of %s is not a sized integer type", ty, c.txt(e))
	}
	if signed {
		return fmt.Sprintf("(wrap_s %d %s)", w, s)
	}
	return fmt.Sprintf("(wrap_u %d %s)", w, s)
}

// expr: an integer or boolean expression over the variables of c14vars
func (c *c14ctx) expr(e ast.Expr) string {
	if tv, ok := c.info.Types[e]; ok && tv.Value != nil {
		switch tv.Value.Kind() {
		case constant.Int:
			return zlit(tv.Value)
		case constant.Bool:
			return strconv.FormatBool(constant.BoolVal(tv.Value))
		}
		c.fail(e, "constant of unsupported kind")
	}
	switch x := e.(type) {
	case *ast.BasicLit:
		if x.Kind == token.INT {
			return "(" + x.Value + ")"
		}
	case *ast.ParenExpr:
		return c.expr(x.X)
	case *ast.Ident:
		return c.v(e, x.Name)
	case *ast.IndexExpr:
		t := c.txt(e)
		if t != "r.offsets[z][x]" {
			c.fail(e, "table access %s is not r.offsets[z][x]", t)
		}
		return c.v(e, t)
	case *ast.CallExpr:
		if tv, ok := c.info.Types[x.Fun]; ok && tv.IsType() {
			if len(x.Args) != 1 {
				c.fail(e, "conversion with %d arguments", len(x.Args))
			}
			return c.wrap(e, tv.Type, c.expr(x.Args[0]))
		}
		if id, ok := x.Fun.(*ast.Ident); ok && id.Name == "len" && len(x.Args) == 1 && c.txt(x.Args[0]) == "data" {
			return c.v(e, "len(data)")
		}
		c.fail(e, "call %s is not translated", c.txt(e))
	case *ast.UnaryExpr:
		switch x.Op {
		case token.NOT:
			return "(negb " + c.expr(x.X) + ")"
		case token.SUB:
			return c.wrap(e, c.typeOf(e), "(- "+c.expr(x.X)+")")
		}
		c.fail(e, "unary operator %s", x.Op)
	case *ast.BinaryExpr:
		switch x.Op {
		case token.LAND:
			return "(" + c.expr(x.X) + " && " + c.expr(x.Y) + ")"
		case token.LOR:
			return "(" + c.expr(x.X) + " || " + c.expr(x.Y) + ")"
		}
		a, b := c.expr(x.X), c.expr(x.Y)
		switch x.Op {
		case token.ADD:
			return c.wrap(e, c.typeOf(e), "("+a+" + "+b+")")
		case token.SUB:
			return c.wrap(e, c.typeOf(e), "("+a+" - "+b+")")
		case token.MUL:
			return c.wrap(e, c.typeOf(e), "("+a+" * "+b+")")
		case token.QUO:
			return c.wrap(e, c.typeOf(e), "(Z.quot "+a+" "+b+")")
		case token.REM:
			return "(Z.rem " + a + " " + b + ")"
		case token.SHL:
			return c.wrap(e, c.typeOf(e), "(Z.shiftl "+a+" "+b+")")
		case token.OR:
			return "(Z.lor " + a + " " + b + ")"
		case token.AND:
			return "(Z.land " + a + " " + b + ")"
		case token.EQL:
			return "(" + a + " =? " + b + ")"
		case token.NEQ:
			return "(negb (" + a + " =? " + b + "))"
		case token.LSS:
			return "(" + a + " <? " + b + ")"
		case token.LEQ:
			return "(" + a + " <=? " + b + ")"
		case token.GTR:
			return "(" + b + " <? " + a + ")"
		case token.GEQ:
			return "(" + b + " <=? " + a + ")"
		}
		c.fail(e, "binary operator %s", x.Op)
	}
	c.fail(e, "expression %T (%s) is not translated", e, c.txt(e))
	return ""
}

func (c *c14ctx) named(e ast.Expr, role, ctype string, tr func(ast.Expr) string) string {
	c.free, c.freeSet = nil, map[string]bool{}
	body := tr(e)
	base := "c14_" + c.fn + "_" + role
	k := c.used[base]
	c.used[base] = k + 1
	name := base
	if k > 0 {
		name = fmt.Sprintf("%s_%d", base, k)
	}
	var ps, as []string
	for _, fv := range c.free {
		ps = append(ps, "v"+strings.TrimPrefix(fv, "V"))
		as = append(as, "(v "+fv+")")
	}
	params := ""
	if len(ps) > 0 {
		params = " (" + strings.Join(ps, " ") + " : Z)"
	}
	fmt.Fprintf(&c.defs, "(* %s: %s *)\nDefinition %s%s : %s :=\n  %s.\n\n", c.fn, strings.ReplaceAll(c.txt(e), "(*", "( *"), name, params, ctype, body)
	if len(as) == 0 {
		return "(fun _ : env => " + name + ")"
	}
	return "(fun v : env => " + name + " " + strings.Join(as, " ") + ")"
}

func (c *c14ctx) intExpr(e ast.Expr, role string) string  { return c.named(e, role, "Z", c.expr) }
func (c *c14ctx) boolExpr(e ast.Expr, role string) string { return c.named(e, role, "bool", c.expr) }

// intExprAs: e converted to Go type ty at its use (argument of a parameter of that type)
func (c *c14ctx) intExprAs(e ast.Expr, role string, ty types.Type) string {
	return c.named(e, role, "Z", func(e ast.Expr) string {
		if t := c.typeOf1(e); t != nil && c14isInt(t) && !types.Identical(t.Underlying(), ty.Underlying()) {
			c.fail(e, "%s has type %v where %v is expected", c.txt(e), t, ty)
		}
		return c.expr(e)
	})
}

// ---------------------------------------------------------------- statements

func (c *c14ctx) block(list []ast.Stmt, ind string) string {
	var items []string
	for _, s := range list {
		items = append(items, c.stmtOrExpr(s, ind+"  ")...)
	}
	return gblock(items, ind)
}

// errCheck: `if err != nil { ...; return ... }`.  Without further statements (or with `_ = r.Close()` only)
// -> SErrCheck "<rendered body>"; with statements before the return -> SErrDo [statements] "<return>"
func (c *c14ctx) errCheck(s ast.Stmt, ind string) (string, bool) {
	x, ok := s.(*ast.IfStmt)
	if !ok || x.Init != nil || x.Else != nil || len(x.Body.List) == 0 || c.txt(x.Cond) != "err != nil" {
		return "", false
	}
	last := x.Body.List[len(x.Body.List)-1]
	if _, ok := last.(*ast.ReturnStmt); !ok {
		c.fail(s, "error check that does not end in a return")
	}
	var parts []string
	simple := true
	for _, b := range x.Body.List[:len(x.Body.List)-1] {
		t := c.txt(b)
		if t != "_ = r.Close()" {
			simple = false
		}
		parts = append(parts, t)
	}
	if simple {
		parts = append(parts, c.txt(last))
		return "SErrCheck " + c14q(strings.Join(parts, "; ")), true
	}
	body := c.block(x.Body.List[:len(x.Body.List)-1], ind)
	return fmt.Sprintf("SErrDo %s\n%s    %s", c14q(c.txt(last)), ind, body), true
}

func c14call(e ast.Expr) (fun string, args []ast.Expr, ok bool) {
	call, ok := e.(*ast.CallExpr)
	if !ok || call.Ellipsis != token.NoPos {
		return "", nil, false
	}
	return types.ExprString(call.Fun), call.Args, true
}

// forHeader: `for i := int32(0); i < hi; i++`
func (c *c14ctx) forHeader(x *ast.ForStmt) (ast.Expr, bool) {
	if x.Init == nil || x.Cond == nil || x.Post == nil {
		return nil, false
	}
	if c.txt(x.Init) != "i := int32(0)" || c.txt(x.Post) != "i++" {
		return nil, false
	}
	be, ok := x.Cond.(*ast.BinaryExpr)
	if !ok || be.Op != token.LSS || c.txt(be.X) != "i" {
		return nil, false
	}
	return be.Y, true
}

// assigns: does the statement list assign variable name (or declare a new one of that name)?
func c14assigns(list []ast.Stmt, name string) bool {
	found := false
	for _, s := range list {
		ast.Inspect(s, func(n ast.Node) bool {
			switch x := n.(type) {
			case *ast.AssignStmt:
				for _, l := range x.Lhs {
					if id, ok := l.(*ast.Ident); ok && id.Name == name {
						found = true
					}
				}
			case *ast.IncDecStmt:
				if id, ok := x.X.(*ast.Ident); ok && id.Name == name {
					found = true
				}
			}
			return true
		})
	}
	return found
}

func (c *c14ctx) stmt(s ast.Stmt, ind string) []string {
	if c.fn == "writeAt" {
		st := c.txt(s)
		switch x := s.(type) {
		case *ast.IfStmt:
			// if f, ok := r.f.(io.WriterAt); ok { ... }
			if x.Init != nil && x.Else == nil && c.txt(x.Init) == "f, ok := r.f.(io.WriterAt)" && c.txt(x.Cond) == "ok" {
				return []string{fmt.Sprintf("SIfWriterAt %s\n%s    %s", c14q("if f, ok := r.f.(io.WriterAt); ok"), ind, c.block(x.Body.List, ind))}
			}
		case *ast.ReturnStmt:
			if len(x.Results) == 1 {
				if fun, args, ok := c14call(x.Results[0]); ok {
					switch {
					case fun == "f.WriteAt" && len(args) == 2 && c.txt(args[0]) == "p":
						return []string{"SRetWriteAt " + c14q(st) + " " + c.intExprAs(args[1], "WriteAt_off", c14int64)}
					case fun == "r.f.Write" && len(args) == 1 && c.txt(args[0]) == "p":
						return []string{"SRetWrite " + c14q(st)}
					}
				}
			}
		}
	}
	if t, ok := c.errCheck(s, ind); ok {
		return []string{t}
	}
	st := c.txt(s)
	switch x := s.(type) {
	case *ast.DeclStmt:
		switch st {
		case "var buf [4]byte":
			return []string{"SEff0 EVarBuf " + c14q(st)}
		case "var length int32":
			c.localTy[c.fn+".length"] = c14int32
			return []string{"SEff0 EVarLength " + c14q(st)}
		}
		c.fail(s, "unknown declaration %s", st)
	case *ast.ReturnStmt:
		if len(x.Results) == 1 {
			if tv, ok := c.info.Types[x.Results[0]]; ok && tv.Type != nil {
				if b, ok := tv.Type.Underlying().(*types.Basic); ok && b.Info()&types.IsBoolean != 0 {
					return []string{"SRetBool " + c14q(st) + " " + c.boolExpr(x.Results[0], "result")}
				}
			}
		}
		for _, r := range x.Results {
			switch r.(type) {
			case *ast.Ident, *ast.BasicLit:
			default:
				c.fail(s, "return of a compound expression %s", c.txt(r))
			}
		}
		return []string{"SRet " + c14q(st)}
	case *ast.ForStmt:
		hi, ok := c.forHeader(x)
		if !ok {
			c.fail(s, "loop header is not `for i := int32(0); i < e; i++`")
		}
		c.localTy[c.fn+".i"] = c14int32
		kind := "LCounted"
		if c14assigns(x.Body.List, "i") {
			kind = "LScan"
		}
		if id, ok := hi.(*ast.Ident); !ok || c14assigns(x.Body.List, id.Name) {
			c.fail(s, "loop bound %s is not a variable the body leaves alone", c.txt(hi))
		}
		hdr := "for " + c.txt(x.Init) + "; " + c.txt(x.Cond) + "; " + c.txt(x.Post)
		h := c.intExprAs(hi, "bound", c14int32)
		return []string{fmt.Sprintf("SFor %s Vi %s %s\n%s    %s", kind, c14q(hdr), h, ind, c.block(x.Body.List, ind))}
	case *ast.RangeStmt:
		// for _, v := range r.offsets { for _, v := range v { body } }
		inner, ok := func() (*ast.RangeStmt, bool) {
			if c.txt(x.Key) != "_" || x.Value == nil || c.txt(x.Value) != "v" || x.Tok != token.DEFINE || c.txt(x.X) != "r.offsets" || len(x.Body.List) != 1 {
				return nil, false
			}
			in, ok := x.Body.List[0].(*ast.RangeStmt)
			if !ok || c.txt(in.Key) != "_" || in.Value == nil || c.txt(in.Value) != "v" || in.Tok != token.DEFINE || c.txt(in.X) != "v" {
				return nil, false
			}
			return in, true
		}()
		if !ok {
			c.fail(s, "range loop is not `for _, v := range r.offsets { for _, v := range v {...} }`")
		}
		c.localTy[c.fn+".v"] = c14int32
		return []string{fmt.Sprintf("SRange Vv %s\n%s    %s", c14q("for _, v := range r.offsets { for _, v := range v"), ind, c.block(inner.Body.List, ind))}
	case *ast.IfStmt:
		var pre []string
		if x.Init != nil {
			as, ok := x.Init.(*ast.AssignStmt)
			if !ok {
				c.fail(s, "unknown if initialiser")
			}
			pre = []string{c.assign(as)}
			if !strings.HasPrefix(pre[0], "SLoc ") {
				c.fail(s, "if initialiser that is not a sectorLoc call")
			}
		}
		th := c.block(x.Body.List, ind)
		el := "[]"
		switch e := x.Else.(type) {
		case nil:
		case *ast.BlockStmt:
			el = c.block(e.List, ind)
		default:
			c.fail(s, "else-if is not a shape of these functions")
		}
		// if r.sectors[e] { ... }
		if ix, ok := x.Cond.(*ast.IndexExpr); ok && c.txt(ix.X) == "r.sectors" {
			if x.Else != nil || x.Init != nil {
				c.fail(s, "occupancy test with else / initialiser")
			}
			return []string{fmt.Sprintf("SIfUsed %s %s\n%s    %s", c14q(c.txt(x.Cond)), c.intExprAs(ix.Index, "probe", c14int32), ind, th)}
		}
		cond := c.boolExpr(x.Cond, "cond")
		return append(pre, fmt.Sprintf("SIf %s %s\n%s    %s\n%s    %s", c14q(c.txt(x.Cond)), cond, ind, th, ind, el))
	case *ast.AssignStmt:
		// a, b := c, d with identifiers on both sides, none of a, b among c, d: two lets in order
		if x.Tok == token.DEFINE && len(x.Lhs) == 2 && len(x.Rhs) == 2 {
			ids := map[string]bool{}
			okp := true
			for _, e := range append(append([]ast.Expr{}, x.Lhs...), x.Rhs...) {
				id, ok := e.(*ast.Ident)
				if !ok || ids[id.Name] {
					okp = false
					break
				}
				ids[id.Name] = true
			}
			if okp {
				var out []string
				for i := range x.Lhs {
					l := x.Lhs[i].(*ast.Ident).Name
					fv, ok := c14vars[l]
					if !ok {
						c.fail(s, "%s is not a variable of Model/C14_syntax.v", l)
					}
					c.localTy[c.fn+"."+l] = c.typeOf(x.Rhs[i])
					out = append(out, "SLet "+fv+" "+c14q(st)+" "+c.intExpr(x.Rhs[i], l))
				}
				return out
			}
		}
		return []string{c.assign(x)}
	case *ast.ExprStmt:
		c.fail(s, "unknown expression statement %s", st)
	}
	c.fail(s, "unknown statement %T: %s", s, st)
	return nil
}

func (c *c14ctx) lhs(x *ast.AssignStmt) string {
	var ls []string
	for _, l := range x.Lhs {
		ls = append(ls, c.txt(l))
	}
	return strings.Join(ls, ",") + " " + x.Tok.String()
}

func (c *c14ctx) assign(x *ast.AssignStmt) string {
	st := c.txt(x)
	lhs := c.lhs(x)
	if len(x.Rhs) != 1 {
		c.fail(x, "assignment with %d right-hand sides", len(x.Rhs))
	}
	rhs := x.Rhs[0]
	rt := c.txt(rhs)
	q := c14q(st)
	// statements that only set up the object: rendered, no effect on the modelled state
	switch st {
	case "r = &Region{ f: f, sectors: make(map[int32]bool), }", "r = new(Region)", "r.sectors = make(map[int32]bool)", "r.f = f":
		return "SText " + q
	}
	// r.sectors[e] = true / false
	if ix, ok := x.Lhs[0].(*ast.IndexExpr); ok && len(x.Lhs) == 1 && x.Tok == token.ASSIGN && c.txt(ix.X) == "r.sectors" {
		if rt != "true" && rt != "false" {
			c.fail(x, "occupancy assigned %s", rt)
		}
		return "SMark " + q + " " + c.intExprAs(ix.Index, "sector", c14int32) + " " + rt
	}
	fun, args, isCall := c14call(rhs)
	if ce, ok := rhs.(*ast.CallExpr); ok {
		if tv, ok := c.info.Types[ce.Fun]; ok && tv.IsType() {
			isCall = false // a conversion
		}
	}
	argt := func(i int) string { return c.txt(args[i]) }
	if isCall {
		switch {
		case fun == "sectorLoc" && len(args) == 1 && x.Tok == token.DEFINE && len(x.Lhs) == 2:
			a, ok1 := c14vars[c.txt(x.Lhs[0])]
			b, ok2 := c14vars[c.txt(x.Lhs[1])]
			if !ok1 || !ok2 {
				c.fail(x, "results of sectorLoc are not variables of Model/C14_syntax.v")
			}
			c.localTy[c.fn+"."+c.txt(x.Lhs[0])] = c14int32
			c.localTy[c.fn+"."+c.txt(x.Lhs[1])] = c14int32
			return fmt.Sprintf("SLoc %s %s %s %s", a, b, q, c.intExprAs(args[0], "loc_arg", c14int32))
		case fun == "binary.Read" && lhs == "err =" && len(args) == 3 && argt(0) == "r.f" && argt(1) == "binary.BigEndian":
			switch argt(2) {
			case "&r.offsets":
				return "SEff0 EReadOffsets " + q
			case "&r.Timestamps":
				return "SEff0 EReadTimestamps " + q
			}
		case fun == "binary.Read" && lhs == "err =" && len(args) == 3 && argt(0) == "reader" && argt(1) == "binary.BigEndian" && argt(2) == "&length":
			return "SEff0 EReadLength " + q
		case fun == "binary.Write" && lhs == "err =" && len(args) == 3 && argt(0) == "r.f" && argt(1) == "binary.BigEndian":
			switch argt(2) {
			case "&r.offsets":
				return "SEff0 EWriteOffsets " + q
			case "&r.Timestamps":
				return "SEff0 EWriteTimestamps " + q
			}
			// binary.Write(r.f, binary.BigEndian, int32(len(data))): the value must be an int32 (4 bytes)
			if t := c.typeOf(args[2]); !types.Identical(t, c14int32) {
				c.fail(x, "binary.Write of a %v (only int32 is a shape)", t)
			}
			return "SEff EWriteInt32 " + q + " " + c.intExpr(args[2], "written_length")
		case fun == "r.f.Seek" && (lhs == "_,err =" || lhs == "_,err :=") && len(args) == 2 && argt(1) == "0":
			return "SEff ESeek " + q + " " + c.intExprAs(args[0], "seek", c14int64)
		case fun == "r.f.Seek" && lhs == "size,err :=" && len(args) == 2 && argt(0) == "0" && argt(1) == "io.SeekEnd":
			c.localTy[c.fn+".size"] = c14int64
			return "SEff0 ESeekEnd " + q
		case fun == "io.LimitReader" && lhs == "reader :=" && len(args) == 2 && argt(0) == "r.f":
			return "SEff ELimit " + q + " " + c.intExprAs(args[1], "limit", c14int64)
		case fun == "io.ReadFull" && lhs == "_,err =" && len(args) == 2 && argt(0) == "reader" && argt(1) == "data":
			return "SEff0 EReadFull " + q
		case fun == "make" && lhs == "data =" && len(args) == 2 && argt(0) == "[]byte":
			return "SEff EMakeData " + q + " " + c.intExpr(args[1], "make_len")
		case fun == "r.f.Write" && (lhs == "_,err =" || lhs == "_,err :=") && len(args) == 1 && argt(0) == "data":
			return "SEff0 EWriteData " + q
		case fun == "r.f.Write" && lhs == "_,err =" && len(args) == 1:
			if f2, a2, ok := c14call(args[0]); ok && f2 == "make" && len(a2) == 2 && c.txt(a2[0]) == "[]byte" {
				return "SEff EWriteZeros " + q + " " + c.intExpr(a2[1], "padding")
			}
		case fun == "r.findSpace" && lhs == "n =" && len(args) == 1:
			return "SEff ECallFindSpace " + q + " " + c.intExprAs(args[0], "findSpace_arg", c14int32)
		case fun == "r.setHead" && lhs == "err :=" && len(args) == 4 && argt(0) == "x" && argt(1) == "z":
			return "SEff2 ECallSetHead " + q + " " + c.intExprAs(args[2], "setHead_offset", types.Typ[types.Uint32]) + " " + c.intExprAs(args[3], "setHead_timestamp", types.Typ[types.Uint32])
		case fun == "time.Now().Unix" && lhs == "timestamp :=" && len(args) == 0:
			c.localTy[c.fn+".timestamp"] = c14int64
			return "SEff0 ENow " + q
		case fun == "r.writeAt" && lhs == "_,err =" && len(args) == 2 && argt(0) == "buf[:]":
			return "SEff EWriteAt " + q + " " + c.intExprAs(args[1], "writeAt_off", c14int64)
		}
		c.fail(x, "unknown call statement %s", st)
	}
	// binary.BigEndian.PutUint32(buf[:], e) is an expression statement: handled in stmtExpr
	if len(x.Lhs) != 1 {
		c.fail(x, "unknown assignment %s", st)
	}
	l := c.txt(x.Lhs[0])
	switch l {
	case "r.offsets[z][x]":
		if x.Tok == token.ASSIGN {
			return "SEff ESetOffset " + q + " " + c.intExprAs(rhs, "new_offset", c14int32)
		}
	case "r.Timestamps[z][x]":
		if x.Tok == token.ASSIGN {
			return "SEff ESetTs " + q + " " + c.intExprAs(rhs, "new_timestamp", c14int32)
		}
	}
	if fv, ok := c14vars[l]; ok {
		if _, isId := x.Lhs[0].(*ast.Ident); isId {
			switch x.Tok {
			case token.DEFINE, token.ASSIGN:
				if x.Tok == token.DEFINE {
					c.localTy[c.fn+"."+l] = c.typeOf(rhs)
				}
				return "SLet " + fv + " " + q + " " + c.intExpr(rhs, l)
			case token.ADD_ASSIGN:
				be := &ast.BinaryExpr{X: x.Lhs[0], Op: token.ADD, Y: rhs, OpPos: x.TokPos}
				if t := c.typeOf1(x.Lhs[0]); t != nil {
					c.info.Types[be] = types.TypeAndValue{Type: t}
				}
				return "SLet " + fv + " " + q + " " + c.named(be, l, "Z", c.expr)
			}
		}
	}
	c.fail(x, "unknown assignment %s", st)
	return ""
}

// stmtTop: statements that are expression statements with a meaning
func (c *c14ctx) stmtOrExpr(s ast.Stmt, ind string) []string {
	if es, ok := s.(*ast.ExprStmt); ok {
		if fun, args, ok := c14call(es.X); ok && fun == "binary.BigEndian.PutUint32" && len(args) == 2 && c.txt(args[0]) == "buf[:]" {
			return []string{"SEff EPut32 " + c14q(c.txt(s)) + " " + c.intExprAs(args[1], "put32", types.Typ[types.Uint32])}
		}
	}
	return c.stmt(s, ind)
}

type c14fn struct {
	recv, name, params, results string
	ptypes                      map[string]types.Type
}

var c14u32 = types.Typ[types.Uint32]

var c14fns = []c14fn{
	{"", "Load", "f", "r,err", nil},
	{"", "CreateWriter", "f", "r,err", nil},
	{"Region", "ReadSector", "x,z", "data,err", map[string]types.Type{"x": c14int, "z": c14int}},
	{"Region", "WriteSector", "x,z,data", "", map[string]types.Type{"x": c14int, "z": c14int}},
	{"Region", "ExistSector", "x,z", "", map[string]types.Type{"x": c14int, "z": c14int}},
	{"Region", "PadToFullSector", "", "", nil},
	{"Region", "findSpace", "need", "n", map[string]types.Type{"need": c14int32, "n": c14int32}},
	{"Region", "setHead", "x,z,offset,timestamp", "err", map[string]types.Type{"x": c14int, "z": c14int, "offset": c14u32, "timestamp": c14u32}},
	{"Region", "writeAt", "p,off", "n,err", map[string]types.Type{"off": c14int64}},
}

func genC14(repo string) (out string, err error) {
	defer func() {
		if r := recover(); r != nil {
			if te, ok := r.(c14err); ok {
				err = fmt.Errorf("%s", te.msg)
				return
			}
			if te, ok := r.(trErr); ok {
				err = te
				return
			}
			panic(r)
		}
	}()
	fset := token.NewFileSet()
	files, _, e := parseDir(fset, filepath.Join(repo, "save/region"))
	if e != nil {
		return "", e
	}
	conf := types.Config{Importer: &fakeImporter{map[string]*types.Package{}}, Error: func(error) {}}
	info := &types.Info{Types: map[ast.Expr]types.TypeAndValue{}, Defs: map[*ast.Ident]types.Object{}, Uses: map[*ast.Ident]types.Object{}}
	conf.Check("save/region", fset, files, info)
	c := &c14ctx{fset: fset, info: info, files: files, used: map[string]int{}, localTy: map[string]types.Type{}}
	var skels bytes.Buffer
	for _, f := range c14fns {
		fd := findFunc(files, f.recv, f.name)
		if fd == nil || fd.Body == nil {
			return "", fmt.Errorf("save/region: function %s not found", f.name)
		}
		c.fn = f.name
		names, _ := fieldNames(fd.Type.Params)
		if strings.Join(names, ",") != f.params {
			return "", fmt.Errorf("save/region: %s: parameters are (%s), expected (%s)", f.name, strings.Join(names, ","), f.params)
		}
		rnames, _ := fieldNames(fd.Type.Results)
		if strings.Join(rnames, ",") != f.results {
			return "", fmt.Errorf("save/region: %s: named results are (%s), expected (%s)", f.name, strings.Join(rnames, ","), f.results)
		}
		if f.recv != "" {
			if fd.Recv == nil || len(fd.Recv.List) != 1 || len(fd.Recv.List[0].Names) != 1 || fd.Recv.List[0].Names[0].Name != "r" {
				return "", fmt.Errorf("save/region: %s: receiver is not called r", f.name)
			}
		}
		// parameter / result types as declared
		check := func(fl *ast.FieldList) error {
			if fl == nil {
				return nil
			}
			for _, p := range fl.List {
				for _, n := range p.Names {
					want, ok := f.ptypes[n.Name]
					if !ok {
						continue
					}
					tv, ok := info.Types[p.Type]
					if !ok || tv.Type == nil || !types.Identical(tv.Type, want) {
						return fmt.Errorf("%s: save/region: %s: %s is not a %v", fset.Position(p.Pos()), f.name, n.Name, want)
					}
					c.localTy[f.name+"."+n.Name] = want
				}
			}
			return nil
		}
		if err := check(fd.Type.Params); err != nil {
			return "", err
		}
		if err := check(fd.Type.Results); err != nil {
			return "", err
		}
		var items []string
		for _, s := range fd.Body.List {
			items = append(items, c.stmtOrExpr(s, "    ")...)
		}
		fmt.Fprintf(&skels, "(* save/region/mca.go: %s *)\nDefinition %s : list sem_stmt :=\n  %s.\n\n", f.name, f.name, gblock(items, "  "))
	}
	// the table element type and the occupancy map's key type
	var tabs []string
	for _, f := range files {
		ast.Inspect(f, func(n ast.Node) bool {
			ts, ok := n.(*ast.TypeSpec)
			if !ok || ts.Name.Name != "Region" {
				return true
			}
			st, ok := ts.Type.(*ast.StructType)
			if !ok {
				return true
			}
			for _, fl := range st.Fields.List {
				for _, nm := range fl.Names {
					tabs = append(tabs, c14q(nm.Name+" "+c.txt(fl.Type)))
				}
			}
			return false
		})
	}
	if len(tabs) == 0 {
		return "", fmt.Errorf("save/region: type Region not found")
	}
	var b bytes.Buffer
	b.WriteString("(* GENERATED by tools/gotrans (c14.go) from save/region/mca.go - do not edit *)\n")
	b.WriteString("From Coq Require Import ZArith Bool List String.\n")
	b.WriteString("From GoMC Require Import Base.GoInt Model.C14_syntax.\n")
	b.WriteString("Import ListNotations.\nLocal Open Scope Z_scope.\nLocal Open Scope bool_scope.\n\n")
	b.WriteString("(* ---- expressions, funcs.go-style ---- *)\n")
	b.Write(c.defs.Bytes())
	b.WriteString("(* ---- statement skeletons ---- *)\nLocal Open Scope string_scope.\n\n")
	b.Write(skels.Bytes())
	fmt.Fprintf(&b, "(* save/region/mca.go: the fields of type Region *)\nDefinition Region_fields : list string :=\n  [%s].\n\n", strings.Join(tabs, ";\n   "))
	return b.String(), nil
}

// emitC14 is the one call main.go makes
func emitC14(repo, outdir string) {
	s, err := genC14(repo)
	if err != nil {
		fmt.Fprintln(os.Stderr, "gotrans: c14:", err)
		os.Exit(1)
	}
	if err := writeIfChanged(filepath.Join(outdir, "C14gen.v"), s); err != nil {
		fmt.Fprintln(os.Stderr, "gotrans:", err)
		os.Exit(1)
	}
}
