package main

// c16.go: translation of net/rcon.go (property C16) into coq/Gen/C16gen.v, regenerated on every run.
//
// What is translated
//   - the bodies of (*RCONConn).ReadPacket, WritePacket, Cmd, Resp, AcceptLogin, AcceptCmd, RespCmd and of
//     DialRCON, statement by statement and in source order, into terms of the types `rstmt` / `rexpr` of
//     coq/Model/C16_syntax.v (one `rfunc` per function: connection variable, parameters, named results,
//     body).  Expressions are STRUCTURED: integer constants stay Coq arithmetic (`4 + 4 + 0 + 2`) and named
//     package constants refer to Gen/Consts.v (`net_MaxRCONPackageSize`); `+` / `-` and integer conversions
//     carry the bit width go/types gives the result; comparisons are split by operand kind (integer, string,
//     nil); slices, len, []byte(s) / string(b), binary.LittleEndian.Uint32, errors.New / fmt.Errorf (with the
//     message text), rand.Int31 have their own constructors;
//   - the protocol statements have their own constructors: `err = binary.Read(r, binary.LittleEndian, &x)`
//     (SReadI32 / SReadBuf by the declared type of x), `x := make([]byte, n)`, `buf := new(bytes.Buffer)`,
//     the loop `for _, v := range []any{...} { err := binary.Write(buf, binary.LittleEndian, v); if err != nil
//     { return err } }` (SWriteEach; the element kinds int32 / []byte come from go/types and the loop body
//     must have exactly this shape), `_, err := r.Write(buf.Bytes())`, calls of r.ReadPacket / r.WritePacket,
//     `r.ReqID = e`, `c := &RCONConn{...}`, `c.Conn, err = net.Dial(...)`;
//   - (*RCONListener).Accept and ListenRCON, which only create values: `l, err := net.Listen(...)` (SListen),
//     `conn, err := r.Listener.Accept()` (SAcceptConn) and the returned `&T{Field: variable}` (XNew); the
//     field lists of the structs RCONConn and RCONListener (embedded fields under their implicit name).
//     Any other struct type in the file, any package-level variable declared in it and any use of a
//     package-level variable inside a translated body is a loud failure (state shared between connections
//     is outside the model);
//   - funcs.go-style SHALLOW definitions over Z / bool (explicit wrap_s, constants folded by go/types) of
//     every integer comparison used as an `if` condition, of every non-constant slice bound, of the length
//     handed to make and of the non-trivial int32 elements of WritePacket's list:
//     rcon_<Func>_cond<i>, rcon_<Func>_bound<i>, rcon_<Func>_make<i>, rcon_<Func>_item<i>.
//
// Anything outside these shapes makes gotrans exit non-zero (a broken correspondence), never a guess.

import (
	"bytes"
	"fmt"
	"go/ast"
	"go/constant"
	"go/token"
	"go/types"
	"os"
	"path/filepath"
	"strconv"
	"strings"
)

type c16Fn struct {
	recv, name, coq string
	conn            string // "" = the receiver
}

var c16Funcs = []c16Fn{
	{"RCONConn", "ReadPacket", "rcon_ReadPacket", ""},
	{"RCONConn", "WritePacket", "rcon_WritePacket", ""},
	{"RCONConn", "Cmd", "rcon_Cmd", ""},
	{"RCONConn", "Resp", "rcon_Resp", ""},
	{"RCONConn", "AcceptLogin", "rcon_AcceptLogin", ""},
	{"RCONConn", "AcceptCmd", "rcon_AcceptCmd", ""},
	{"RCONConn", "RespCmd", "rcon_RespCmd", ""},
	{"", "DialRCON", "rcon_DialRCON", "c"},
	{"", "ListenRCON", "rcon_ListenRCON", "l"},
	{"RCONListener", "Accept", "rcon_Accept", ""},
}

type c16ctx struct {
	fset    *token.FileSet
	info    *types.Info
	pkg     *types.Package
	conn    string
	fn      string // Coq name of the function being translated
	text    *gctx  // renderer for text-only statements
	shallow *bytes.Buffer
	nCond   int
	nBound  int
	nMake   int
	nItem   int
	tr      *trans
}

type c16Err struct{ msg string }

func (c *c16ctx) fail(n ast.Node, format string, a ...any) {
	panic(c16Err{fmt.Sprintf("%s: %s", c.fset.Position(n.Pos()), fmt.Sprintf(format, a...))})
}

func cq(s string) string { return "\"" + strings.ReplaceAll(s, "\"", "\"\"") + "\"" }

func cqlist(xs []string) string {
	q := make([]string, len(xs))
	for i, x := range xs {
		q[i] = cq(x)
	}
	return "[" + strings.Join(q, "; ") + "]"
}

func coqBytes(s string) string {
	var bs []string
	for i := 0; i < len(s); i++ {
		bs = append(bs, fmt.Sprintf("%d%%N", s[i]))
	}
	return "[" + strings.Join(bs, "; ") + "]"
}

// ---------------------------------------------------------------- types

func (c *c16ctx) typeOf(e ast.Expr) types.Type {
	if tv, ok := c.info.Types[e]; ok {
		return tv.Type
	}
	if id, ok := e.(*ast.Ident); ok {
		if o := c.info.Uses[id]; o != nil {
			return o.Type()
		}
		if o := c.info.Defs[id]; o != nil {
			return o.Type()
		}
	}
	return nil
}

func isString(t types.Type) bool {
	if t == nil {
		return false
	}
	b, ok := t.Underlying().(*types.Basic)
	return ok && b.Info()&types.IsString != 0
}

func isByteSlice(t types.Type) bool {
	if t == nil {
		return false
	}
	s, ok := t.Underlying().(*types.Slice)
	if !ok {
		return false
	}
	b, ok := s.Elem().Underlying().(*types.Basic)
	return ok && b.Kind() == types.Uint8
}

func (c *c16ctx) intWidth(e ast.Expr) int {
	signed, w, ok := intKind(c.typeOf(e))
	if !ok || !signed {
		c.fail(e, "expression is not of a signed sized integer type (%v)", c.typeOf(e))
	}
	return w
}

// ---------------------------------------------------------------- constant expressions

// constText renders an integer constant expression as Coq arithmetic; named package constants by their
// Gen/Consts.v name; anything else by its value
func (c *c16ctx) constText(e ast.Expr) string {
	switch x := e.(type) {
	case *ast.BasicLit:
		if x.Kind == token.INT {
			if v, err := strconv.ParseInt(x.Value, 0, 64); err == nil {
				return strconv.FormatInt(v, 10)
			}
		}
	case *ast.ParenExpr:
		return "(" + c.constText(x.X) + ")"
	case *ast.Ident:
		if o, ok := c.info.Uses[x].(*types.Const); ok && o.Pkg() == c.pkg && o.Parent() == c.pkg.Scope() {
			return "net_" + x.Name
		}
	case *ast.BinaryExpr:
		if x.Op == token.ADD || x.Op == token.SUB {
			return c.constText(x.X) + " " + x.Op.String() + " " + c.constText(x.Y)
		}
	case *ast.UnaryExpr:
		if x.Op == token.SUB {
			return "(- " + c.constText(x.X) + ")"
		}
	}
	tv := c.info.Types[e]
	if tv.Value == nil || tv.Value.Kind() != constant.Int {
		c.fail(e, "not an integer constant")
	}
	v := tv.Value.ExactString()
	if strings.HasPrefix(v, "-") {
		return "(" + v + ")"
	}
	return v
}

// ---------------------------------------------------------------- shallow (funcs.go style) definitions

func (c *c16ctx) emitShallow(kind string, n *int, e ast.Expr) {
	t := &trans{fset: c.fset, info: c.info, prefix: "net", used: map[string]int{}, freeSet: map[string]bool{},
		known: map[string]*knownFn{}, localsOK: true, fnVars: map[string]bool{}, arrSet: map[string]bool{},
		slicePar: map[string]bool{}, ctype: map[string]string{}, declared: map[string]bool{}}
	t.push()
	for _, r := range []string{"wrap_s", "wrap_u", "Z", "bool", "true", "false", "negb", "fst", "snd", "if", "then", "else", "let", "in", "fun", "at", "as", "end", "match", "with", "return", "Type", "Set", "Prop", "forall", "exists"} {
		t.used[r] = 1
	}
	// variables whose Go name is a Coq keyword (Type) are renamed; they come first in the parameter list
	var pre []string
	ast.Inspect(e, func(n ast.Node) bool {
		if id, ok := n.(*ast.Ident); ok && t.used[id.Name] == 1 {
			if _, isVar := c.info.Uses[id].(*types.Var); isVar {
				if _, done := t.lookup(id.Name); !done {
					t.scopes[0][id.Name] = id.Name + "_"
					pre = append(pre, id.Name+"_")
				}
			}
		}
		return true
	})
	var body string
	func() {
		defer func() {
			if r := recover(); r != nil {
				if te, ok := r.(trErr); ok {
					panic(c16Err{"shallow translation: " + te.msg})
				}
				panic(r)
			}
		}()
		body = t.expr(e)
	}()
	ty := "Z"
	if b, ok := c.typeOf(e).Underlying().(*types.Basic); ok && b.Info()&types.IsBoolean != 0 {
		ty = "bool"
	}
	params := ""
	for _, f := range append(pre, t.free...) {
		params += fmt.Sprintf(" (%s : Z)", f)
	}
	var src bytes.Buffer
	src.WriteString(c.text.mustGx(e))
	fmt.Fprintf(c.shallow, "(* %s *)\nDefinition %s_%s%d%s : %s := %s.\n", strings.ReplaceAll(src.String(), "*", "^"), c.fn, kind, *n, params, ty, body)
	*n++
}

func (g *gctx) mustGx(e ast.Expr) string {
	s, err := g.gx(e)
	if err != nil {
		// slices are not known to gate.go's renderer
		return "<expr>"
	}
	return s
}

// ---------------------------------------------------------------- expressions

func (c *c16ctx) isNil(e ast.Expr) bool {
	id, ok := e.(*ast.Ident)
	return ok && id.Name == "nil"
}

func (c *c16ctx) selName(e ast.Expr) string {
	// a.b.c as text, "" when e is not a chain of identifiers
	switch x := e.(type) {
	case *ast.Ident:
		return x.Name
	case *ast.SelectorExpr:
		if p := c.selName(x.X); p != "" {
			return p + "." + x.Sel.Name
		}
	}
	return ""
}

func cmpName(op token.Token) string {
	switch op {
	case token.LSS:
		return "CLt"
	case token.GTR:
		return "CGt"
	case token.EQL:
		return "CEq"
	case token.NEQ:
		return "CNe"
	}
	return ""
}

func (c *c16ctx) optx(e ast.Expr) string {
	if e == nil {
		return "None"
	}
	return "(Some " + c.x(e) + ")"
}

func (c *c16ctx) xs(es []ast.Expr) string {
	var out []string
	for _, e := range es {
		out = append(out, c.x(e))
	}
	return "[" + strings.Join(out, "; ") + "]"
}

func (c *c16ctx) x(e ast.Expr) string {
	if tv, ok := c.info.Types[e]; ok && tv.Value != nil {
		switch tv.Value.Kind() {
		case constant.Int:
			return "(XInt (" + c.constText(e) + "))"
		case constant.String:
			return "(XStr " + coqBytes(constant.StringVal(tv.Value)) + ")"
		}
		c.fail(e, "constant of unsupported kind %v", tv.Value.Kind())
	}
	switch x := e.(type) {
	case *ast.ParenExpr:
		return c.x(x.X)
	case *ast.Ident:
		if x.Name == "nil" {
			return "XNil"
		}
		if x.Name == "_" {
			c.fail(e, "blank identifier used as a value")
		}
		c.noPkgVar(x)
		return "(XVar " + cq(x.Name) + ")"
	case *ast.SelectorExpr:
		if id, ok := x.X.(*ast.Ident); ok && id.Name == c.conn {
			return "(XField " + cq(id.Name) + " " + cq(x.Sel.Name) + ")"
		}
		c.fail(e, "selector %s outside the connection variable %q", c.selName(e), c.conn)
	case *ast.BinaryExpr:
		switch x.Op {
		case token.ADD, token.SUB:
			w := c.intWidth(e)
			k := "XAdd"
			if x.Op == token.SUB {
				k = "XSub"
			}
			return fmt.Sprintf("(%s %d %s %s)", k, w, c.x(x.X), c.x(x.Y))
		case token.LSS, token.GTR, token.EQL, token.NEQ:
			op := cmpName(x.Op)
			if c.isNil(x.Y) {
				if x.Op != token.EQL && x.Op != token.NEQ {
					c.fail(e, "ordering comparison with nil")
				}
				return fmt.Sprintf("(XNilCmp %s %s)", op, c.x(x.X))
			}
			tx, ty := c.typeOf(x.X), c.typeOf(x.Y)
			if isString(tx) && isString(ty) {
				if x.Op != token.EQL && x.Op != token.NEQ {
					c.fail(e, "ordering comparison of strings")
				}
				return fmt.Sprintf("(XSCmp %s %s %s)", op, c.x(x.X), c.x(x.Y))
			}
			_, _, okx := intKind(tx)
			_, _, oky := intKind(ty)
			if okx && oky {
				return fmt.Sprintf("(XCmp %s %s %s)", op, c.x(x.X), c.x(x.Y))
			}
			c.fail(e, "comparison of operands of types %v and %v", tx, ty)
		}
		c.fail(e, "binary operator %s", x.Op)
	case *ast.SliceExpr:
		if x.Slice3 {
			c.fail(e, "three-index slice")
		}
		if !isByteSlice(c.typeOf(x.X)) {
			c.fail(e, "slice of something that is not a []byte (%v)", c.typeOf(x.X))
		}
		for _, b := range []ast.Expr{x.Low, x.High} {
			if b != nil {
				if tv := c.info.Types[b]; tv.Value == nil {
					c.emitShallow("bound", &c.nBound, b)
				}
			}
		}
		return fmt.Sprintf("(XSlice %s %s %s)", c.x(x.X), c.optx(x.Low), c.optx(x.High))
	case *ast.UnaryExpr:
		// &T{K: v, ...} with plain variables as values: a new record
		if cl, ok := x.X.(*ast.CompositeLit); ok && x.Op == token.AND {
			if id, ok := cl.Type.(*ast.Ident); ok {
				var fs []string
				for _, el := range cl.Elts {
					kv, ok := el.(*ast.KeyValueExpr)
					if !ok {
						c.fail(el, "%s literal without field names", id.Name)
					}
					k, ok1 := kv.Key.(*ast.Ident)
					v, ok2 := kv.Value.(*ast.Ident)
					if !ok1 || !ok2 || v.Name == "nil" || v.Name == "_" {
						c.fail(el, "%s literal: field value is not a plain variable", id.Name)
					}
					if _, isVar := c.info.Uses[v].(*types.Var); !isVar {
						c.fail(el, "%s literal: %s is not a variable", id.Name, v.Name)
					}
					if o := c.info.Uses[v]; o.Parent() == c.pkg.Scope() {
						c.fail(el, "%s literal: %s is a package-level variable", id.Name, v.Name)
					}
					fs = append(fs, fmt.Sprintf("(%s, %s)", cq(k.Name), cq(v.Name)))
				}
				return fmt.Sprintf("(XNew %s [%s])", cq(id.Name), strings.Join(fs, "; "))
			}
		}
		c.fail(e, "unary operator %s", x.Op)
	case *ast.CompositeLit:
		if at, ok := x.Type.(*ast.ArrayType); ok && at.Len == nil {
			if id, ok := at.Elt.(*ast.Ident); ok && id.Name == "byte" {
				var bs []string
				for _, el := range x.Elts {
					tv := c.info.Types[el]
					if tv.Value == nil || tv.Value.Kind() != constant.Int {
						c.fail(el, "element of a []byte literal is not a constant")
					}
					bs = append(bs, "("+c.constText(el)+")%Z")
				}
				return "(XByteLit [" + strings.Join(bs, "; ") + "])"
			}
		}
		c.fail(e, "composite literal")
	case *ast.CallExpr:
		if x.Ellipsis != token.NoPos {
			c.fail(e, "call with ellipsis")
		}
		if tv, ok := c.info.Types[x.Fun]; ok && tv.IsType() {
			if len(x.Args) != 1 {
				c.fail(e, "conversion with %d arguments", len(x.Args))
			}
			if signed, w, ok := intKind(tv.Type); ok {
				if !signed {
					c.fail(e, "conversion to an unsigned type")
				}
				return fmt.Sprintf("(XConv %d %s)", w, c.x(x.Args[0]))
			}
			if isString(tv.Type) {
				if !isByteSlice(c.typeOf(x.Args[0])) {
					c.fail(e, "string(x) of an x that is not a []byte (%v)", c.typeOf(x.Args[0]))
				}
				return "(XStringOf " + c.x(x.Args[0]) + ")"
			}
			if isByteSlice(tv.Type) {
				if !isString(c.typeOf(x.Args[0])) {
					c.fail(e, "[]byte(x) of an x that is not a string (%v)", c.typeOf(x.Args[0]))
				}
				return "(XBytesOf " + c.x(x.Args[0]) + ")"
			}
			c.fail(e, "conversion to %v", tv.Type)
		}
		switch c.selName(x.Fun) {
		case "len":
			if len(x.Args) == 1 {
				return "(XLen " + c.x(x.Args[0]) + ")"
			}
		case "binary.LittleEndian.Uint32":
			if len(x.Args) == 1 {
				return "(XLEU32 " + c.x(x.Args[0]) + ")"
			}
		case "errors.New":
			if len(x.Args) == 1 {
				if s, ok := c.strLit(x.Args[0]); ok {
					return "(XErrNew " + cq(s) + ")"
				}
			}
		case "fmt.Errorf":
			if len(x.Args) >= 1 {
				if s, ok := c.strLit(x.Args[0]); ok {
					return "(XErrorf " + cq(s) + " " + c.xs(x.Args[1:]) + ")"
				}
			}
		case "rand.Int31":
			if len(x.Args) == 0 {
				return "XRand31"
			}
		}
		c.fail(e, "call of %s", c.selName(x.Fun))
	}
	c.fail(e, "expression %T", e)
	return ""
}

func (c *c16ctx) strLit(e ast.Expr) (string, bool) {
	l, ok := e.(*ast.BasicLit)
	if !ok || l.Kind != token.STRING {
		return "", false
	}
	s, err := strconv.Unquote(l.Value)
	if err != nil {
		return "", false
	}
	for i := 0; i < len(s); i++ {
		if s[i] < 32 || s[i] > 126 {
			return "", false
		}
	}
	return s, true
}

// ---------------------------------------------------------------- statements

func cblock(items []string, ind string) string {
	if len(items) == 0 {
		return "[]"
	}
	return "[\n" + ind + "  " + strings.Join(items, ";\n"+ind+"  ") + " ]"
}

func cbool(b bool) string {
	if b {
		return "true"
	}
	return "false"
}

// noPkgVar: a package-level variable (state shared between connections) is outside the model
func (c *c16ctx) noPkgVar(id *ast.Ident) {
	o := c.info.Uses[id]
	if o == nil {
		o = c.info.Defs[id]
	}
	if v, ok := o.(*types.Var); ok && v.Parent() == c.pkg.Scope() {
		c.fail(id, "package-level variable %s (state shared between connections is outside the model)", id.Name)
	}
}

func (c *c16ctx) idents(es []ast.Expr) []string {
	var out []string
	for _, e := range es {
		id, ok := e.(*ast.Ident)
		if !ok {
			c.fail(e, "left-hand side is not an identifier")
		}
		c.noPkgVar(id)
		out = append(out, id.Name)
	}
	return out
}

// connCall recognises o.M(args) on the connection variable
func (c *c16ctx) connCall(e ast.Expr, method string) (*ast.CallExpr, bool) {
	call, ok := e.(*ast.CallExpr)
	if !ok || call.Ellipsis != token.NoPos {
		return nil, false
	}
	sel, ok := call.Fun.(*ast.SelectorExpr)
	if !ok || sel.Sel.Name != method {
		return nil, false
	}
	id, ok := sel.X.(*ast.Ident)
	if !ok || id.Name != c.conn {
		return nil, false
	}
	return call, true
}

// binary.Read(o, binary.LittleEndian, &x) / binary.Write(b, binary.LittleEndian, v)
func (c *c16ctx) binaryCall(e ast.Expr, fn string) (first string, third ast.Expr, ok bool) {
	call, isCall := e.(*ast.CallExpr)
	if !isCall || c.selName(call.Fun) != "binary."+fn {
		return "", nil, false
	}
	if len(call.Args) != 3 || call.Ellipsis != token.NoPos || c.selName(call.Args[1]) != "binary.LittleEndian" {
		c.fail(e, "binary.%s with an argument list other than (x, binary.LittleEndian, y)", fn)
	}
	id, isId := call.Args[0].(*ast.Ident)
	if !isId {
		c.fail(e, "binary.%s on something that is not a variable", fn)
	}
	return id.Name, call.Args[2], true
}

func (c *c16ctx) assign(s *ast.AssignStmt, ind string) string {
	def := s.Tok == token.DEFINE
	if s.Tok != token.DEFINE && s.Tok != token.ASSIGN {
		c.fail(s, "assignment operator %s", s.Tok)
	}
	if len(s.Rhs) != 1 {
		c.fail(s, "assignment with %d right-hand sides", len(s.Rhs))
	}
	rhs := s.Rhs[0]
	// err = binary.Read(r, binary.LittleEndian, &x)
	if o, third, ok := c.binaryCall(rhs, "Read"); ok {
		if def || len(s.Lhs) != 1 || c.selName(s.Lhs[0]) != "err" {
			c.fail(s, "result of binary.Read not assigned to err")
		}
		if o != c.conn {
			c.fail(s, "binary.Read from %s, not from the connection %s", o, c.conn)
		}
		u, ok := third.(*ast.UnaryExpr)
		if !ok || u.Op != token.AND {
			c.fail(s, "binary.Read target is not &x")
		}
		id, ok := u.X.(*ast.Ident)
		if !ok {
			c.fail(s, "binary.Read target is not &x")
		}
		ty := c.typeOf(id)
		if signed, w, ok := intKind(ty); ok && signed && w == 32 {
			if b, _ := ty.Underlying().(*types.Basic); b != nil && b.Kind() == types.Int32 {
				return fmt.Sprintf("SReadI32 %s %s", cq(o), cq(id.Name))
			}
		}
		if isByteSlice(ty) {
			return fmt.Sprintf("SReadBuf %s %s", cq(o), cq(id.Name))
		}
		c.fail(s, "binary.Read into a %v", ty)
	}
	if _, _, ok := c.binaryCall(rhs, "Write"); ok {
		c.fail(s, "binary.Write outside the recognised loop")
	}
	// calls on the connection
	if call, ok := c.connCall(rhs, "ReadPacket"); ok {
		if len(call.Args) != 0 || len(s.Lhs) != 4 {
			c.fail(s, "ReadPacket call shape")
		}
		return fmt.Sprintf("SCallRead %s %s %s", cbool(def), cq(c.conn), cqlist(c.idents(s.Lhs)))
	}
	if call, ok := c.connCall(rhs, "WritePacket"); ok {
		if len(call.Args) != 3 || len(s.Lhs) != 1 {
			c.fail(s, "WritePacket call shape")
		}
		return fmt.Sprintf("SCallWrite %s %s %s %s", cbool(def), cq(c.conn), cq(c.idents(s.Lhs)[0]), c.xs(call.Args))
	}
	if call, ok := c.connCall(rhs, "Write"); ok {
		// _, err := r.Write(buf.Bytes())
		ls := c.idents(s.Lhs)
		if !def || len(ls) != 2 || ls[0] != "_" || ls[1] != "err" || len(call.Args) != 1 {
			c.fail(s, "connection Write call shape")
		}
		inner, ok := call.Args[0].(*ast.CallExpr)
		if !ok || len(inner.Args) != 0 {
			c.fail(s, "connection Write argument is not b.Bytes()")
		}
		sel, ok := inner.Fun.(*ast.SelectorExpr)
		if !ok || sel.Sel.Name != "Bytes" {
			c.fail(s, "connection Write argument is not b.Bytes()")
		}
		b, ok := sel.X.(*ast.Ident)
		if !ok {
			c.fail(s, "connection Write argument is not b.Bytes()")
		}
		return fmt.Sprintf("SConnWrite %s %s", cq(c.conn), cq(b.Name))
	}
	if call, ok := rhs.(*ast.CallExpr); ok {
		switch c.selName(call.Fun) {
		case "make":
			// x := make([]byte, n)
			if def && len(s.Lhs) == 1 && len(call.Args) == 2 {
				if at, ok := call.Args[0].(*ast.ArrayType); ok && at.Len == nil {
					if id, ok := at.Elt.(*ast.Ident); ok && id.Name == "byte" {
						if tv := c.info.Types[call.Args[1]]; tv.Value == nil {
							c.emitShallow("make", &c.nMake, call.Args[1])
						}
						return fmt.Sprintf("SMake %s %s", cq(c.idents(s.Lhs)[0]), c.x(call.Args[1]))
					}
				}
			}
			c.fail(s, "make call shape")
		case "new":
			if def && len(s.Lhs) == 1 && len(call.Args) == 1 && c.selName(call.Args[0]) == "bytes.Buffer" {
				return fmt.Sprintf("SNewBuffer %s", cq(c.idents(s.Lhs)[0]))
			}
			c.fail(s, "new call shape")
		case "net.Listen":
			// l, err := net.Listen("tcp", addr)
			if ls := c.idents(s.Lhs); def && len(ls) == 2 && ls[1] == "err" {
				a, err := c.text.gxs(call.Args)
				if err != nil {
					c.fail(s, "net.Listen arguments: %v", err)
				}
				return fmt.Sprintf("SListen %s %s", cq(ls[0]), cq(a))
			}
			c.fail(s, "net.Listen call shape")
		case c.conn + ".Listener.Accept":
			// conn, err := r.Listener.Accept()
			if ls := c.idents(s.Lhs); def && len(ls) == 2 && ls[1] == "err" && len(call.Args) == 0 {
				return fmt.Sprintf("SAcceptConn %s %s", cq(ls[0]), cq(c.conn))
			}
			c.fail(s, "Listener.Accept call shape")
		case "net.Dial":
			// c.Conn, err = net.Dial("tcp", addr)
			if !def && len(s.Lhs) == 2 && c.selName(s.Lhs[0]) == c.conn+".Conn" && c.selName(s.Lhs[1]) == "err" {
				a, err := c.text.gxs(call.Args)
				if err != nil {
					c.fail(s, "net.Dial arguments: %v", err)
				}
				return fmt.Sprintf("SDial %s %s", cq(c.conn), cq(a))
			}
			c.fail(s, "net.Dial call shape")
		}
	}
	// c := &RCONConn{ReqID: rand.Int31()}
	if u, ok := rhs.(*ast.UnaryExpr); ok && u.Op == token.AND {
		if cl, ok := u.X.(*ast.CompositeLit); ok && c.selName(cl.Type) == "RCONConn" && def && len(s.Lhs) == 1 {
			var fs []string
			for _, el := range cl.Elts {
				kv, ok := el.(*ast.KeyValueExpr)
				if !ok {
					c.fail(el, "RCONConn literal without field names")
				}
				fs = append(fs, fmt.Sprintf("(%s, %s)", cq(c.selName(kv.Key)), c.x(kv.Value)))
			}
			return fmt.Sprintf("SNewConn %s [%s]", cq(c.idents(s.Lhs)[0]), strings.Join(fs, "; "))
		}
	}
	if len(s.Lhs) != 1 {
		c.fail(s, "assignment with %d left-hand sides", len(s.Lhs))
	}
	// o.f = e
	if sel, ok := s.Lhs[0].(*ast.SelectorExpr); ok {
		id, ok := sel.X.(*ast.Ident)
		if !ok || id.Name != c.conn || def {
			c.fail(s, "assignment to a field outside the connection variable")
		}
		return fmt.Sprintf("SSetField %s %s %s", cq(id.Name), cq(sel.Sel.Name), c.x(rhs))
	}
	return fmt.Sprintf("SAssign %s %s %s", cbool(def), cq(c.idents(s.Lhs)[0]), c.x(rhs))
}

func (c *c16ctx) block(list []ast.Stmt, ind string) []string {
	var out []string
	for _, s := range list {
		out = append(out, c.stmt(s, ind))
	}
	return out
}

func (c *c16ctx) stmt(s ast.Stmt, ind string) string {
	switch x := s.(type) {
	case *ast.DeclStmt:
		gd, ok := x.Decl.(*ast.GenDecl)
		if !ok || gd.Tok != token.VAR || len(gd.Specs) != 1 {
			c.fail(s, "declaration")
		}
		vs := gd.Specs[0].(*ast.ValueSpec)
		if len(vs.Values) != 0 || vs.Type == nil {
			c.fail(s, "var declaration with initialiser or without type")
		}
		var names []string
		for _, n := range vs.Names {
			names = append(names, n.Name)
		}
		return fmt.Sprintf("SVar %s %s", cqlist(names), cq(c.selName(vs.Type)))
	case *ast.AssignStmt:
		return c.assign(x, ind)
	case *ast.IfStmt:
		if x.Init != nil {
			c.fail(s, "if with an initialiser")
		}
		if be, ok := x.Cond.(*ast.BinaryExpr); ok && !c.isNil(be.Y) {
			if _, _, isInt := intKind(c.typeOf(be.X)); isInt {
				c.emitShallow("cond", &c.nCond, x.Cond)
			}
		}
		cond := c.x(x.Cond)
		th := c.block(x.Body.List, ind+"  ")
		var el []string
		switch e := x.Else.(type) {
		case nil:
		case *ast.BlockStmt:
			el = c.block(e.List, ind+"  ")
		case *ast.IfStmt:
			el = []string{c.stmt(e, ind+"  ")}
		default:
			c.fail(s, "else branch %T", x.Else)
		}
		return fmt.Sprintf("SIf %s %s %s", cond, cblock(th, ind+"  "), cblock(el, ind+"  "))
	case *ast.ReturnStmt:
		if len(x.Results) == 1 {
			if call, ok := c.connCall(x.Results[0], "WritePacket"); ok {
				if len(call.Args) != 3 {
					c.fail(s, "WritePacket call shape")
				}
				return fmt.Sprintf("SReturnWrite %s %s", cq(c.conn), c.xs(call.Args))
			}
		}
		return "SReturn " + c.xs(x.Results)
	case *ast.RangeStmt:
		return c.writeEach(x)
	}
	c.fail(s, "statement %T", s)
	return ""
}

// for _, v := range []any{ items } { err := binary.Write(b, binary.LittleEndian, v); if err != nil { return err } }
func (c *c16ctx) writeEach(x *ast.RangeStmt) string {
	k, ok1 := x.Key.(*ast.Ident)
	v, ok2 := x.Value.(*ast.Ident)
	if !ok1 || !ok2 || k.Name != "_" || x.Tok != token.DEFINE {
		c.fail(x, "range loop header")
	}
	cl, ok := x.X.(*ast.CompositeLit)
	if !ok {
		c.fail(x, "range over something that is not a composite literal")
	}
	at, ok := cl.Type.(*ast.ArrayType)
	if !ok || at.Len != nil {
		c.fail(x, "range over something that is not a slice literal")
	}
	switch el := at.Elt.(type) {
	case *ast.Ident:
		if el.Name != "any" {
			c.fail(x, "range over a slice of %s", el.Name)
		}
	case *ast.InterfaceType:
		if el.Methods != nil && len(el.Methods.List) != 0 {
			c.fail(x, "range over a slice of a non-empty interface")
		}
	default:
		c.fail(x, "range over a slice literal of unknown element type")
	}
	if len(x.Body.List) != 2 {
		c.fail(x, "range loop body has %d statements, want 2", len(x.Body.List))
	}
	as, ok := x.Body.List[0].(*ast.AssignStmt)
	if !ok || as.Tok != token.DEFINE || len(as.Lhs) != 1 || len(as.Rhs) != 1 || c.selName(as.Lhs[0]) != "err" {
		c.fail(x, "range loop body: first statement is not err := binary.Write(...)")
	}
	b, third, ok := c.binaryCall(as.Rhs[0], "Write")
	if !ok || c.selName(third) != v.Name {
		c.fail(x, "range loop body: first statement is not err := binary.Write(b, binary.LittleEndian, %s)", v.Name)
	}
	ifs, ok := x.Body.List[1].(*ast.IfStmt)
	if !ok || ifs.Init != nil || ifs.Else != nil || len(ifs.Body.List) != 1 {
		c.fail(x, "range loop body: second statement is not if err != nil { return err }")
	}
	be, ok := ifs.Cond.(*ast.BinaryExpr)
	if !ok || be.Op != token.NEQ || c.selName(be.X) != "err" || !c.isNil(be.Y) {
		c.fail(x, "range loop body: second statement is not if err != nil { return err }")
	}
	rs, ok := ifs.Body.List[0].(*ast.ReturnStmt)
	if !ok || len(rs.Results) != 1 || c.selName(rs.Results[0]) != "err" {
		c.fail(x, "range loop body: second statement is not if err != nil { return err }")
	}
	var items []string
	for _, el := range cl.Elts {
		ty := c.typeOf(el)
		switch {
		case isByteSlice(ty):
			items = append(items, "(WBytes, "+c.x(el)+")")
		default:
			bt, _ := ty.Underlying().(*types.Basic)
			if bt == nil || bt.Kind() != types.Int32 {
				c.fail(el, "element of type %v handed to binary.Write (only int32 and []byte are understood)", ty)
			}
			if _, isId := el.(*ast.Ident); !isId {
				c.emitShallow("item", &c.nItem, el)
			}
			items = append(items, "(WInt32, "+c.x(el)+")")
		}
	}
	return fmt.Sprintf("SWriteEach %s [%s]", cq(b), strings.Join(items, "; "))
}

// ---------------------------------------------------------------- driver

func genC16(repo string) (out string, err error) {
	defer func() {
		if r := recover(); r != nil {
			if ce, ok := r.(c16Err); ok {
				err = fmt.Errorf("%s", ce.msg)
				return
			}
			panic(r)
		}
	}()
	fset := token.NewFileSet()
	files, _, e := parseDir(fset, filepath.Join(repo, "net"))
	if e != nil {
		return "", e
	}
	conf := types.Config{Importer: &fakeImporter{map[string]*types.Package{}}, Error: func(error) {}}
	info := &types.Info{Types: map[ast.Expr]types.TypeAndValue{}, Defs: map[*ast.Ident]types.Object{}, Uses: map[*ast.Ident]types.Object{}}
	pkg, _ := conf.Check("net", fset, files, info)
	if pkg == nil {
		return "", fmt.Errorf("cannot type-check net")
	}
	// only net/rcon.go is looked at
	var rcon []*ast.File
	for _, f := range files {
		if filepath.Base(fset.Position(f.Pos()).Filename) == "rcon.go" {
			rcon = append(rcon, f)
		}
	}
	if len(rcon) != 1 {
		return "", fmt.Errorf("net/rcon.go not found")
	}
	// every function of the file must be one of the listed ones: a new function is a new thing to model
	want := map[string]bool{}
	for _, f := range c16Funcs {
		want[f.recv+"."+f.name] = true
	}
	for _, d := range rcon[0].Decls {
		fd, ok := d.(*ast.FuncDecl)
		if !ok {
			continue
		}
		r := ""
		if fd.Recv != nil && len(fd.Recv.List) == 1 {
			ty := fd.Recv.List[0].Type
			if st, ok := ty.(*ast.StarExpr); ok {
				ty = st.X
			}
			if id, ok := ty.(*ast.Ident); ok {
				r = id.Name
			}
		}
		if !want[r+"."+fd.Name.Name] {
			return "", fmt.Errorf("%s: function %s.%s of net/rcon.go is not in the list of translated functions", fset.Position(fd.Pos()), r, fd.Name.Name)
		}
	}
	var defs, shallow bytes.Buffer
	// the fields of RCONConn and RCONListener (a record made by &T{...} has the zero value of every field the
	// literal does not set); any OTHER struct type or any package-level variable in the file is a new thing
	// to model
	{
		structs := map[string]string{}
		for _, d := range rcon[0].Decls {
			gd, ok := d.(*ast.GenDecl)
			if !ok {
				continue
			}
			if gd.Tok == token.VAR {
				return "", fmt.Errorf("%s: package-level variable in net/rcon.go (state shared between connections is outside the model)", fset.Position(gd.Pos()))
			}
			if gd.Tok != token.TYPE {
				continue
			}
			for _, sp := range gd.Specs {
				ts := sp.(*ast.TypeSpec)
				st, ok := ts.Type.(*ast.StructType)
				if !ok {
					continue
				}
				g := &gctx{fset: fset, vars: map[string]string{}, seen: map[string]bool{}}
				var fields []string
				for _, f := range st.Fields.List {
					ty, err := g.gx(f.Type)
					if err != nil {
						return "", err
					}
					if len(f.Names) == 0 {
						// an embedded field is named after its type (net.Conn -> Conn)
						fields = append(fields, fmt.Sprintf("(%s, %s)", cq(ty[strings.LastIndex(ty, ".")+1:]), cq("embedded "+ty)))
					}
					for _, n := range f.Names {
						fields = append(fields, fmt.Sprintf("(%s, %s)", cq(n.Name), cq(ty)))
					}
				}
				structs[ts.Name.Name] = "[" + strings.Join(fields, "; ") + "]"
			}
		}
		for _, want := range []struct{ goName, coq string }{{"RCONConn", "rcon_conn_fields"}, {"RCONListener", "rcon_listener_fields"}} {
			fs, ok := structs[want.goName]
			if !ok {
				return "", fmt.Errorf("net/rcon.go: struct %s not found", want.goName)
			}
			delete(structs, want.goName)
			fmt.Fprintf(&defs, "(* net/rcon.go: type %s struct (field name, declared type) *)\nDefinition %s : list (string * string) := %s.\n\n", want.goName, want.coq, fs)
		}
		for n := range structs {
			return "", fmt.Errorf("net/rcon.go: struct type %s is not modelled", n)
		}
	}
	for _, f := range c16Funcs {
		fd := findFunc(rcon, f.recv, f.name)
		if fd == nil || fd.Body == nil {
			return "", fmt.Errorf("net/rcon.go: function %s.%s not found", f.recv, f.name)
		}
		conn := f.conn
		if conn == "" {
			if fd.Recv == nil || len(fd.Recv.List) != 1 || len(fd.Recv.List[0].Names) != 1 {
				return "", fmt.Errorf("net/rcon.go: %s.%s has no named receiver", f.recv, f.name)
			}
			conn = fd.Recv.List[0].Names[0].Name
			if _, isPtr := fd.Recv.List[0].Type.(*ast.StarExpr); !isPtr {
				return "", fmt.Errorf("net/rcon.go: %s.%s has a value receiver", f.recv, f.name)
			}
		}
		c := &c16ctx{fset: fset, info: info, pkg: pkg, conn: conn, fn: f.coq, shallow: &shallow,
			text: &gctx{fset: fset, conn: conn, vars: map[string]string{}, seen: map[string]bool{}}}
		// parameters and results with their declared types (unnamed results have the empty name)
		typed := func(fl *ast.FieldList) []string {
			var out []string
			if fl == nil {
				return nil
			}
			for _, f := range fl.List {
				ty, err := c.text.gx(f.Type)
				if err != nil {
					c.fail(f, "%v", err)
				}
				if len(f.Names) == 0 {
					out = append(out, fmt.Sprintf("(%s, %s)", cq(""), cq(ty)))
				}
				for _, n := range f.Names {
					out = append(out, fmt.Sprintf("(%s, %s)", cq(n.Name), cq(ty)))
				}
			}
			return out
		}
		params := "[" + strings.Join(typed(fd.Type.Params), "; ") + "]"
		results := "[" + strings.Join(typed(fd.Type.Results), "; ") + "]"
		body := c.block(fd.Body.List, "    ")
		recv := f.recv
		if recv != "" {
			recv += "."
		}
		fmt.Fprintf(&defs, "(* net/rcon.go: %s%s *)\nDefinition %s : rfunc :=\n  {| f_conn := %s; f_params := %s; f_results := %s;\n     f_body := %s |}.\n\n",
			recv, f.name, f.coq, cq(conn), params, results, cblock(body, "    "))
	}
	var b bytes.Buffer
	b.WriteString("(* GENERATED by tools/gotrans (c16.go) from net/rcon.go - do not edit *)\n")
	b.WriteString("From Coq Require Import List String ZArith NArith Bool.\n")
	b.WriteString("From GoMC Require Import Base.GoInt Gen.Consts Model.C16_syntax.\n")
	b.WriteString("Import ListNotations.\nLocal Open Scope string_scope.\nLocal Open Scope Z_scope.\nLocal Open Scope bool_scope.\n\n")
	b.WriteString("(* ---- statement skeletons *)\n")
	b.Write(defs.Bytes())
	b.WriteString("(* ---- integer expressions, translated as in Gen/Funcs.v (explicit wrap, constants folded) *)\n")
	b.Write(shallow.Bytes())
	return b.String(), nil
}

// emitC16 is the one call made from main: failures are loud
func emitC16(repo, outdir string) {
	s, err := genC16(repo)
	if err == nil {
		err = writeIfChanged(filepath.Join(outdir, "C16gen.v"), s)
	}
	if err != nil {
		fmt.Fprintln(os.Stderr, "gotrans: c16:", err)
		os.Exit(1)
	}
}
