package main

// c17.go: translation of package chat (property C17) into coq/Gen/C17gen.v.
//
//  1. STRUCT TAG TABLES.  For every struct type of chat/message.go, clickevent.go, hoverevent.go and
//     decoration.go (Message, translateMsg, ClickEvent, HoverEvent, HoverSub, Decoration and its anonymous
//     Style struct, Type) the ordered list of rows
//         FRow <Go field name> <json key> <json omitempty> <nbt key> <nbt omitempty> <Go type as text>
//     (type frow of coq/Model/C17_syntax.v).  Struct order is the encoding order of encoding/json and of
//     package nbt, so the ORDER of the rows is part of the table.  Plus the defined types that are not
//     structs (`type rawMsgStruct Message`, `type TranslateArgs []any`, `type JsonMessage Message`).
//  2. TABLES.  The composite literals of `fmtCode` (map[byte]string) and `colors` (map[string]string, keys
//     are the package's colour constants, resolved to their string values) in SOURCE ORDER, as byte lists,
//     and the regular expression of `fmtPat`.
//  4. INDEX / SLICE SITES of ClearString, String and TransCtrlSeq (type site17): every expression x[i] / x[lo:hi] with
//     the conditions that enclose it (the bounds guards), for the "rendering never panics" clause.
//  5. ALL FUNCTIONS: the names of every function of message.go, nbtmessage.go, jsonmessage.go and decoration.go
//     (Proofs/C17_skel.v compares them with the names that carry an interpretation lemma).
//  3. FUNCTION SKELETONS (type cstmt17): Message.ClearString / String, TransCtrlSeq, Text, Message.ReadFrom /
//     WriteTo / TagType / MarshalNBT / UnmarshalNBT, nbtArgs, TranslateArgs.UnmarshalNBT / UnmarshalJSON,
//     JsonMessage.ReadFrom / WriteTo, Message.MarshalJSON / UnmarshalJSON, Type.ReadFrom / WriteTo.  Control
//     flow is structural, every leaf is the source text rendered by go/printer on one line; the signature
//     (receiver kind included) is part of the term.
//
// Anything outside the shapes handled here (an embedded field, an unknown tag option, a key that is not a
// literal or a string constant, a statement kind that is not listed, a function literal that is not a call
// argument of a simple statement) makes gotrans exit non-zero with file:line.  Only go/parser, go/ast and
// go/printer are used.

import (
	"bytes"
	"fmt"
	"go/ast"
	"go/parser"
	"go/printer"
	"go/token"
	"os"
	"path/filepath"
	"reflect"
	"strconv"
	"strings"
)

type c17err struct{ msg string }

type c17ctx struct {
	fset    *token.FileSet
	siteAcc []string // index / slice sites of the body being walked, in source order
}

func (c *c17ctx) fail(n ast.Node, f string, a ...any) {
	panic(c17err{fmt.Sprintf("%s: %s", c.fset.Position(n.Pos()), fmt.Sprintf(f, a...))})
}

// text renders a node on one line (go/printer; runs of white space collapsed)
func (c *c17ctx) text(n ast.Node) string {
	var b bytes.Buffer
	cfg := printer.Config{Mode: printer.RawFormat}
	if err := cfg.Fprint(&b, c.fset, n); err != nil {
		c.fail(n, "cannot render: %v", err)
	}
	return strings.Join(strings.Fields(b.String()), " ")
}

func c17q(s string) string {
	for i := 0; i < len(s); i++ {
		if s[i] < 0x20 || s[i] >= 0x7f {
			panic(c17err{fmt.Sprintf("text %q cannot be rendered as a Coq string", s)})
		}
	}
	return "\"" + strings.ReplaceAll(s, "\"", "\"\"") + "\""
}

func c17qlist(xs []string) string {
	q := make([]string, len(xs))
	for i, x := range xs {
		q[i] = c17q(x)
	}
	return "[" + strings.Join(q, "; ") + "]"
}

func c17bytes(s string) string {
	p := make([]string, len(s))
	for i := 0; i < len(s); i++ {
		p[i] = strconv.Itoa(int(s[i]))
	}
	return "[" + strings.Join(p, "; ") + "]"
}

func c17block(items []string, ind string) string {
	if len(items) == 0 {
		return "[]"
	}
	return "[\n" + ind + "  " + strings.Join(items, ";\n"+ind+"  ") + " ]"
}

func c17hasFuncLit(n ast.Node) bool {
	found := false
	ast.Inspect(n, func(x ast.Node) bool {
		if _, ok := x.(*ast.FuncLit); ok {
			found = true
		}
		return !found
	})
	return found
}

// ---------------------------------------------------------------- statements

func (c *c17ctx) stmts(list []ast.Stmt, ind string) []string {
	var out []string
	for _, s := range list {
		out = append(out, c.stmt(s, ind))
	}
	return out
}

// a simple statement that holds exactly one function literal, as a direct argument of a call that is the
// statement itself or the only right-hand side of an assignment
func (c *c17ctx) callback(s ast.Stmt, ind string) string {
	var call *ast.CallExpr
	switch x := s.(type) {
	case *ast.ExprStmt:
		call, _ = x.X.(*ast.CallExpr)
	case *ast.AssignStmt:
		if len(x.Rhs) == 1 {
			call, _ = x.Rhs[0].(*ast.CallExpr)
		}
	}
	if call == nil {
		c.fail(s, "function literal outside a call argument")
	}
	idx := -1
	for i, a := range call.Args {
		if _, ok := a.(*ast.FuncLit); ok {
			if idx >= 0 {
				c.fail(s, "two function literals in one call")
			}
			idx = i
		} else if c17hasFuncLit(a) {
			c.fail(a, "nested function literal")
		}
	}
	if idx < 0 || c17hasFuncLit(call.Fun) {
		c.fail(s, "function literal outside a call argument")
	}
	lit := call.Args[idx].(*ast.FuncLit)
	sig := c.text(lit.Type)
	body := c.stmts(lit.Body.List, ind+"  ")
	// the statement with the literal replaced by the placeholder identifier
	saved := call.Args[idx]
	call.Args[idx] = ast.NewIdent("FUNC__LITERAL")
	txt := c.text(s)
	call.Args[idx] = saved
	if strings.Count(txt, "FUNC__LITERAL") != 1 {
		c.fail(s, "cannot place the function literal")
	}
	txt = strings.Replace(txt, "FUNC__LITERAL", "<func>", 1)
	return fmt.Sprintf("CCallback %s %s %s", c17q(txt), c17q(sig), c17block(body, ind))
}

func (c *c17ctx) simpleText(s ast.Stmt) string {
	if s == nil {
		return ""
	}
	switch s.(type) {
	case *ast.ExprStmt, *ast.AssignStmt, *ast.IncDecStmt:
		if c17hasFuncLit(s) {
			c.fail(s, "function literal in a statement header")
		}
		return c.text(s)
	}
	c.fail(s, "unknown simple statement %T", s)
	return ""
}

func (c *c17ctx) elseBranch(s ast.Stmt, ind string) []string {
	switch x := s.(type) {
	case nil:
		return nil
	case *ast.BlockStmt:
		return c.stmts(x.List, ind)
	case *ast.IfStmt:
		return []string{c.stmt(x, ind)}
	}
	c.fail(s, "unknown else branch %T", s)
	return nil
}

func (c *c17ctx) cases(body *ast.BlockStmt, ind string) string {
	var cases []string
	for _, cl := range body.List {
		cc, ok := cl.(*ast.CaseClause)
		if !ok {
			c.fail(cl, "unknown clause %T", cl)
		}
		var labels []string
		for _, l := range cc.List {
			if c17hasFuncLit(l) {
				c.fail(l, "function literal in a case label")
			}
			labels = append(labels, c.text(l))
		}
		for _, st := range cc.Body {
			if br, ok := st.(*ast.BranchStmt); ok {
				c.fail(br, "branch statement %s inside a case", br.Tok)
			}
		}
		b := c.stmts(cc.Body, ind+"    ")
		cases = append(cases, fmt.Sprintf("(%s, %s)", c17qlist(labels), c17block(b, ind+"  ")))
	}
	return c17block(cases, ind)
}

func (c *c17ctx) stmt(s ast.Stmt, ind string) string {
	switch x := s.(type) {
	case *ast.ExprStmt, *ast.AssignStmt, *ast.IncDecStmt:
		if c17hasFuncLit(s) {
			return c.callback(s, ind)
		}
		return "CText " + c17q(c.text(s))
	case *ast.DeclStmt:
		gd, ok := x.Decl.(*ast.GenDecl)
		if !ok || gd.Tok != token.VAR || c17hasFuncLit(s) {
			c.fail(s, "unknown declaration")
		}
		return "CText " + c17q(c.text(s))
	case *ast.IfStmt:
		if c17hasFuncLit(x.Cond) {
			c.fail(x.Cond, "function literal in a condition")
		}
		th := c.stmts(x.Body.List, ind+"  ")
		el := c.elseBranch(x.Else, ind+"  ")
		return fmt.Sprintf("CIf %s %s %s %s", c17q(c.simpleText(x.Init)), c17q(c.text(x.Cond)), c17block(th, ind), c17block(el, ind))
	case *ast.SwitchStmt:
		if x.Tag == nil {
			c.fail(s, "switch without a tag")
		}
		if c17hasFuncLit(x.Tag) {
			c.fail(x.Tag, "function literal in a switch tag")
		}
		return fmt.Sprintf("CSwitch %s %s %s", c17q(c.simpleText(x.Init)), c17q(c.text(x.Tag)), c.cases(x.Body, ind))
	case *ast.TypeSwitchStmt:
		if x.Init != nil {
			c.fail(s, "type switch with an initialiser")
		}
		return fmt.Sprintf("CTypeSwitch %s %s", c17q(c.simpleText(x.Assign)), c.cases(x.Body, ind))
	case *ast.RangeStmt:
		if c17hasFuncLit(x.X) {
			c.fail(x.X, "function literal in a range header")
		}
		head := ""
		if x.Key != nil {
			head = c.text(x.Key)
			if x.Value != nil {
				head += ", " + c.text(x.Value)
			}
			head += " " + x.Tok.String() + " "
		} else if x.Value != nil {
			c.fail(s, "range with a value and no key")
		}
		head += "range " + c.text(x.X)
		return fmt.Sprintf("CRange %s %s", c17q(head), c17block(c.stmts(x.Body.List, ind+"  "), ind))
	case *ast.ReturnStmt:
		var rs []string
		for _, r := range x.Results {
			if c17hasFuncLit(r) {
				c.fail(r, "function literal in a return statement")
			}
			rs = append(rs, c.text(r))
		}
		return "CReturn " + c17qlist(rs)
	}
	c.fail(s, "unknown statement %T", s)
	return ""
}

// ---------------------------------------------------------------- index / slice sites

func c17with(guards []string, g string) []string { return append(append([]string{}, guards...), g) }

// siteExprs renders every IndexExpr / SliceExpr below n (an expression or a simple statement) with the
// conditions that enclose it; a function literal is entered with the extra guard `func`
func (c *c17ctx) siteExprs(fn string, n ast.Node, guards []string) {
	if n == nil || (reflect.ValueOf(n).Kind() == reflect.Ptr && reflect.ValueOf(n).IsNil()) {
		return
	}
	ast.Inspect(n, func(m ast.Node) bool {
		switch x := m.(type) {
		case *ast.FuncLit:
			c.siteStmts(fn, x.Body.List, c17with(guards, "func"))
			return false
		case *ast.IndexExpr:
			c.siteAcc = append(c.siteAcc, fmt.Sprintf("Site %s \"index\" %s %s \"\" %s", c17q(fn), c17q(c.text(x.X)), c17q(c.text(x.Index)), c17qlist(guards)))
		case *ast.SliceExpr:
			if x.Slice3 {
				c.fail(x, "three-index slice")
			}
			lo, hi := "", ""
			if x.Low != nil {
				lo = c.text(x.Low)
			}
			if x.High != nil {
				hi = c.text(x.High)
			}
			c.siteAcc = append(c.siteAcc, fmt.Sprintf("Site %s \"slice\" %s %s %s %s", c17q(fn), c17q(c.text(x.X)), c17q(lo), c17q(hi), c17qlist(guards)))
		}
		return true
	})
}

func (c *c17ctx) siteStmts(fn string, list []ast.Stmt, guards []string) {
	for _, s := range list {
		switch x := s.(type) {
		case *ast.IfStmt:
			c.siteExprs(fn, x.Init, guards)
			c.siteExprs(fn, x.Cond, guards)
			cond := c.text(x.Cond)
			c.siteStmts(fn, x.Body.List, c17with(guards, cond))
			switch e := x.Else.(type) {
			case nil:
			case *ast.BlockStmt:
				c.siteStmts(fn, e.List, c17with(guards, "!("+cond+")"))
			case *ast.IfStmt:
				c.siteStmts(fn, []ast.Stmt{e}, c17with(guards, "!("+cond+")"))
			default:
				c.fail(x.Else, "unknown else branch %T", x.Else)
			}
		case *ast.SwitchStmt:
			c.siteExprs(fn, x.Init, guards)
			c.siteExprs(fn, x.Tag, guards)
			for _, cl := range x.Body.List {
				cc := cl.(*ast.CaseClause)
				var ls []string
				for _, l := range cc.List {
					c.siteExprs(fn, l, guards)
					ls = append(ls, c.text(l))
				}
				c.siteStmts(fn, cc.Body, c17with(guards, "case "+strings.Join(ls, ", ")))
			}
		case *ast.TypeSwitchStmt:
			c.siteExprs(fn, x.Assign, guards)
			for _, cl := range x.Body.List {
				cc := cl.(*ast.CaseClause)
				var ls []string
				for _, l := range cc.List {
					ls = append(ls, c.text(l))
				}
				c.siteStmts(fn, cc.Body, c17with(guards, "case "+strings.Join(ls, ", ")))
			}
		case *ast.RangeStmt:
			c.siteExprs(fn, x.X, guards)
			head := "range " + c.text(x.X)
			if x.Key != nil {
				k := c.text(x.Key)
				if x.Value != nil {
					k += ", " + c.text(x.Value)
				}
				head = k + " " + x.Tok.String() + " " + head
			}
			c.siteStmts(fn, x.Body.List, c17with(guards, head))
		case *ast.ExprStmt, *ast.AssignStmt, *ast.IncDecStmt, *ast.DeclStmt, *ast.ReturnStmt:
			c.siteExprs(fn, s, guards)
		default:
			c.fail(s, "unknown statement %T", s)
		}
	}
}

// ---------------------------------------------------------------- struct tables

func (c *c17ctx) tagPart(f *ast.Field, tag reflect.StructTag, key string) (name string, omit bool) {
	v, ok := tag.Lookup(key)
	if !ok {
		return "", false
	}
	parts := strings.Split(v, ",")
	name = parts[0]
	if name == "" || name == "-" {
		c.fail(f, "%s tag %q: empty or skipping name", key, v)
	}
	for _, o := range parts[1:] {
		if o != "omitempty" {
			c.fail(f, "%s tag %q: unknown option %q", key, v, o)
		}
		if omit {
			c.fail(f, "%s tag %q: option given twice", key, v)
		}
		omit = true
	}
	return name, omit
}

// rows of one struct type; anonymous struct-typed fields are emitted as their own table <name>_<Field>
func (c *c17ctx) structRows(out *bytes.Buffer, name string, st *ast.StructType) {
	var rows []string
	for _, f := range st.Fields.List {
		if len(f.Names) != 1 {
			c.fail(f, "struct %s: embedded field or several names in one declaration", name)
		}
		tagText := ""
		if f.Tag != nil {
			t, err := strconv.Unquote(f.Tag.Value)
			if err != nil {
				c.fail(f, "struct %s: tag %s", name, f.Tag.Value)
			}
			tagText = t
		}
		tag := reflect.StructTag(tagText)
		// every key of the tag must be json or nbt (conventional `key:"value"` pairs only)
		rest := strings.TrimSpace(tagText)
		for rest != "" {
			i := strings.Index(rest, ":\"")
			if i <= 0 {
				c.fail(f, "struct %s: malformed tag %q", name, tagText)
			}
			k := rest[:i]
			if k != "json" && k != "nbt" {
				c.fail(f, "struct %s: unknown tag key %q", name, k)
			}
			j := strings.Index(rest[i+2:], "\"")
			if j < 0 {
				c.fail(f, "struct %s: malformed tag %q", name, tagText)
			}
			rest = strings.TrimSpace(rest[i+2+j+1:])
		}
		jn, jo := c.tagPart(f, tag, "json")
		nn, no := c.tagPart(f, tag, "nbt")
		ty := ""
		if inner, ok := f.Type.(*ast.StructType); ok {
			ty = "struct " + name + "_" + f.Names[0].Name
			c.structRows(out, name+"_"+f.Names[0].Name, inner)
		} else {
			ty = c.text(f.Type)
		}
		rows = append(rows, fmt.Sprintf("FRow %s %s %v %s %v %s", c17q(f.Names[0].Name), c17q(jn), jo, c17q(nn), no, c17q(ty)))
	}
	fmt.Fprintf(out, "Definition chat_%s_fields : list frow :=\n  %s.\n\n", name, c17block(rows, "  "))
}

// ---------------------------------------------------------------- generation

type c17fn struct{ file, recv, name string }

var c17funcs = []c17fn{
	{"message.go", "", "Text"},
	{"message.go", "Message", "ClearString"},
	{"message.go", "Message", "String"},
	{"message.go", "", "TransCtrlSeq"},
	{"nbtmessage.go", "Message", "ReadFrom"},
	{"nbtmessage.go", "Message", "WriteTo"},
	{"nbtmessage.go", "Message", "TagType"},
	{"nbtmessage.go", "Message", "MarshalNBT"},
	{"nbtmessage.go", "", "nbtArgs"},
	{"nbtmessage.go", "Message", "UnmarshalNBT"},
	{"nbtmessage.go", "TranslateArgs", "UnmarshalNBT"},
	{"jsonmessage.go", "JsonMessage", "ReadFrom"},
	{"jsonmessage.go", "JsonMessage", "WriteTo"},
	{"jsonmessage.go", "Message", "MarshalJSON"},
	{"jsonmessage.go", "Message", "UnmarshalJSON"},
	{"jsonmessage.go", "TranslateArgs", "UnmarshalJSON"},
	{"decoration.go", "Type", "ReadFrom"},
	{"decoration.go", "Type", "WriteTo"},
}

var c17structFiles = []string{"message.go", "clickevent.go", "hoverevent.go", "decoration.go", "jsonmessage.go", "nbtmessage.go"}

func genC17(repo string) (res string, err error) {
	defer func() {
		if r := recover(); r != nil {
			if e, ok := r.(c17err); ok {
				err = fmt.Errorf("%s", e.msg)
				return
			}
			panic(r)
		}
	}()
	fset := token.NewFileSet()
	c := &c17ctx{fset: fset}
	files := map[string]*ast.File{}
	for _, n := range c17structFiles {
		f, perr := parser.ParseFile(fset, filepath.Join(repo, "chat", n), nil, parser.SkipObjectResolution)
		if perr != nil {
			return "", perr
		}
		files[n] = f
	}
	var out bytes.Buffer
	out.WriteString("(* GENERATED by tools/gotrans (c17.go) from chat/message.go, clickevent.go, hoverevent.go, decoration.go,\n")
	out.WriteString("   jsonmessage.go and nbtmessage.go - do not edit *)\n")
	out.WriteString("From Coq Require Import List String NArith.\n")
	out.WriteString("From GoMC Require Import Model.C17_syntax.\n")
	out.WriteString("Import ListNotations.\nLocal Open Scope string_scope.\nLocal Open Scope N_scope.\n\n")

	// 1. struct tables and defined types, string constants
	strConst := map[string]string{}
	var typeDefs []string
	structs := 0
	for _, n := range c17structFiles {
		for _, d := range files[n].Decls {
			gd, ok := d.(*ast.GenDecl)
			if !ok {
				continue
			}
			switch gd.Tok {
			case token.TYPE:
				for _, sp := range gd.Specs {
					ts := sp.(*ast.TypeSpec)
					if ts.TypeParams != nil || ts.Assign != token.NoPos {
						c.fail(ts, "type %s: type parameters or alias", ts.Name.Name)
					}
					if st, ok := ts.Type.(*ast.StructType); ok {
						c.structRows(&out, ts.Name.Name, st)
						structs++
					} else {
						typeDefs = append(typeDefs, fmt.Sprintf("(%s, %s)", c17q(ts.Name.Name), c17q(c.text(ts.Type))))
					}
				}
			case token.CONST:
				for _, sp := range gd.Specs {
					vs := sp.(*ast.ValueSpec)
					if len(vs.Names) != 1 || len(vs.Values) != 1 {
						continue
					}
					if lit, ok := vs.Values[0].(*ast.BasicLit); ok && lit.Kind == token.STRING {
						s, uerr := strconv.Unquote(lit.Value)
						if uerr != nil {
							c.fail(lit, "string constant %s", lit.Value)
						}
						strConst[vs.Names[0].Name] = s
					}
				}
			}
		}
	}
	if structs == 0 {
		return "", fmt.Errorf("%s: no struct type found in package chat", filepath.Join(repo, "chat"))
	}
	out.WriteString("(* defined types that are not structs: name, underlying type as written *)\n")
	fmt.Fprintf(&out, "Definition chat_type_defs : list (string * string) :=\n  %s.\n\n", c17block(typeDefs, "  "))

	// 2. tables
	findVar := func(name string) ast.Expr {
		for _, d := range files["message.go"].Decls {
			gd, ok := d.(*ast.GenDecl)
			if !ok || gd.Tok != token.VAR {
				continue
			}
			for _, sp := range gd.Specs {
				vs := sp.(*ast.ValueSpec)
				if len(vs.Names) == 1 && vs.Names[0].Name == name && len(vs.Values) == 1 {
					return vs.Values[0]
				}
			}
		}
		panic(c17err{fmt.Sprintf("%s: variable %s not found", filepath.Join(repo, "chat/message.go"), name)})
	}
	strOf := func(e ast.Expr) string {
		switch x := e.(type) {
		case *ast.BasicLit:
			if x.Kind == token.STRING {
				s, uerr := strconv.Unquote(x.Value)
				if uerr != nil {
					c.fail(e, "string literal %s", x.Value)
				}
				return s
			}
		case *ast.Ident:
			if s, ok := strConst[x.Name]; ok {
				return s
			}
		}
		c.fail(e, "%s is neither a string literal nor a string constant of the package", c.text(e))
		return ""
	}
	mapLit := func(name, wantType string) *ast.CompositeLit {
		cl, ok := findVar(name).(*ast.CompositeLit)
		if !ok || c.text(cl.Type) != wantType {
			c.fail(findVar(name), "%s is not a %s literal", name, wantType)
		}
		return cl
	}
	{
		var rows []string
		for _, el := range mapLit("fmtCode", "map[byte]string").Elts {
			kv, ok := el.(*ast.KeyValueExpr)
			if !ok {
				c.fail(el, "fmtCode: element without key")
			}
			kl, ok := kv.Key.(*ast.BasicLit)
			if !ok || kl.Kind != token.CHAR {
				c.fail(kv.Key, "fmtCode: key is not a character literal")
			}
			r, _, _, uerr := strconv.UnquoteChar(kl.Value[1:len(kl.Value)-1], '\'')
			if uerr != nil || r > 255 {
				c.fail(kv.Key, "fmtCode: key %s", kl.Value)
			}
			rows = append(rows, fmt.Sprintf("(%d, %s)", r, c17bytes(strOf(kv.Value))))
		}
		out.WriteString("(* var fmtCode = map[byte]string{...}: code character -> ANSI parameter, in source order *)\n")
		fmt.Fprintf(&out, "Definition chat_fmtCode : list (N * list N) :=\n  %s.\n\n", c17block(rows, "  "))
	}
	{
		var rows []string
		for _, el := range mapLit("colors", "map[string]string").Elts {
			kv, ok := el.(*ast.KeyValueExpr)
			if !ok {
				c.fail(el, "colors: element without key")
			}
			rows = append(rows, fmt.Sprintf("(%s, %s)", c17bytes(strOf(kv.Key)), c17bytes(strOf(kv.Value))))
		}
		out.WriteString("(* var colors = map[string]string{...}: colour name (constants resolved) -> ANSI parameter, in source order *)\n")
		fmt.Fprintf(&out, "Definition chat_colors : list (list N * list N) :=\n  %s.\n\n", c17block(rows, "  "))
	}
	{
		call, ok := findVar("fmtPat").(*ast.CallExpr)
		if !ok || c.text(call.Fun) != "regexp.MustCompile" || len(call.Args) != 1 {
			c.fail(findVar("fmtPat"), "fmtPat is not regexp.MustCompile(<literal>)")
		}
		out.WriteString("(* var fmtPat = regexp.MustCompile(...): the bytes of the pattern *)\n")
		fmt.Fprintf(&out, "Definition chat_fmtPat : list N := %s.\n\n", c17bytes(strOf(call.Args[0])))
	}

	// 3. function skeletons
	for _, fn := range c17funcs {
		fd := findFunc([]*ast.File{files[fn.file]}, fn.recv, fn.name)
		if fd == nil || fd.Body == nil {
			return "", fmt.Errorf("%s: function %s.%s not found", filepath.Join(repo, "chat", fn.file), fn.recv, fn.name)
		}
		sig := "func "
		if fd.Recv != nil {
			if len(fd.Recv.List) != 1 || len(fd.Recv.List[0].Names) != 1 {
				c.fail(fd, "unknown receiver shape")
			}
			sig += "(" + fd.Recv.List[0].Names[0].Name + " " + c.text(fd.Recv.List[0].Type) + ") "
		}
		sig += fd.Name.Name + strings.TrimPrefix(c.text(fd.Type), "func")
		body := c.stmts(fd.Body.List, "    ")
		coq := "chat_" + fn.name
		if fn.recv != "" {
			coq = "chat_" + fn.recv + "_" + fn.name
		}
		fmt.Fprintf(&out, "(* chat/%s *)\nDefinition %s : cfun17 :=\n  (%s,\n   %s).\n\n", fn.file, coq, c17q(sig), c17block(body, "   "))
	}
	// 5. every function of message.go, nbtmessage.go, jsonmessage.go, decoration.go, in source order
	{
		var rows []string
		for _, n := range []string{"message.go", "nbtmessage.go", "jsonmessage.go", "decoration.go"} {
			for _, d := range files[n].Decls {
				fd, ok := d.(*ast.FuncDecl)
				if !ok {
					continue
				}
				name := fd.Name.Name
				if fd.Recv != nil {
					if len(fd.Recv.List) != 1 {
						c.fail(fd, "unknown receiver shape")
					}
					ty := fd.Recv.List[0].Type
					if st, ok := ty.(*ast.StarExpr); ok {
						ty = st.X
					}
					id, ok := ty.(*ast.Ident)
					if !ok {
						c.fail(fd, "unknown receiver type %s", c.text(ty))
					}
					name = id.Name + "." + name
				}
				rows = append(rows, c17q(name))
			}
		}
		out.WriteString("(* every function of chat/message.go, nbtmessage.go, jsonmessage.go and decoration.go, in source order *)\n")
		fmt.Fprintf(&out, "Definition chat_all_funcs : list string :=\n  [ %s ].\n\n", strings.Join(rows, ";\n    "))
	}
	// 4. the index / slice expressions of the renderers with their enclosing conditions
	for _, fn := range c17funcs {
		if fn.name != "String" && fn.name != "ClearString" && fn.name != "TransCtrlSeq" {
			continue
		}
		fd := findFunc([]*ast.File{files[fn.file]}, fn.recv, fn.name)
		c.siteStmts(fn.name, fd.Body.List, nil)
	}
	out.WriteString("(* every index / slice expression of ClearString, String and TransCtrlSeq (what can panic with an\n")
	out.WriteString("   out-of-range error), with the conditions that enclose it *)\n")
	fmt.Fprintf(&out, "Definition chat_render_sites : list site17 :=\n  %s.\n", c17block(c.siteAcc, "  "))
	return out.String(), nil
}

func emitC17(repo, outdir string) {
	s, err := genC17(repo)
	if err != nil {
		fmt.Fprintln(os.Stderr, "gotrans: c17:", err)
		os.Exit(1)
	}
	if err := writeIfChanged(filepath.Join(outdir, "C17gen.v"), s); err != nil {
		fmt.Fprintln(os.Stderr, "gotrans:", err)
		os.Exit(1)
	}
}
