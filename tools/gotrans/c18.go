package main

// c18.go: translation of the login-crypto functions of property C18 into coq/Gen/C18gen.v.
//
// DIRECT translation (statement by statement, in source order, into Gallina functions whose result type is
// Model.C18.res: Ok / Panic / OutOfFuel) of
//   - offline/uuid.go            NameToUUID
//   - bot/login.go               authDigest        (twosComplement: Gen/Funcs.v, called through go_inplace)
//   - server/auth/auth.go        authDigest
//   - yggdrasil/user/validator.go  (*lineBreaker).Write, (*lineBreaker).Close, VerifySignature
//   - yggdrasil/user/pubkey.go     (*PublicKey).Verify
//   - server/auth/auth.go        encryptionResponse (conn.ReadPacket, p.Scan into two pk.ByteArray and
//                                rsa.DecryptPKCS1v15 under the server key are the oracles read_packet, scan2, decrypt)
// and the rendered text of every top-level statement of these bodies plus of the functions that are only
// pinned as text (server/auth Encrypt and encryptionRequest, bot genEncryptionKeyResponse and
// newSymmetricEncryption, user PublicKey.WriteTo / ReadFrom, Property.WriteTo / ReadFrom, the declarations of
// pubKeyBytes / pubKey / nl / pemLineLength / verifyTokenLen).
//
// Conventions of the generated code (the meaning of the library calls is hand-written in
// coq/Model/C18_syntax.v; everything else comes from the source):
//   - integers are Z with funcs.go's explicit wrap semantics (trans.expr of funcs.go is reused); booleans are
//     bool; an `error` is a bool (true = non-nil); []byte, string and [N]byte values are `list N`;
//   - a local v is the Coq variable v_<v>, shadowed by every assignment; a field x.f is x_f; a method with a
//     pointer receiver that assigns receiver fields returns the fields (declaration order) before its results;
//   - every operation that can panic is an explicit guard: x[i] -> kidx, x[i] = e -> kset, x[a:b] -> kslice,
//     copy(x[a:], y) -> kcopy;
//   - hash.Hash values are the list of bytes written so far (h.Write appends, h.Sum(nil) applies the oracle
//     md5 / sha1 / sha256); an io.Writer field is an abstract state W with an oracle ow : W -> list N -> W * Z * bool;
//   - a method that calls itself becomes a Fixpoint on an explicit fuel (OutOfFuel when it runs out);
//   - the base64 stream encoder is the oracle pair b64_write / b64_close (the Write calls it issues on the
//     underlying writer), rsa.VerifyPKCS1v15 the oracle rsa_verify, x509.MarshalPKIXPublicKey the oracle
//     marshal, time.Now() the oracle now.
// Any statement or expression outside the shapes handled below makes gotrans fail (non-zero exit, file:line).

import (
	"bytes"
	"fmt"
	"go/ast"
	"go/constant"
	"go/printer"
	"go/token"
	"go/types"
	"os"
	"path/filepath"
	"sort"
	"strconv"
	"strings"
)

type k18err struct{ msg string }

// k18pop marks the end of a nested block inside a flattened statement list
type k18pop struct{ ast.EmptyStmt }

// k18tail stands for the untranslated remainder of loginAuth
type k18tail struct {
	ast.EmptyStmt
	digest string
}

type k18fn struct {
	traced   bool     // threads the event trace `tr` (first parameter after the oracles, first component of the result)
	parKinds []string // kind of every Go parameter (conn / privkey / client / auth parameters carry no binder)
	resKinds []string
	preEvent string   // event the CALLER logs before the call (a callee that reads the connection without a trace)
	cname   string
	oracles []string // binder texts "(md5 : list N -> list N)"
	onames  []string
	stateful bool
}

type k18field struct{ name, kind string; arr int64 }

type k18 struct {
	fset    *token.FileSet
	info    *types.Info
	files   []*ast.File
	pkg     string
	fn      string
	t       *trans
	kind    map[string]string // Coq variable -> kind
	arr     map[string]int64  // Coq variable -> array length (fixed-size arrays)
	goTy    map[string]types.Type
	fakeCoq map[string]string
	fakeKind map[string]string
	nfake   int
	ntmp    int
	pre     []string
	recv    string
	recvTy  string
	fields  []k18field
	stateful bool
	results []string // Coq names of named results ("" when unnamed)
	resKind []string
	self    string
	selfRec bool
	oracles []string
	onames  []string
	oset    map[string]bool
	traced  bool              // the function threads the event trace
	nenc    int               // number of rsa.EncryptPKCS1v15 calls translated so far (index given to the oracle)
	cut     int               // >0: only the first cut statements are translated, the rest is the session-server oracle
	depth   int               // nesting depth of the block being translated (0 = function body)
	known   map[string]*k18fn // Go name (or Recv.Method) -> generated function of this package
	structs map[string][]k18field
}

func (k *k18) fail(n ast.Node, f string, a ...any) {
	panic(k18err{fmt.Sprintf("%s: c18: %s: %s", k.fset.Position(n.Pos()), k.fn, fmt.Sprintf(f, a...))})
}

func (k *k18) txt(n ast.Node) string {
	var buf bytes.Buffer
	if err := printer.Fprint(&buf, k.fset, n); err != nil {
		k.fail(n, "cannot render")
	}
	return strings.Join(strings.Fields(buf.String()), " ")
}

func (k *k18) oracle(name, ty string) string {
	if !k.oset[name] {
		k.oset[name] = true
		k.onames = append(k.onames, name)
		k.oracles = append(k.oracles, "("+name+" : "+ty+")")
	}
	return name
}

func k18bytes(s string) string {
	var bs []string
	for i := 0; i < len(s); i++ {
		bs = append(bs, fmt.Sprintf("%d%%N", s[i]))
	}
	return "[" + strings.Join(bs, "; ") + "]"
}

// ------------------------------------------------------------------ variables

func (k *k18) coqName(goName string) string { return "v_" + goName }

func (k *k18) defVar(goName, kind string) string {
	c := k.coqName(goName)
	k.kind[c] = kind
	k.t.scopes[0][goName] = c
	return c
}

func (k *k18) fake(coq, kind string, ty types.Type) *ast.Ident {
	k.nfake++
	name := fmt.Sprintf("fake·%d", k.nfake)
	id := &ast.Ident{Name: name}
	k.fakeCoq[name] = coq
	k.fakeKind[name] = kind
	k.t.scopes[0][name] = coq
	if ty != nil {
		k.info.Types[id] = types.TypeAndValue{Type: ty}
	}
	return id
}

// varOf: the Coq variable an expression names (local, parameter or receiver field) and its kind
func (k *k18) varOf(e ast.Expr) (string, string, bool) {
	switch x := e.(type) {
	case *ast.ParenExpr:
		return k.varOf(x.X)
	case *ast.Ident:
		if c, ok := k.fakeCoq[x.Name]; ok {
			return c, k.fakeKind[x.Name], true
		}
		c := k.coqName(x.Name)
		if kd, ok := k.kind[c]; ok {
			return c, kd, true
		}
	case *ast.SelectorExpr:
		if id, ok := x.X.(*ast.Ident); ok {
			c := id.Name + "_" + x.Sel.Name
			if kd, ok := k.kind[c]; ok {
				return c, kd, true
			}
		}
	}
	return "", "", false
}

func isByteArrayType(t types.Type) (int64, bool) {
	if a, ok := t.Underlying().(*types.Array); ok {
		if b, ok := a.Elem().Underlying().(*types.Basic); ok && b.Kind() == types.Uint8 {
			return a.Len(), true
		}
	}
	return 0, false
}

// kindOfType: the kind of a declared Go type (parameters, results, struct fields)
func (k *k18) kindOfType(n ast.Expr) (string, int64) {
	text := k.txt(n)
	switch text {
	case "string", "[]byte":
		return "bytes", 0
	case "int":
		return "int", 0
	case "bool":
		return "bool", 0
	case "error":
		return "err", 0
	case "io.Writer":
		return "writer", 0
	case "time.Time":
		return "time", 0
	case "*rsa.PublicKey":
		return "key", 0
	case "uuid.UUID":
		return "bytes", 16 // github.com/google/uuid: type UUID [16]byte
	case "pk.ByteArray":
		return "bytes", 0
	case "pk.Packet":
		return "packet", 0
	case "*net.Conn":
		return "conn", 0
	case "*rsa.PrivateKey":
		return "privkey", 0
	case "*Client":
		return "client", 0
	case "Auth":
		return "auth", 0
	case "cipher.Stream":
		return "stream", 0
	case "*Resp":
		return "resp", 0
	}
	if fs, ok := k.structs[text]; ok && len(fs) > 0 {
		return "struct:" + text, 0
	}
	if k.files != nil {
		if fs := k18structFieldsOpt(k, text); fs != nil {
			k.structs[text] = fs
			return "struct:" + text, 0
		}
	}
	if tv, ok := k.info.Types[n]; ok && tv.Type != nil {
		if l, ok := isByteArrayType(tv.Type); ok {
			return "bytes", l
		}
	}
	k.fail(n, "type %s is not translated", text)
	return "", 0
}

// ------------------------------------------------------------------ expressions

var k18int = types.Typ[types.Int]

func (k *k18) intTypeOf(e ast.Expr) types.Type {
	if tv, ok := k.info.Types[e]; ok && tv.Type != nil {
		if _, _, ok := intKind(tv.Type); ok {
			return tv.Type
		}
	}
	switch x := e.(type) {
	case *ast.ParenExpr:
		return k.intTypeOf(x.X)
	case *ast.Ident:
		if t, ok := k.goTy[x.Name]; ok {
			return t
		}
	case *ast.BinaryExpr:
		if t := k.intTypeOf(x.X); t != nil {
			return t
		}
		return k.intTypeOf(x.Y)
	case *ast.UnaryExpr:
		return k.intTypeOf(x.X)
	}
	return nil
}

// rw rewrites an integer / boolean expression so that funcs.go's trans.expr can translate it: len(x) of a
// byte string, err != nil, err == nil become fake identifiers; the types go/types could not give (operands fed
// by unresolved imports) are filled in from the other operand
func (k *k18) rw(e ast.Expr) ast.Expr {
	if tv, ok := k.info.Types[e]; ok && tv.Value != nil {
		return e
	}
	switch x := e.(type) {
	case *ast.ParenExpr:
		x.X = k.rw(x.X)
		return x
	case *ast.Ident:
		if _, ok := k.fakeCoq[x.Name]; ok {
			return x
		}
		if x.Name == "true" || x.Name == "false" {
			return x
		}
		c, kd, ok := k.varOf(x)
		if !ok || (kd != "int" && kd != "bool" && kd != "err") {
			k.fail(e, "identifier %s is not an integer or boolean variable of this function", x.Name)
		}
		_ = c
		if t, ok := k.goTy[x.Name]; ok {
			k.info.Types[x] = types.TypeAndValue{Type: t}
		}
		return x
	case *ast.SelectorExpr:
		_, kd, ok := k.varOf(x)
		if !ok || (kd != "int" && kd != "bool") {
			k.fail(e, "selector %s is not an integer field of the receiver", k.txt(e))
		}
		return x
	case *ast.UnaryExpr:
		x.X = k.rw(x.X)
		if t := k.intTypeOf(x); t != nil {
			k.info.Types[x] = types.TypeAndValue{Type: t}
		}
		return x
	case *ast.BinaryExpr:
		if (x.Op == token.NEQ || x.Op == token.EQL) && k18isIdent(x.Y, "nil") {
			c, kd, ok := k.varOf(x.X)
			if !ok || kd != "err" {
				k.fail(e, "comparison of %s with nil", k.txt(x.X))
			}
			if x.Op == token.EQL {
				c = "(negb " + c + ")"
			}
			return k.fake(c, "bool", types.Typ[types.Bool])
		}
		x.X, x.Y = k.rw(x.X), k.rw(x.Y)
		switch x.Op {
		case token.ADD, token.SUB, token.MUL, token.SHL:
			t := k.intTypeOf(x)
			if t == nil {
				k.fail(e, "no integer type for %s", k.txt(e))
			}
			k.info.Types[x] = types.TypeAndValue{Type: t}
		}
		return x
	case *ast.CallExpr:
		if id, ok := x.Fun.(*ast.Ident); ok && id.Name == "len" && len(x.Args) == 1 {
			c, kd, ok := k.varOf(x.Args[0])
			if !ok || kd != "bytes" {
				k.fail(e, "len of something that is not a byte string")
			}
			return k.fake("(lenZ "+c+")", "int", k18int)
		}
		if tv, ok := k.info.Types[x.Fun]; ok && tv.IsType() && len(x.Args) == 1 {
			x.Args[0] = k.rw(x.Args[0])
			return x
		}
	}
	k.fail(e, "expression %s is not translated", k.txt(e))
	return nil
}

func k18isIdent(e ast.Expr, name string) bool {
	id, ok := e.(*ast.Ident)
	return ok && id.Name == name
}

// prebind: index reads x[i] and slice expressions x[a:b] of byte strings inside e are guards evaluated first
// (left to right, innermost first); they are replaced by fake identifiers bound by kidx / kslice
func (k *k18) prebind(e ast.Expr) ast.Expr {
	switch x := e.(type) {
	case nil:
		return nil
	case *ast.ParenExpr:
		x.X = k.prebind(x.X)
	case *ast.UnaryExpr:
		x.X = k.prebind(x.X)
	case *ast.BinaryExpr:
		x.X = k.prebind(x.X)
		x.Y = k.prebind(x.Y)
	case *ast.CallExpr:
		for i := range x.Args {
			x.Args[i] = k.prebind(x.Args[i])
		}
		if sel, ok := x.Fun.(*ast.SelectorExpr); ok {
			if _, _, isVar := k.varOf(sel); !isVar {
				sel.X = k.prebind(sel.X)
			}
		}
	case *ast.IndexExpr:
		c, kd, ok := k.varOf(x.X)
		if !ok || kd != "bytes" {
			k.fail(e, "index expression on %s", k.txt(x.X))
		}
		idx := k.ix(x.Index)
		k.ntmp++
		nm := fmt.Sprintf("%s_at%d", c, k.ntmp)
		k.pre = append(k.pre, fmt.Sprintf("kidx %s %s (fun %s : Z =>\n  ", c, idx, nm))
		return k.fake(nm, "int", types.Typ[types.Uint8])
	case *ast.SliceExpr:
		c, kd, ok := k.varOf(x.X)
		if !ok || kd != "bytes" || x.Slice3 {
			k.fail(e, "slice expression on %s", k.txt(x.X))
		}
		lo, hi := "(0)", "(lenZ "+c+")"
		if x.Low != nil {
			lo = k.ix(x.Low)
		}
		if x.High != nil {
			hi = k.ix(x.High)
		}
		k.ntmp++
		nm := fmt.Sprintf("s%d", k.ntmp)
		k.pre = append(k.pre, fmt.Sprintf("kslice %s %s %s (fun %s : list N =>\n  ", c, lo, hi, nm))
		return k.fake(nm, "bytes", nil)
	}
	return e
}

// ix: integer or boolean expression (after prebind)
func (k *k18) ix(e ast.Expr) string {
	e = k.prebind(e)
	return k.t.expr(k.rw(e))
}

func (k *k18) strLit(e ast.Expr) (string, bool) {
	if p, ok := e.(*ast.ParenExpr); ok {
		return k.strLit(p.X)
	}
	if l, ok := e.(*ast.BasicLit); ok && l.Kind == token.STRING {
		s, err := strconv.Unquote(l.Value)
		if err != nil {
			k.fail(e, "string literal")
		}
		return s, true
	}
	return "", false
}

// pkgBytes: a package-level `var x = []byte{...}` of constant bytes
func (k *k18) pkgBytes(name string) (string, bool) {
	for _, f := range k.files {
		for _, d := range f.Decls {
			gd, ok := d.(*ast.GenDecl)
			if !ok || gd.Tok != token.VAR {
				continue
			}
			for _, sp := range gd.Specs {
				vs := sp.(*ast.ValueSpec)
				for i, n := range vs.Names {
					if n.Name != name || i >= len(vs.Values) {
						continue
					}
					cl, ok := vs.Values[i].(*ast.CompositeLit)
					if !ok || k.txt(cl.Type) != "[]byte" {
						return "", false
					}
					var bs []string
					for _, el := range cl.Elts {
						tv, ok := k.info.Types[el]
						if !ok || tv.Value == nil || tv.Value.Kind() != constant.Int {
							return "", false
						}
						bs = append(bs, tv.Value.ExactString()+"%N")
					}
					return "[" + strings.Join(bs, "; ") + "]", true
				}
			}
		}
	}
	return "", false
}

func (k *k18) hashOf(e ast.Expr) (string, string, bool) {
	c, kd, ok := k.varOf(e)
	if ok && strings.HasPrefix(kd, "hash:") {
		return c, strings.TrimPrefix(kd, "hash:"), true
	}
	return "", "", false
}

// isHashSumNil: h.Sum(nil) of a hash variable
func (k *k18) hashSum(e ast.Expr) (string, bool) {
	call, ok := e.(*ast.CallExpr)
	if !ok || len(call.Args) != 1 || !k18isIdent(call.Args[0], "nil") {
		return "", false
	}
	sel, ok := call.Fun.(*ast.SelectorExpr)
	if !ok || sel.Sel.Name != "Sum" {
		return "", false
	}
	c, alg, ok := k.hashOf(sel.X)
	if !ok {
		return "", false
	}
	return "(" + k.oracle(alg, "list N -> list N") + " " + c + ")", true
}

// bx: an expression denoting a byte string
func (k *k18) bx(e ast.Expr) string {
	e = k.prebind(e)
	if s, ok := k.strLit(e); ok {
		return k18bytes(s)
	}
	switch x := e.(type) {
	case *ast.ParenExpr:
		return k.bx(x.X)
	case *ast.Ident:
		if c, kd, ok := k.varOf(x); ok {
			if kd != "bytes" {
				k.fail(e, "%s is not a byte string", x.Name)
			}
			return c
		}
		if b, ok := k.pkgBytes(x.Name); ok {
			return b
		}
	case *ast.SelectorExpr:
		if c, kd, ok := k.varOf(x); ok && kd == "bytes" {
			return c
		}
	case *ast.BinaryExpr:
		if x.Op == token.ADD {
			return "(" + k.bx(x.X) + " ++ " + k.bx(x.Y) + ")"
		}
	case *ast.CallExpr:
		if s, ok := k.hashSum(x); ok {
			return s
		}
		ft := k.txt(x.Fun)
		switch {
		case (ft == "[]byte" || ft == "string") && len(x.Args) == 1:
			return k.bx(x.Args[0])
		case ft == "make" && len(x.Args) == 2 && k.txt(x.Args[0]) == "[]byte":
			if tv, ok := k.info.Types[x.Args[1]]; !ok || tv.Value == nil {
				k.fail(e, "make([]byte, n) with a length that is not a constant")
			}
			return "(go_make " + k.ix(x.Args[1]) + ")"
		case ft == "strings.TrimLeft" && len(x.Args) == 2:
			cut, ok := k.strLit(x.Args[1])
			if !ok {
				k.fail(e, "cutset of strings.TrimLeft is not a literal")
			}
			return "(go_trim_left " + k.bx(x.Args[0]) + " " + k18bytes(cut) + ")"
		case ft == "hex.EncodeToString" && len(x.Args) == 1:
			return "(go_hex " + k.bx(x.Args[0]) + ")"
		case ft == "fmt.Sprintf" && len(x.Args) == 2:
			f, ok := k.strLit(x.Args[0])
			if !ok || f != "%x" {
				k.fail(e, "fmt.Sprintf with a format other than \"%%x\"")
			}
			return "(go_sprintf_x " + k.bx(x.Args[1]) + ")"
		case ft == "twosComplement" && len(x.Args) == 1:
			// the callee is translated by funcs.go (Gen/Funcs.v): an in-place loop over the slice, which it returns
			fd := findFunc(k.files, "", "twosComplement")
			if fd == nil || fd.Type.Results == nil || len(fd.Type.Results.List) != 1 || k.txt(fd.Type.Results.List[0].Type) != "[]byte" {
				k.fail(e, "twosComplement is not a func([]byte) []byte of this package")
			}
			rs, okR := fd.Body.List[len(fd.Body.List)-1].(*ast.ReturnStmt)
			if !okR || len(rs.Results) != 1 || !k18isIdent(rs.Results[0], fd.Type.Params.List[0].Names[0].Name) {
				k.fail(e, "twosComplement does not return its argument")
			}
			return "(go_inplace Funcs." + k.pkg + "_twosComplement " + k.bx(x.Args[0]) + ")"
		}
	}
	k.fail(e, "byte-string expression %s is not translated", k.txt(e))
	return ""
}

// cond: a condition
func (k *k18) cond(e ast.Expr) string {
	switch x := e.(type) {
	case *ast.ParenExpr:
		return k.cond(x.X)
	case *ast.CallExpr:
		// a.Before(b) on times
		if sel, ok := x.Fun.(*ast.SelectorExpr); ok && sel.Sel.Name == "Before" && len(x.Args) == 1 {
			return "(" + k.timeEx(sel.X) + " <? " + k.timeEx(x.Args[0]) + ")"
		}
	case *ast.UnaryExpr:
		if x.Op == token.NOT {
			if call, ok := x.X.(*ast.CallExpr); ok && k.txt(call.Fun) == "bytes.Equal" && len(call.Args) == 2 {
				return "(negb (go_bytes_equal " + k.bx(call.Args[0]) + " " + k.bx(call.Args[1]) + "))"
			}
		}
	case *ast.BinaryExpr:
		// packetid.ServerboundPacketID(p.ID) != packetid.<Name>
		if call, ok := x.X.(*ast.CallExpr); ok && k.txt(call.Fun) == "packetid.ServerboundPacketID" && len(call.Args) == 1 {
			c, kd, okV := k.varOf(call.Args[0])
			sel, okS := x.Y.(*ast.SelectorExpr)
			if okV && kd == "int" && okS && k18isIdent(sel.X, "packetid") && (x.Op == token.NEQ || x.Op == token.EQL) {
				r := "(" + c + " =? " + k.oracle("packetid_"+sel.Sel.Name, "Z") + ")"
				if x.Op == token.NEQ {
					r = "(negb " + r + ")"
				}
				return r
			}
			k.fail(e, "packet id test %s", k.txt(e))
		}
		// rsa.VerifyPKCS1v15(pubKey, crypto.SHA256, digest, sig) == nil
		if call, ok := x.X.(*ast.CallExpr); ok && k.txt(call.Fun) == "rsa.VerifyPKCS1v15" && k18isIdent(x.Y, "nil") {
			if len(call.Args) != 4 || k.txt(call.Args[1]) != "crypto.SHA256" {
				k.fail(e, "rsa.VerifyPKCS1v15 is not called as (key, crypto.SHA256, digest, signature)")
			}
			key, ok := call.Args[0].(*ast.Ident)
			if !ok || k.kind[k.coqName(key.Name)] != "" {
				k.fail(e, "the verification key is not a package-level variable")
			}
			k.oracle("K", "Type")
			k.oracle("rsa_verify", "K -> list N -> list N -> bool")
			r := "(rsa_verify " + k.oracle(key.Name, "K") + " " + k.bx(call.Args[2]) + " " + k.bx(call.Args[3]) + ")"
			switch x.Op {
			case token.EQL:
				return r
			case token.NEQ:
				return "(negb " + r + ")"
			}
		}
	}
	return k.ix(e)
}

func (k *k18) timeEx(e ast.Expr) string {
	if k.txt(e) == "time.Now()" {
		return k.oracle("now", "Z")
	}
	if c, kd, ok := k.varOf(e); ok && kd == "time" {
		return c
	}
	k.fail(e, "time expression %s is not translated", k.txt(e))
	return ""
}

// ------------------------------------------------------------------ statements

func (k *k18) flush() (string, string) {
	p := strings.Join(k.pre, "")
	cl := strings.Repeat(")", len(k.pre))
	k.pre = nil
	return p, cl
}

func (k *k18) stateTuple(r string) string {
	if k.traced {
		return "(tr, " + r + ")"
	}
	if !k.stateful {
		return r
	}
	var fs []string
	for _, f := range k.fields {
		fs = append(fs, k.recv+"_"+f.name)
	}
	if r == "" {
		return "(" + strings.Join(fs, ", ") + ")"
	}
	return "(" + strings.Join(fs, ", ") + ", " + r + ")"
}

func (k *k18) resultEx(e ast.Expr, kind string) string {
	switch kind {
	case "int", "bool":
		if kind == "bool" {
			return k.cond(e)
		}
		return k.ix(e)
	case "err":
		if k18isIdent(e, "nil") {
			return "false"
		}
		if call, ok := e.(*ast.CallExpr); ok && k.txt(call.Fun) == "rsa.VerifyPKCS1v15" && len(call.Args) == 4 {
			c, kd, okV := k.varOf(call.Args[0])
			if !okV || kd != "key" || k.txt(call.Args[1]) != "crypto.SHA256" {
				k.fail(e, "rsa.VerifyPKCS1v15 is not called as (<key field>, crypto.SHA256, digest, signature)")
			}
			k.oracle("PK", "Type")
			k.oracle("rsa_verify_pk", "PK -> list N -> list N -> bool")
			return "(negb (rsa_verify_pk " + c + " " + k.bx(call.Args[2]) + " " + k.bx(call.Args[3]) + "))"
		}
		if call, ok := e.(*ast.CallExpr); ok {
			if ft := k.txt(call.Fun); (ft == "fmt.Errorf" || ft == "errors.New") && len(call.Args) >= 1 {
				if _, ok := k.strLit(call.Args[0]); ok {
					return "true"
				}
			}
		}
		if c, kd, ok := k.varOf(e); ok && kd == "err" {
			return c
		}
	case "bytes":
		if k18isIdent(e, "nil") {
			return "(@nil N)"
		}
		return k.bx(e)
	case "pktval":
		return k.px(e)
	case "stream":
		return k.sx(e)
	case "resp":
		if k18isIdent(e, "nil") {
			return "None"
		}
		if c, kd, ok := k.varOf(e); ok && kd == "resp" {
			return c
		}
	}
	k.fail(e, "result %s of kind %s is not translated", k.txt(e), kind)
	return ""
}

func (k *k18) snapshot() (map[string]string, map[string]string) {
	a, b := map[string]string{}, map[string]string{}
	for x, y := range k.kind {
		a[x] = y
	}
	for x, y := range k.t.scopes[0] {
		b[x] = y
	}
	return a, b
}

func (k *k18) fieldsPattern(r string) string { return "'" + k.stateTuple(r) }

// selfCall: l.Write(args) inside (*lineBreaker).Write
func (k *k18) isSelfCall(call *ast.CallExpr) bool {
	sel, ok := call.Fun.(*ast.SelectorExpr)
	return ok && k.recv != "" && k18isIdent(sel.X, k.recv) && sel.Sel.Name == k.fn
}

func (k *k18) lhsNames(x *ast.AssignStmt, kinds []string) []string {
	var ns []string
	for i, l := range x.Lhs {
		id, ok := l.(*ast.Ident)
		if !ok {
			k.fail(x, "assignment target %s", k.txt(l))
		}
		if id.Name == "_" {
			ns = append(ns, "_")
			continue
		}
		c := k.coqName(id.Name)
		if old, ok := k.kind[c]; ok && old != kinds[i] {
			k.fail(x, "%s changes its kind from %s to %s", id.Name, old, kinds[i])
		}
		if _, ok := k.kind[c]; !ok && x.Tok != token.DEFINE {
			k.fail(x, "assignment to unknown variable %s", id.Name)
		}
		if _, ok := k.kind[c]; ok && x.Tok == token.DEFINE && k.depth > 0 {
			k.fail(x, "%s := inside a nested block shadows an outer variable", id.Name)
		}
		k.defVar(id.Name, kinds[i])
		if kinds[i] == "int" {
			if _, ok := k.goTy[id.Name]; !ok {
				k.goTy[id.Name] = k18int
			}
		}
		ns = append(ns, c)
	}
	return ns
}

func (k *k18) stmts(list []ast.Stmt) string {
	if len(list) == 0 {
		k.fail(k.files[0], "control reaches the end of the function body")
	}
	s, rest := list[0], list[1:]
	switch x := s.(type) {
	case *k18pop:
		k.depth--
		return k.stmts(rest)
	case *k18tail:
		// the rest of loginAuth: the request to the session server with ServerID = digest (pinned as text)
		k.oracle("session_join", "list N -> bool")
		return "let tr := (tr ++ [EJoin " + x.digest + "]) in\n  Ok (tr, session_join " + x.digest + ")"
	case *ast.ReturnStmt:
		if s, ok := k.hsReturn(x); ok {
			return s
		}
		var rs []string
		if len(x.Results) == 0 {
			for _, r := range k.results {
				if r == "" {
					k.fail(x, "bare return without named results")
				}
				rs = append(rs, r)
			}
		} else {
			if len(x.Results) != len(k.resKind) {
				k.fail(x, "return with %d values", len(x.Results))
			}
			// a tail call of a translated function of this package
			if call, ok := x.Results[0].(*ast.CallExpr); ok && len(x.Results) == 1 {
				if id, ok := call.Fun.(*ast.Ident); ok {
					if f := k.known[id.Name]; f != nil && !f.stateful && !k.stateful && !f.traced && !k.traced {
						var as []string
						for i, on := range f.onames {
							k.oracle(on, strings.TrimSuffix(strings.SplitN(f.oracles[i], " : ", 2)[1], ")"))
							as = append(as, on)
						}
						for _, a := range call.Args {
							as = append(as, k.bx(a))
						}
						p, cl := k.flush()
						return p + "(" + f.cname + " " + strings.Join(as, " ") + ")" + cl
					}
				}
			}
			for i, r := range x.Results {
				rs = append(rs, k.resultEx(r, k.resKind[i]))
			}
		}
		r := ""
		if len(rs) == 1 {
			r = rs[0]
		} else if len(rs) > 1 {
			r = "(" + strings.Join(rs, ", ") + ")"
		}
		p, cl := k.flush()
		return p + "Ok " + k.stateTuple(r) + cl
	case *ast.BlockStmt:
		k.depth++
		return k.stmts(append(append(append([]ast.Stmt{}, x.List...), &k18pop{}), rest...))
	case *ast.IfStmt:
		if x.Init != nil {
			// if init; cond {..}  =  { init; if cond {..} }
			plain := &ast.IfStmt{If: x.If, Cond: x.Cond, Body: x.Body, Else: x.Else}
			return k.stmts(append([]ast.Stmt{&ast.BlockStmt{Lbrace: x.If, List: []ast.Stmt{x.Init, plain}}}, rest...))
		}
		c := k.cond(x.Cond)
		p, cl := k.flush()
		kd, sc := k.snapshot()
		d0 := k.depth
		k.depth++
		a := k.stmts(append(append(append([]ast.Stmt{}, x.Body.List...), &k18pop{}), rest...))
		k.kind, k.t.scopes[0], k.depth = kd, sc, d0
		var el []ast.Stmt
		switch e := x.Else.(type) {
		case nil:
		case *ast.BlockStmt:
			el = e.List
		case *ast.IfStmt:
			el = []ast.Stmt{e}
		default:
			k.fail(x, "else branch")
		}
		k.depth++
		b := k.stmts(append(append(append([]ast.Stmt{}, el...), &k18pop{}), rest...))
		k.depth = d0
		return p + "if " + c + "\n  then (" + a + ")\n  else (" + b + ")" + cl
	case *ast.DeclStmt:
		gd, ok := x.Decl.(*ast.GenDecl)
		if !ok || gd.Tok != token.VAR || len(gd.Specs) != 1 {
			k.fail(x, "declaration")
		}
		vs := gd.Specs[0].(*ast.ValueSpec)
		if len(vs.Names) != 1 || len(vs.Values) != 0 || vs.Type == nil {
			k.fail(x, "declaration")
		}
		kd, n := k.kindOfType(vs.Type)
		if strings.HasPrefix(kd, "struct:") {
			nm := vs.Names[0].Name
			k.kind[k.coqName(nm)] = kd
			var b bytes.Buffer
			for _, f := range k.structs[strings.TrimPrefix(kd, "struct:")] {
				k.kind[nm+"_"+f.name] = "bytes"
				fmt.Fprintf(&b, "let %s_%s := (@nil N) in\n  ", nm, f.name)
			}
			return b.String() + k.stmts(rest)
		}
		if kd == "packet" {
			nm := vs.Names[0].Name
			k.kind[k.coqName(nm)] = "packet"
			k.kind[nm+"_ID"] = "int"
			k.kind[nm+"_Data"] = "bytes"
			return fmt.Sprintf("let %s_ID := (0) in\n  let %s_Data := (@nil N) in\n  ", nm, nm) + k.stmts(rest)
		}
		if kd == "bytes" && n == 0 {
			return fmt.Sprintf("let %s := (@nil N) in\n  ", k.defVar(vs.Names[0].Name, "bytes")) + k.stmts(rest)
		}
		if kd != "bytes" {
			k.fail(x, "declaration of type %s", k.txt(vs.Type))
		}
		c := k.defVar(vs.Names[0].Name, "bytes")
		k.arr[c] = n
		return fmt.Sprintf("let %s := repeat 0%%N %d in\n  ", c, n) + k.stmts(rest)
	case *ast.ExprStmt:
		return k.exprStmt(x, rest)
	case *ast.AssignStmt:
		return k.assign(x, rest)
	}
	k.fail(s, "statement %T is not translated", s)
	return ""
}

// unwrapped: unwrap(e) / must(e) -> e (both panic on a non-nil error; checked against their declarations)
func (k *k18) unwrapped(e ast.Expr) (ast.Expr, bool) {
	call, ok := e.(*ast.CallExpr)
	if !ok || len(call.Args) != 1 {
		return e, false
	}
	id, ok := call.Fun.(*ast.Ident)
	if !ok || (id.Name != "unwrap" && id.Name != "must") {
		return e, false
	}
	fd := findFunc(k.files, "", id.Name)
	want := map[string]string{
		"must":   "{ if err != nil { panic(err) } }",
		"unwrap": "{ if err != nil { panic(err) } return v }",
	}
	if fd == nil || fd.Body == nil || k.txt(fd.Body) != want[id.Name] {
		k.fail(e, "%s is not the panic-on-error helper", id.Name)
	}
	return call.Args[0], true
}

func (k *k18) lbOf(e ast.Expr) (string, string, bool) {
	if u, ok := e.(*ast.UnaryExpr); ok && u.Op == token.AND {
		e = u.X
	}
	id, ok := e.(*ast.Ident)
	if !ok {
		return "", "", false
	}
	kd := k.kind[k.coqName(id.Name)]
	if strings.HasPrefix(kd, "lb:") {
		return id.Name, strings.TrimPrefix(kd, "lb:"), true
	}
	return "", "", false
}

func (k *k18) exprStmt(x *ast.ExprStmt, rest []ast.Stmt) string {
	if s, ok := k.hsExprStmt(x, rest); ok {
		return s
	}
	e, wrapped := k.unwrapped(x.X)
	call, ok := e.(*ast.CallExpr)
	if !ok {
		k.fail(x, "expression statement %s", k.txt(x.X))
	}
	// copy(x[lo:], src)
	if k18isIdent(call.Fun, "copy") && len(call.Args) == 2 && !wrapped {
		sl, ok := call.Args[0].(*ast.SliceExpr)
		if !ok || sl.High != nil || sl.Low == nil || sl.Slice3 {
			k.fail(x, "copy destination %s", k.txt(call.Args[0]))
		}
		c, kd, ok := k.varOf(sl.X)
		if !ok || kd != "bytes" {
			k.fail(x, "copy destination %s", k.txt(call.Args[0]))
		}
		lo := k.ix(sl.Low)
		src := k.bx(call.Args[1])
		p, cl := k.flush()
		return p + fmt.Sprintf("kcopy %s %s %s (fun %s : list N =>\n  ", c, lo, src, c) + k.stmts(rest) + ")" + cl
	}
	sel, ok := call.Fun.(*ast.SelectorExpr)
	if !ok {
		k.fail(x, "call statement %s", k.txt(x.X))
	}
	// h.Write(b), h.Sum(id[:0]) on a hash
	if c, alg, ok := k.hashOf(sel.X); ok {
		switch {
		case sel.Sel.Name == "Write" && len(call.Args) == 1:
			b := k.bx(call.Args[0])
			p, cl := k.flush()
			return p + fmt.Sprintf("let %s := (%s ++ %s) in\n  ", c, c, b) + k.stmts(rest) + cl
		case sel.Sel.Name == "Sum" && len(call.Args) == 1 && !wrapped:
			sl, ok := call.Args[0].(*ast.SliceExpr)
			if ok && sl.Low == nil && sl.High != nil && !sl.Slice3 && k.txt(sl.High) == "0" {
				d, kd, ok := k.varOf(sl.X)
				if ok && kd == "bytes" && k.arr[d] > 0 {
					return fmt.Sprintf("let %s := go_sum_into (%s %s) %s in\n  ", d, k.oracle(alg, "list N -> list N"), c, d) + k.stmts(rest)
				}
			}
		}
		k.fail(x, "hash call %s", k.txt(x.X))
	}
	// enc.Write(b), enc.Close() on a base64 encoder over a lineBreaker; breaker.Close()
	if id, ok := sel.X.(*ast.Ident); ok && wrapped {
		kd := k.kind[k.coqName(id.Name)]
		if strings.HasPrefix(kd, "enc:") {
			lb := strings.TrimPrefix(kd, "enc:")
			out := strings.TrimPrefix(k.kind[k.coqName(lb)], "lb:")
			wr := k.known["lineBreaker.Write"]
			if wr == nil {
				k.fail(x, "lineBreaker.Write is not translated")
			}
			data := k.coqName(id.Name) + "_data"
			var chunks, upd string
			switch {
			case sel.Sel.Name == "Write" && len(call.Args) == 1:
				b := k.bx(call.Args[0])
				chunks = "(" + k.oracle("b64_write", "list N -> list N -> list (list N)") + " " + data + " " + b + ")"
				upd = fmt.Sprintf("let %s := (%s ++ %s) in\n  ", data, data, b)
			case sel.Sel.Name == "Close" && len(call.Args) == 0:
				chunks = "(" + k.oracle("b64_close", "list N -> list (list N)") + " " + data + ")"
			default:
				k.fail(x, "encoder call %s", k.txt(x.X))
			}
			p, cl := k.flush()
			return p + fmt.Sprintf("kwrites (%s (list N) hash_writer) %s %s_line %s_used %s (fun %s_line %s_used %s =>\n  %s",
				wr.cname, chunks, lb, lb, out, lb, lb, out, upd) + k.stmts(rest) + ")" + cl
		}
		if strings.HasPrefix(kd, "lb:") && sel.Sel.Name == "Close" && len(call.Args) == 0 {
			out := strings.TrimPrefix(kd, "lb:")
			cf := k.known["lineBreaker.Close"]
			if cf == nil {
				k.fail(x, "lineBreaker.Close is not translated")
			}
			lb := id.Name
			return fmt.Sprintf("kmust (%s (list N) hash_writer %s_line %s_used %s) (fun %s_line %s_used %s =>\n  ",
				cf.cname, lb, lb, out, lb, lb, out) + k.stmts(rest) + ")"
		}
	}
	k.fail(x, "call statement %s", k.txt(x.X))
	return ""
}

func (k *k18) assign(x *ast.AssignStmt, rest []ast.Stmt) string {
	if s, ok := k.hsAssign(x, rest); ok {
		return s
	}
	// compound assignment of an integer variable / field
	if x.Tok != token.DEFINE && x.Tok != token.ASSIGN {
		if len(x.Lhs) != 1 || len(x.Rhs) != 1 {
			k.fail(x, "compound assignment")
		}
		var op token.Token
		switch x.Tok {
		case token.ADD_ASSIGN:
			op = token.ADD
		case token.SUB_ASSIGN:
			op = token.SUB
		default:
			k.fail(x, "assignment operator %s", x.Tok)
		}
		c, kd, ok := k.varOf(x.Lhs[0])
		if !ok || kd != "int" {
			k.fail(x, "compound assignment to %s", k.txt(x.Lhs[0]))
		}
		be := &ast.BinaryExpr{X: x.Lhs[0], Op: op, Y: x.Rhs[0], OpPos: x.TokPos}
		if tv, ok := k.info.Types[x.Lhs[0]]; ok {
			k.info.Types[be] = tv
		}
		v := k.ix(be)
		p, cl := k.flush()
		return p + fmt.Sprintf("let %s := %s in\n  ", c, v) + k.stmts(rest) + cl
	}
	if len(x.Rhs) != 1 {
		k.fail(x, "assignment with %d right-hand sides", len(x.Rhs))
	}
	rhs := x.Rhs[0]
	// x[i] = e
	if ixe, ok := x.Lhs[0].(*ast.IndexExpr); ok && len(x.Lhs) == 1 && x.Tok == token.ASSIGN {
		c, kd, ok := k.varOf(ixe.X)
		if !ok || kd != "bytes" {
			k.fail(x, "index assignment to %s", k.txt(ixe.X))
		}
		idx := k.ix(ixe.Index)
		v := k.ix(rhs)
		p, cl := k.flush()
		return p + fmt.Sprintf("kset %s %s %s (fun %s : list N =>\n  ", c, idx, v, c) + k.stmts(rest) + ")" + cl
	}
	// receiver field = integer expression
	if sel, ok := x.Lhs[0].(*ast.SelectorExpr); ok && len(x.Lhs) == 1 && x.Tok == token.ASSIGN {
		c, kd, ok := k.varOf(sel)
		if !ok || kd != "int" {
			k.fail(x, "assignment to %s", k.txt(sel))
		}
		v := k.ix(rhs)
		p, cl := k.flush()
		return p + fmt.Sprintf("let %s := %s in\n  ", c, v) + k.stmts(rest) + cl
	}
	if call, ok := rhs.(*ast.CallExpr); ok {
		ft := k.txt(call.Fun)
		// n, err := recv.out.Write(b)
		if sel, ok := call.Fun.(*ast.SelectorExpr); ok && sel.Sel.Name == "Write" && len(call.Args) == 1 && len(x.Lhs) == 2 {
			if w, kd, ok := k.varOf(sel.X); ok && kd == "writer" {
				b := k.bx(call.Args[0])
				ns := k.lhsNames(x, []string{"int", "err"})
				p, cl := k.flush()
				return p + fmt.Sprintf("let '(%s, %s, %s) := ow %s %s in\n  ", w, ns[0], ns[1], w, b) + k.stmts(rest) + cl
			}
			if k.isSelfCall(call) {
				b := k.bx(call.Args[0])
				k.selfRec = true
				ns := k.lhsNames(x, []string{"int", "err"})
				var fs []string
				for _, f := range k.fields {
					fs = append(fs, k.recv+"_"+f.name)
				}
				p, cl := k.flush()
				return p + fmt.Sprintf("kbind (%s fuel' %s %s) (fun r => let %s := r in\n  ", k.self, strings.Join(fs, " "), b,
					k.fieldsPattern("("+ns[0]+", "+ns[1]+")")) + k.stmts(rest) + ")" + cl
			}
		}
		// err := conn.ReadPacket(&p)
		if sel, ok := call.Fun.(*ast.SelectorExpr); ok && sel.Sel.Name == "ReadPacket" && len(call.Args) == 1 && len(x.Lhs) == 1 {
			cn, okC := sel.X.(*ast.Ident)
			u, okU := call.Args[0].(*ast.UnaryExpr)
			if !okC || k.kind[k.coqName(cn.Name)] != "conn" || !okU || u.Op != token.AND {
				k.fail(x, "ReadPacket is not called as <conn>.ReadPacket(&<packet>)")
			}
			pv, okP := u.X.(*ast.Ident)
			if !okP || k.kind[k.coqName(pv.Name)] != "packet" {
				k.fail(x, "ReadPacket does not read into a pk.Packet variable")
			}
			k.oracle("read_packet", "option (Z * list N)")
			ns := k.lhsNames(x, []string{"err"})
			return fmt.Sprintf("let '(%s_ID, %s_Data, %s) := match read_packet with Some (i, d) => (i, d, false) | None => (%s_ID, %s_Data, true) end in\n  ",
				pv.Name, pv.Name, ns[0], pv.Name, pv.Name) + k.stmts(rest)
		}
		// err = p.Scan(&a, &b) into two pk.ByteArray variables
		if sel, ok := call.Fun.(*ast.SelectorExpr); ok && sel.Sel.Name == "Scan" && len(call.Args) == 2 && len(x.Lhs) == 1 {
			pv, okP := sel.X.(*ast.Ident)
			if !okP || k.kind[k.coqName(pv.Name)] != "packet" {
				k.fail(x, "Scan on something that is not a pk.Packet variable")
			}
			var vs []string
			for _, a := range call.Args {
				u, okU := a.(*ast.UnaryExpr)
				if !okU || u.Op != token.AND {
					k.fail(x, "Scan argument %s", k.txt(a))
				}
				c, kd, okV := k.varOf(u.X)
				if !okV || kd != "bytes" {
					k.fail(x, "Scan argument %s is not a pk.ByteArray variable", k.txt(a))
				}
				vs = append(vs, c)
			}
			k.oracle("scan2", "list N -> option (list N * list N)")
			ns := k.lhsNames(x, []string{"err"})
			return fmt.Sprintf("let '(%s, %s, %s) := match scan2 %s_Data with Some (a, b) => (a, b, false) | None => (%s, %s, true) end in\n  ",
				vs[0], vs[1], ns[0], pv.Name, vs[0], vs[1]) + k.stmts(rest)
		}
		// x, err := rsa.DecryptPKCS1v15(rand.Reader, serverKey, y)
		if ft == "rsa.DecryptPKCS1v15" && len(call.Args) == 3 && len(x.Lhs) == 2 {
			kv, okK := call.Args[1].(*ast.Ident)
			if k.txt(call.Args[0]) != "rand.Reader" || !okK || k.kind[k.coqName(kv.Name)] != "privkey" {
				k.fail(x, "rsa.DecryptPKCS1v15 is not called as (rand.Reader, <private key parameter>, ciphertext)")
			}
			ct := k.bx(call.Args[2])
			k.oracle("decrypt", "list N -> option (list N)")
			ns := k.lhsNames(x, []string{"bytes", "err"})
			p, cl := k.flush()
			return p + fmt.Sprintf("let '(%s, %s) := match decrypt %s with Some d => (d, false) | None => (@nil N, true) end in\n  ", ns[0], ns[1], ct) + k.stmts(rest) + cl
		}
		// h := md5.New()
		if len(x.Lhs) == 1 && len(call.Args) == 0 && x.Tok == token.DEFINE {
			for _, alg := range []string{"md5", "sha1", "sha256"} {
				if ft == alg+".New" {
					id, ok := x.Lhs[0].(*ast.Ident)
					if !ok {
						k.fail(x, "hash variable")
					}
					c := k.defVar(id.Name, "hash:"+alg)
					return fmt.Sprintf("let %s := (@nil N) in\n  ", c) + k.stmts(rest)
				}
			}
		}
		// enc := base64.NewEncoder(base64.StdEncoding, &breaker)
		if ft == "base64.NewEncoder" && len(x.Lhs) == 1 && x.Tok == token.DEFINE {
			id, ok := x.Lhs[0].(*ast.Ident)
			if len(call.Args) != 2 {
				k.fail(x, "base64.NewEncoder is not called with two arguments")
			}
			lb, _, okL := k.lbOf(call.Args[1])
			if !ok || k.txt(call.Args[0]) != "base64.StdEncoding" || !okL {
				k.fail(x, "base64.NewEncoder is not called as (base64.StdEncoding, &<lineBreaker>)")
			}
			if u, ok := call.Args[1].(*ast.UnaryExpr); !ok || u.Op != token.AND {
				k.fail(x, "the encoder must write to the address of the lineBreaker")
			}
			c := k.defVar(id.Name, "enc:"+lb)
			return fmt.Sprintf("let %s_data := (@nil N) in\n  ", c) + k.stmts(rest)
		}
		// encoded, err := x509.MarshalPKIXPublicKey(p.PubKey)
		if ft == "x509.MarshalPKIXPublicKey" && len(call.Args) == 1 && len(x.Lhs) == 2 {
			c, kd, ok := k.varOf(call.Args[0])
			if !ok || kd != "key" {
				k.fail(x, "argument of x509.MarshalPKIXPublicKey")
			}
			k.oracle("PK", "Type")
			k.oracle("marshal", "PK -> option (list N)")
			ns := k.lhsNames(x, []string{"bytes", "err"})
			return fmt.Sprintf("let '(%s, %s) := match marshal %s with Some enc => (enc, false) | None => (@nil N, true) end in\n  ", ns[0], ns[1], c) + k.stmts(rest)
		}
	}
	// breaker := lineBreaker{out: hash}
	if cl, ok := rhs.(*ast.CompositeLit); ok && len(x.Lhs) == 1 && x.Tok == token.DEFINE {
		id, okI := x.Lhs[0].(*ast.Ident)
		tn := k.txt(cl.Type)
		fs, okS := k.structs[tn]
		if !okI || !okS || len(cl.Elts) != 1 {
			k.fail(x, "composite literal %s", k.txt(rhs))
		}
		kv, ok := cl.Elts[0].(*ast.KeyValueExpr)
		if !ok {
			k.fail(x, "composite literal %s", k.txt(rhs))
		}
		_, _, isHash := k.hashOf(kv.Value)
		var b bytes.Buffer
		outSet := false
		for _, f := range fs {
			switch f.kind {
			case "bytes":
				fmt.Fprintf(&b, "let %s_%s := repeat 0%%N %d in\n  ", id.Name, f.name, f.arr)
			case "int":
				fmt.Fprintf(&b, "let %s_%s := (0) in\n  ", id.Name, f.name)
			case "writer":
				if k.txt(kv.Key) != f.name || !isHash {
					k.fail(x, "the writer field of %s is not bound to a hash", tn)
				}
				outSet = true
			}
		}
		if !outSet {
			k.fail(x, "composite literal %s does not set the writer", k.txt(rhs))
		}
		hv, _, _ := k.varOf(kv.Value)
		k.kind[k.coqName(id.Name)] = "lb:" + hv
		return b.String() + k.stmts(rest)
	}
	if len(x.Lhs) != 1 {
		k.fail(x, "assignment %s", k.txt(x))
	}
	id, ok := x.Lhs[0].(*ast.Ident)
	if !ok {
		k.fail(x, "assignment target %s", k.txt(x.Lhs[0]))
	}
	// by kind of the right-hand side
	kd := k.rhsKind(rhs)
	var v string
	switch kd {
	case "bytes":
		v = k.bx(rhs)
	case "stream":
		v = k.sx(rhs)
	case "bool":
		v = k.cond(rhs)
	case "int":
		v = k.ix(rhs)
		if t := k.intTypeOf(rhs); t != nil {
			k.goTy[id.Name] = t
		} else if tv, ok := k.info.Types[rhs]; ok && tv.Type != nil {
			if b, ok := tv.Type.Underlying().(*types.Basic); ok && b.Info()&types.IsUntyped != 0 {
				k.goTy[id.Name] = k18int
			}
		}
		if _, ok := k.goTy[id.Name]; !ok {
			k.fail(x, "no integer type for %s", id.Name)
		}
	default:
		k.fail(x, "right-hand side %s is not translated", k.txt(rhs))
	}
	ns := k.lhsNames(x, []string{kd})
	p, cl := k.flush()
	return p + fmt.Sprintf("let %s := %s in\n  ", ns[0], v) + k.stmts(rest) + cl
}

func (k *k18) rhsKind(e ast.Expr) string {
	if _, ok := k.strLit(e); ok {
		return "bytes"
	}
	switch x := e.(type) {
	case *ast.ParenExpr:
		return k.rhsKind(x.X)
	case *ast.Ident:
		if _, kd, ok := k.varOf(x); ok {
			return kd
		}
	case *ast.CallExpr:
		if _, ok := k.hashSum(x); ok {
			return "bytes"
		}
		switch k.txt(x.Fun) {
		case "strings.TrimLeft", "hex.EncodeToString", "fmt.Sprintf", "twosComplement", "[]byte", "string":
			return "bytes"
		case "make":
			return "bytes"
		case "CFB8.NewCFB8Encrypt", "CFB8.NewCFB8Decrypt":
			return "stream"
		}
	case *ast.BinaryExpr:
		switch x.Op {
		case token.EQL, token.NEQ, token.LSS, token.LEQ, token.GTR, token.GEQ, token.LAND, token.LOR:
			return "bool"
		case token.ADD:
			if a := k.rhsKind(x.X); a == "bytes" {
				return "bytes"
			}
			if b := k.rhsKind(x.Y); b == "bytes" {
				return "bytes"
			}
		}
		return "int"
	case *ast.UnaryExpr:
		if x.Op == token.NOT {
			return "bool"
		}
		return "int"
	case *ast.BasicLit:
		if x.Kind == token.INT {
			return "int"
		}
	}
	if tv, ok := k.info.Types[e]; ok && tv.Type != nil {
		if _, _, ok := intKind(tv.Type); ok {
			return "int"
		}
	}
	return ""
}

// ------------------------------------------------------------------ functions

type k18spec struct {
	dir, pkg, recv, name string
	traced               bool   // threads the event trace
	preEvent             string // see k18fn
	cut                  int    // see k18.cut
}

var k18specs = []k18spec{
	{dir: "offline", pkg: "offline", name: "NameToUUID"},
	{dir: "bot", pkg: "bot", name: "authDigest"},
	{dir: "server/auth", pkg: "auth", name: "authDigest"},
	{dir: "yggdrasil/user", pkg: "user", recv: "lineBreaker", name: "Write"},
	{dir: "yggdrasil/user", pkg: "user", recv: "lineBreaker", name: "Close"},
	{dir: "yggdrasil/user", pkg: "user", name: "VerifySignature"},
	{dir: "yggdrasil/user", pkg: "user", recv: "PublicKey", name: "Verify"},
	{dir: "yggdrasil/user", pkg: "user", recv: "PublicKey", name: "VerifyMessage"},
	{dir: "server/auth", pkg: "auth", name: "encryptionResponse", preEvent: "EReadResponse"},
	{dir: "server/auth", pkg: "auth", name: "encryptionRequest", traced: true},
	{dir: "server/auth", pkg: "auth", name: "Encrypt", traced: true},
	{dir: "bot", pkg: "bot", name: "newSymmetricEncryption"},
	{dir: "bot", pkg: "bot", name: "genEncryptionKeyResponse"},
	{dir: "bot", pkg: "bot", name: "loginAuth", traced: true, cut: 1},
	{dir: "bot", pkg: "bot", name: "handleEncryptionRequest", traced: true},
}

// functions and declarations pinned as rendered text only
type k18textSpec struct{ dir, pkg, recv, name string }

var k18texts = []k18textSpec{
	{"yggdrasil/user", "user", "PublicKey", "WriteTo"},
	{"yggdrasil/user", "user", "PublicKey", "ReadFrom"},
	{"yggdrasil/user", "user", "Property", "WriteTo"},
	{"yggdrasil/user", "user", "Property", "ReadFrom"},
}

type k18pkg struct {
	fset  *token.FileSet
	files []*ast.File
	info  *types.Info
	known map[string]*k18fn
	structs map[string][]k18field
}

func k18load(repo, dir string) (*k18pkg, error) {
	fset := token.NewFileSet()
	files, _, e := parseDir(fset, filepath.Join(repo, dir))
	if e != nil {
		return nil, e
	}
	conf := types.Config{Importer: &fakeImporter{map[string]*types.Package{}}, Error: func(error) {}}
	info := &types.Info{Types: map[ast.Expr]types.TypeAndValue{}, Defs: map[*ast.Ident]types.Object{}, Uses: map[*ast.Ident]types.Object{}}
	conf.Check(dir, fset, files, info)
	return &k18pkg{fset, files, info, map[string]*k18fn{}, map[string][]k18field{}}, nil
}

func k18q(s string) string { return "\"" + strings.ReplaceAll(s, "\"", "\"\"") + "\"" }

func (k *k18) textOf(fd *ast.FuncDecl) string {
	var items []string
	items = append(items, k18q(k.txt(fd.Type)+func() string {
		if fd.Recv != nil {
			return " recv " + k.txt(fd.Recv.List[0].Type)
		}
		return ""
	}()))
	for _, s := range fd.Body.List {
		t := strings.ReplaceAll(k.txt(s), "(*", "( *")
		items = append(items, k18q(t))
	}
	return "[" + strings.Join(items, ";\n   ") + "]"
}

func genC18(repo string) (out string, err error) {
	defer func() {
		if r := recover(); r != nil {
			switch te := r.(type) {
			case k18err:
				err = fmt.Errorf("%s", te.msg)
			case trErr:
				err = te
			default:
				panic(r)
			}
		}
	}()
	pkgs := map[string]*k18pkg{}
	load := func(dir string) (*k18pkg, error) {
		if p := pkgs[dir]; p != nil {
			return p, nil
		}
		p, e := k18load(repo, dir)
		if e != nil {
			return nil, e
		}
		pkgs[dir] = p
		return p, nil
	}
	var defs, texts bytes.Buffer
	for _, sp := range k18specs {
		p, e := load(sp.dir)
		if e != nil {
			return "", e
		}
		fd := findFunc(p.files, sp.recv, sp.name)
		if fd == nil || fd.Body == nil {
			return "", fmt.Errorf("c18: %s: function %s.%s not found", sp.dir, sp.recv, sp.name)
		}
		cname := sp.pkg + "_"
		if sp.recv != "" {
			cname += sp.recv + "_"
		}
		cname += sp.name
		k := &k18{fset: p.fset, info: p.info, files: p.files, pkg: sp.pkg, fn: sp.name, kind: map[string]string{}, arr: map[string]int64{},
			goTy: map[string]types.Type{}, fakeCoq: map[string]string{}, fakeKind: map[string]string{}, oset: map[string]bool{}, known: p.known,
			structs: p.structs, self: cname, traced: sp.traced, cut: sp.cut}
		k.t = &trans{fset: p.fset, info: p.info, prefix: sp.pkg, used: map[string]int{}, freeSet: map[string]bool{}, known: map[string]*knownFn{},
			fnVars: map[string]bool{}, arrSet: map[string]bool{}, slicePar: map[string]bool{}}
		k.t.push()
		// the text first: translation rewrites the syntax tree in place
		fmt.Fprintf(&texts, "(* %s: %s *)\nDefinition %s_text : list string :=\n  %s.\n\n", sp.dir, strings.TrimPrefix(sp.recv+"."+sp.name, "."), cname, k.textOf(fd))
		var params []string
		// receiver
		if fd.Recv != nil {
			rf := fd.Recv.List[0]
			st, ok := rf.Type.(*ast.StarExpr)
			if !ok || len(rf.Names) != 1 {
				k.fail(fd, "receiver is not a named pointer")
			}
			k.recv, k.recvTy = rf.Names[0].Name, k.txt(st.X)
			fields := k18structFields(k, k.recvTy)
			k.fields = fields
			p.structs[k.recvTy] = fields
			// does the body assign a receiver field or call a method through a writer field?
			ast.Inspect(fd.Body, func(n ast.Node) bool {
				switch a := n.(type) {
				case *ast.AssignStmt:
					for _, l := range a.Lhs {
						if sel, ok := l.(*ast.SelectorExpr); ok && k18isIdent(sel.X, k.recv) {
							k.stateful = true
						}
					}
				case *ast.SelectorExpr:
					if in, ok := a.X.(*ast.SelectorExpr); ok && k18isIdent(in.X, k.recv) {
						for _, f := range fields {
							if f.name == in.Sel.Name && f.kind == "writer" {
								k.stateful = true
							}
						}
					}
				}
				return true
			})
			for _, f := range fields {
				c := k.recv + "_" + f.name
				k.kind[c] = f.kind
				if f.arr > 0 {
					k.arr[c] = f.arr
				}
				ty := map[string]string{"bytes": "list N", "int": "Z", "writer": "W", "time": "Z", "key": "PK"}[f.kind]
				if f.kind == "key" {
					k.oracle("PK", "Type")
				}
				params = append(params, "("+c+" : "+ty+")")
			}
		}
		var parKinds []string
		for _, f := range fd.Type.Params.List {
			kd, n := k.kindOfType(f.Type)
			if kd == "packet" {
				kd = "pktval"
			}
			if n != 0 {
				k.fail(f, "parameter of type %s", k.txt(f.Type))
			}
			for _, nm := range f.Names {
				parKinds = append(parKinds, kd)
				switch {
				case kd == "bytes":
					params = append(params, "("+k.defVar(nm.Name, "bytes")+" : list N)")
				case kd == "pktval":
					params = append(params, "("+k.defVar(nm.Name, "pktval")+" : Z * pdata)")
				case kd == "conn" || kd == "privkey" || kd == "client" || kd == "auth":
					k.kind[k.coqName(nm.Name)] = kd // stands for the oracles that use it: no binder
				case strings.HasPrefix(kd, "struct:"):
					k.kind[k.coqName(nm.Name)] = kd
					for _, sf := range k.structs[strings.TrimPrefix(kd, "struct:")] {
						k.kind[nm.Name+"_"+sf.name] = "bytes"
						params = append(params, "("+nm.Name+"_"+sf.name+" : list N)")
					}
				default:
					k.fail(f, "parameter of type %s", k.txt(f.Type))
				}
			}
		}
		var inits bytes.Buffer
		var rtys []string
		if fd.Type.Results != nil {
			for _, f := range fd.Type.Results.List {
				kd, _ := k.kindOfType(f.Type)
				if kd == "packet" {
					kd = "pktval"
				}
				if kd == "resp" {
					k.oracle("RESP", "Type")
				}
				ty := map[string]string{"bytes": "list N", "int": "Z", "bool": "bool", "err": "bool", "stream": "stream", "pktval": "(Z * pdata)", "resp": "option RESP"}[kd]
				if ty == "" {
					k.fail(f, "result of type %s", k.txt(f.Type))
				}
				if len(f.Names) == 0 {
					k.results = append(k.results, "")
					k.resKind = append(k.resKind, kd)
					rtys = append(rtys, ty)
				}
				for _, nm := range f.Names {
					c := k.defVar(nm.Name, kd)
					if kd == "int" {
						k.goTy[nm.Name] = k18int
					}
					k.results = append(k.results, c)
					k.resKind = append(k.resKind, kd)
					rtys = append(rtys, ty)
					z := map[string]string{"int": "(0)", "bool": "false", "err": "false", "bytes": "(@nil N)", "stream": "SNil", "pktval": "((0), PFields [])", "resp": "None"}[kd]
					fmt.Fprintf(&inits, "let %s := %s in\n  ", c, z)
				}
			}
		}
		bodyList := fd.Body.List
		if k.cut > 0 {
			// loginAuth: `digest := authDigest(...)`, then the exchange with the session server
			if len(bodyList) <= k.cut {
				k.fail(fd, "body shorter than expected")
			}
			as, ok := bodyList[k.cut-1].(*ast.AssignStmt)
			if !ok || len(as.Lhs) != 1 {
				k.fail(fd, "statement %d is not an assignment", k.cut)
			}
			dg := k.txt(as.Lhs[0])
			uses := 0
			for _, st := range bodyList[k.cut:] {
				ast.Inspect(st, func(n ast.Node) bool {
					if id, ok := n.(*ast.Ident); ok && id.Name == dg {
						uses++
					}
					return true
				})
			}
			restTxt := ""
			for _, st := range bodyList[k.cut:] {
				restTxt += k.txt(st) + " "
			}
			if uses != 1 || !strings.Contains(restTxt, "ServerID: "+dg+",") || !strings.Contains(restTxt, "sessionserver.mojang.com/session/minecraft/join") {
				k.fail(fd, "the digest is not sent exactly once as ServerID of the join request")
			}
			bodyList = append(append([]ast.Stmt{}, bodyList[:k.cut]...), &k18tail{digest: k.coqName(dg)})
		}
		body := inits.String() + k.stmts(bodyList)
		rty := strings.Join(rtys, " * ")
		if len(rtys) > 1 {
			rty = "(" + rty + ")"
		}
		if k.traced {
			rty = "list ev * " + rty
		}
		if k.stateful {
			var fts []string
			for _, f := range k.fields {
				fts = append(fts, map[string]string{"bytes": "list N", "int": "Z", "writer": "W"}[f.kind])
			}
			rty = strings.Join(fts, " * ") + " * " + rty
		}
		hasWriter := false
		for _, f := range k.fields {
			if f.kind == "writer" {
				hasWriter = true
			}
		}
		var binders []string
		if hasWriter {
			binders = append(binders, "(W : Type)", "(ow : W -> list N -> W * Z * bool)")
		}
		binders = append(binders, k.oracles...)
		if k.selfRec {
			binders = append(binders, "(fuel : nat)")
		}
		if k.traced {
			binders = append(binders, "(tr : list ev)")
		}
		binders = append(binders, params...)
		fmt.Fprintf(&defs, "(* %s: func %s *)\n", sp.dir, strings.TrimPrefix(sp.recv+"."+sp.name, "."))
		if k.selfRec {
			fmt.Fprintf(&defs, "Fixpoint %s %s {struct fuel} : res (%s) :=\n  match fuel with\n  | O => OutOfFuel\n  | S fuel' =>\n  %s\n  end.\n\n",
				cname, strings.Join(binders, " "), rty, strings.ReplaceAll(body, k.self+" fuel'", k.self+k18pass(hasWriter, k.onames)+" fuel'"))
		} else {
			fmt.Fprintf(&defs, "Definition %s %s : res (%s) :=\n  %s.\n\n", cname, strings.Join(binders, " "), rty, body)
		}
		key := sp.name
		if sp.recv != "" {
			key = sp.recv + "." + sp.name
		}
		p.known[key] = &k18fn{cname: cname, oracles: k.oracles, onames: k.onames, stateful: k.stateful, traced: k.traced, parKinds: parKinds,
			resKinds: k.resKind, preEvent: sp.preEvent}
	}
	// text-only functions and declarations
	for _, sp := range k18texts {
		p, e := load(sp.dir)
		if e != nil {
			return "", e
		}
		fd := findFunc(p.files, sp.recv, sp.name)
		if fd == nil || fd.Body == nil {
			return "", fmt.Errorf("c18: %s: function %s.%s not found", sp.dir, sp.recv, sp.name)
		}
		k := &k18{fset: p.fset, fn: sp.name, files: p.files}
		cname := sp.pkg + "_"
		if sp.recv != "" {
			cname += sp.recv + "_"
		}
		cname += sp.name
		fmt.Fprintf(&texts, "(* %s: %s *)\nDefinition %s_text : list string :=\n  %s.\n\n", sp.dir, strings.TrimPrefix(sp.recv+"."+sp.name, "."), cname, k.textOf(fd))
	}
	// wire layout: the pk.Tuple of the four codec methods as lists of C06 field types (and values)
	{
		p, e := load("yggdrasil/user")
		if e != nil {
			return "", e
		}
		k := &k18{fset: p.fset, info: p.info, files: p.files, pkg: "user"}
		for _, m := range []struct{ recv, name string }{{"PublicKey", "WriteTo"}, {"PublicKey", "ReadFrom"}, {"Property", "WriteTo"}, {"Property", "ReadFrom"}} {
			k.fn = m.recv + "." + m.name
			fd := findFunc(p.files, m.recv, m.name)
			if fd == nil || fd.Body == nil {
				return "", fmt.Errorf("c18: yggdrasil/user: %s not found", k.fn)
			}
			defs.WriteString(k.tupleFields(fd, "user_"+m.recv+"_"+m.name, m.name == "WriteTo"))
		}
	}
	// declarations: every package-level var / const / type declaration of yggdrasil/user/validator.go and
	// pubkey.go, the verifyTokenLen constant of server/auth
	for _, d := range []struct{ dir, pkg, file string }{{"yggdrasil/user", "user", "validator.go"}, {"yggdrasil/user", "user", "pubkey.go"}, {"server/auth", "auth", "auth.go"}} {
		p, _ := load(d.dir)
		k := &k18{fset: p.fset, fn: d.file, files: p.files}
		var items []string
		for _, f := range p.files {
			if filepath.Base(p.fset.Position(f.Pos()).Filename) != d.file {
				continue
			}
			for _, dd := range f.Decls {
				gd, ok := dd.(*ast.GenDecl)
				if !ok || gd.Tok == token.IMPORT {
					continue
				}
				t := k.txt(gd)
				if gd.Doc != nil {
					for _, c := range gd.Doc.List {
						if strings.HasPrefix(c.Text, "//go:") {
							t = c.Text + " " + t
						}
					}
				}
				if d.pkg == "auth" && !strings.Contains(t, "verifyTokenLen") {
					continue
				}
				items = append(items, k18q(strings.ReplaceAll(t, "(*", "( *")))
			}
		}
		fmt.Fprintf(&texts, "(* %s/%s: package-level declarations *)\nDefinition %s_%s_decls : list string :=\n  [%s].\n\n", d.dir, d.file, d.pkg, strings.TrimSuffix(d.file, ".go"), strings.Join(items, ";\n   "))
	}
	var b bytes.Buffer
	b.WriteString("(* GENERATED by tools/gotrans (c18.go) from offline/uuid.go, bot/login.go, server/auth/auth.go, yggdrasil/user - do not edit *)\n")
	b.WriteString("From Coq Require Import ZArith NArith Bool List String.\n")
	b.WriteString("From GoMC Require Import Base.Bytes Base.GoInt Gen.Funcs Model.C06 Model.C18 Model.C18_enc Model.C18_syntax.\n")
	b.WriteString("Import ListNotations.\nLocal Open Scope Z_scope.\nLocal Open Scope bool_scope.\nLocal Open Scope list_scope.\n\n")
	b.WriteString("(* ---- functions, statement by statement ---- *)\n")
	b.Write(defs.Bytes())
	b.WriteString("(* ---- rendered statements ---- *)\nLocal Open Scope string_scope.\n\n")
	b.Write(texts.Bytes())
	return b.String(), nil
}

func k18pass(hasWriter bool, onames []string) string {
	s := ""
	if hasWriter {
		s += " W ow"
	}
	for _, o := range onames {
		s += " " + o
	}
	return s
}

// k18structFields: the fields of a struct type of the package, with their kinds
func k18structFields(k *k18, name string) []k18field {
	for _, f := range k.files {
		for _, d := range f.Decls {
			gd, ok := d.(*ast.GenDecl)
			if !ok || gd.Tok != token.TYPE {
				continue
			}
			for _, sp := range gd.Specs {
				ts := sp.(*ast.TypeSpec)
				if ts.Name.Name != name {
					continue
				}
				st, ok := ts.Type.(*ast.StructType)
				if !ok {
					k.fail(ts, "type %s is not a struct", name)
				}
				var fs []k18field
				for _, fl := range st.Fields.List {
					kd, n := k.kindOfType(fl.Type)
					for _, nm := range fl.Names {
						fs = append(fs, k18field{nm.Name, kd, n})
					}
				}
				return fs
			}
		}
	}
	k.fail(k.files[0], "struct type %s not found", name)
	return nil
}

// emitC18 is the one call main.go makes
func emitC18(repo, outdir string) {
	s, err := genC18(repo)
	if err != nil {
		fmt.Fprintln(os.Stderr, "gotrans: c18:", err)
		os.Exit(1)
	}
	if err := writeIfChanged(filepath.Join(outdir, "C18gen.v"), s); err != nil {
		fmt.Fprintln(os.Stderr, "gotrans:", err)
		os.Exit(1)
	}
}

// ------------------------------------------------------------------ encryption handshake (phase 5)
//
// Encrypt / encryptionRequest (server/auth) and handleEncryptionRequest / loginAuth / genEncryptionKeyResponse /
// newSymmetricEncryption (bot).  What these functions do to the connection and to the outside world is an EVENT
// appended to a trace `tr` in program order (Model/C18_enc.v: EWrite packet, EReadResponse, ESetCipher enc dec,
// EAuth name hash, EJoin digest); packets are (id, PFields [FString s; FByteArray b; ...]) when built by
// pk.Marshal and (id, PRaw data) when received; cipher streams are SEnc key iv / SDec key iv.  Oracles:
// marshal_pub, rand_read, conn_write (error of a WritePacket as a function of the trace), authentication,
// parse_pub, is_rsa, rsa_encrypt (with the index of the call), scan_<struct>, session_join.

func k18structFieldsOpt(k *k18, name string) (fs []k18field) {
	for _, f := range k.files {
		for _, d := range f.Decls {
			gd, ok := d.(*ast.GenDecl)
			if !ok || gd.Tok != token.TYPE {
				continue
			}
			for _, sp := range gd.Specs {
				ts := sp.(*ast.TypeSpec)
				st, ok := ts.Type.(*ast.StructType)
				if ts.Name.Name != name || !ok {
					continue
				}
				for _, fl := range st.Fields.List {
					t := k.txt(fl.Type)
					if t != "string" && t != "[]byte" {
						return nil
					}
					for _, nm := range fl.Names {
						fs = append(fs, k18field{nm.Name, "bytes", 0})
					}
				}
				return fs
			}
		}
	}
	return nil
}

// px: a packet value
func (k *k18) px(e ast.Expr) string {
	if c, kd, ok := k.varOf(e); ok && kd == "pktval" {
		return c
	}
	call, ok := e.(*ast.CallExpr)
	if !ok || k.txt(call.Fun) != "pk.Marshal" || len(call.Args) < 1 {
		k.fail(e, "packet expression %s is not translated", k.txt(e))
	}
	sel, ok := call.Args[0].(*ast.SelectorExpr)
	if !ok || !k18isIdent(sel.X, "packetid") {
		k.fail(e, "packet id %s", k.txt(call.Args[0]))
	}
	var fs []string
	for _, a := range call.Args[1:] {
		c, ok := a.(*ast.CallExpr)
		if !ok || len(c.Args) != 1 {
			k.fail(a, "packet field %s", k.txt(a))
		}
		switch k.txt(c.Fun) {
		case "pk.String":
			fs = append(fs, "FString "+k.bx(c.Args[0]))
		case "pk.ByteArray":
			fs = append(fs, "FByteArray "+k.bx(c.Args[0]))
		default:
			k.fail(a, "packet field %s", k.txt(a))
		}
	}
	return "(" + k.oracle("packetid_"+sel.Sel.Name, "Z") + ", PFields [" + strings.Join(fs, "; ") + "])"
}

// sx: a cipher stream
func (k *k18) sx(e ast.Expr) string {
	if c, kd, ok := k.varOf(e); ok && kd == "stream" {
		return c
	}
	call, ok := e.(*ast.CallExpr)
	if ok && len(call.Args) == 2 {
		ctor := map[string]string{"CFB8.NewCFB8Encrypt": "SEnc", "CFB8.NewCFB8Decrypt": "SDec"}[k.txt(call.Fun)]
		b, kd, okB := k.varOf(call.Args[0])
		if ctor != "" && okB && kd == "block" {
			return "(" + ctor + " " + b + " " + k.bx(call.Args[1]) + ")"
		}
	}
	k.fail(e, "stream expression %s is not translated", k.txt(e))
	return ""
}

func (k *k18) connOf(e ast.Expr) bool {
	id, ok := e.(*ast.Ident)
	return ok && k.kind[k.coqName(id.Name)] == "conn"
}

// writePacket: <conn>.WritePacket(pkt) -> the event and the error
func (k *k18) writePacket(e ast.Expr) (string, bool) {
	call, ok := e.(*ast.CallExpr)
	if !ok || len(call.Args) != 1 {
		return "", false
	}
	sel, ok := call.Fun.(*ast.SelectorExpr)
	if !ok || sel.Sel.Name != "WritePacket" || !k.connOf(sel.X) {
		return "", false
	}
	if !k.traced {
		k.fail(e, "WritePacket in a function that does not thread the trace")
	}
	k.oracle("conn_write", "list ev -> bool")
	return "let tr := (tr ++ [EWrite " + k.px(call.Args[0]) + "]) in\n  ", true
}

func (k *k18) hsReturn(x *ast.ReturnStmt) (string, bool) {
	if len(x.Results) == 1 && len(k.resKind) == 1 && k.resKind[0] == "err" {
		if w, ok := k.writePacket(x.Results[0]); ok {
			p, cl := k.flush()
			return p + w + "Ok (tr, conn_write tr)" + cl, true
		}
	}
	return "", false
}

func (k *k18) hsExprStmt(x *ast.ExprStmt, rest []ast.Stmt) (string, bool) {
	call, ok := x.X.(*ast.CallExpr)
	if !ok {
		return "", false
	}
	if k18isIdent(call.Fun, "panic") && len(call.Args) == 1 {
		if _, kd, ok := k.varOf(call.Args[0]); ok && kd == "err" {
			return "Panic", true
		}
	}
	if sel, ok := call.Fun.(*ast.SelectorExpr); ok && sel.Sel.Name == "SetCipher" && k.connOf(sel.X) && len(call.Args) == 2 {
		if !k.traced {
			k.fail(x, "SetCipher in a function that does not thread the trace")
		}
		a, b := k.sx(call.Args[0]), k.sx(call.Args[1])
		return "let tr := (tr ++ [ESetCipher " + a + " " + b + "]) in\n  " + k.stmts(rest), true
	}
	return "", false
}

// knownCall: a call of a translated function of this package (not a tail call): kbind + result pattern
func (k *k18) knownCall(x *ast.AssignStmt, call *ast.CallExpr, f *k18fn, rest []ast.Stmt) string {
	if f.stateful || len(call.Args) != len(f.parKinds) || len(x.Lhs) != len(f.resKinds) {
		k.fail(x, "call of %s", f.cname)
	}
	var as []string
	for i, on := range f.onames {
		k.oracle(on, strings.TrimSuffix(strings.SplitN(f.oracles[i], " : ", 2)[1], ")"))
		as = append(as, on)
	}
	if f.traced {
		if !k.traced {
			k.fail(x, "call of the traced function %s in a function that does not thread the trace", f.cname)
		}
		as = append(as, "tr")
	}
	for i, a := range call.Args {
		switch kd := f.parKinds[i]; {
		case kd == "bytes":
			as = append(as, k.bx(a))
		case kd == "pktval":
			as = append(as, k.px(a))
		case kd == "conn" || kd == "privkey" || kd == "client" || kd == "auth":
			// no binder
		case strings.HasPrefix(kd, "struct:"):
			id, ok := a.(*ast.Ident)
			if !ok || k.kind[k.coqName(id.Name)] != kd {
				k.fail(a, "argument %s is not a %s variable", k.txt(a), kd)
			}
			for _, sf := range k.structs[strings.TrimPrefix(kd, "struct:")] {
				as = append(as, id.Name+"_"+sf.name)
			}
		default:
			k.fail(a, "argument of kind %s", kd)
		}
	}
	pre := ""
	if f.preEvent != "" {
		if !k.traced {
			k.fail(x, "call of %s in a function that does not thread the trace", f.cname)
		}
		pre = "let tr := (tr ++ [" + f.preEvent + "]) in\n  "
	}
	ns := k.lhsNames(x, f.resKinds)
	for i, kd := range f.resKinds {
		if kd == "resp" {
			k.oracle("RESP", "Type")
		}
		_ = i
	}
	pat := ns[0]
	if len(ns) > 1 {
		pat = "(" + strings.Join(ns, ", ") + ")"
	}
	if f.traced {
		pat = "(tr, " + pat + ")"
	}
	bind := "let " + pat + " := r in"
	if strings.HasPrefix(pat, "(") {
		bind = "let '" + pat + " := r in"
	}
	p, cl := k.flush()
	return p + pre + fmt.Sprintf("kbind (%s %s) (fun r => %s\n  ", f.cname, strings.Join(as, " "), bind) + k.stmts(rest) + ")" + cl
}

func (k *k18) hsAssign(x *ast.AssignStmt, rest []ast.Stmt) (string, bool) {
	if len(x.Rhs) != 1 || (x.Tok != token.DEFINE && x.Tok != token.ASSIGN) {
		return "", false
	}
	rhs := x.Rhs[0]
	// rsaKey := iPK.( *rsa.PublicKey): panics on a nil interface and on another key type
	if ta, ok := rhs.(*ast.TypeAssertExpr); ok && len(x.Lhs) == 1 {
		c, kd, okV := k.varOf(ta.X)
		id, okI := x.Lhs[0].(*ast.Ident)
		if !okV || kd != "pubopt" || !okI || k.txt(ta.Type) != "*rsa.PublicKey" {
			k.fail(x, "type assertion %s", k.txt(rhs))
		}
		k.oracle("is_rsa", "PUB -> bool")
		nm := k.coqName(id.Name)
		k.kind[nm] = "pub"
		return fmt.Sprintf("kassert_rsa is_rsa %s (fun %s =>\n  ", c, nm) + k.stmts(rest) + ")", true
	}
	call, ok := rhs.(*ast.CallExpr)
	if !ok {
		return "", false
	}
	ft := k.txt(call.Fun)
	// err = <conn>.WritePacket(pkt)
	if w, ok := k.writePacket(rhs); ok && len(x.Lhs) == 1 {
		ns := k.lhsNames(x, []string{"err"})
		p, cl := k.flush()
		return p + w + fmt.Sprintf("let %s := conn_write tr in\n  ", ns[0]) + k.stmts(rest) + cl, true
	}
	if id, ok := call.Fun.(*ast.Ident); ok {
		if f := k.known[id.Name]; f != nil {
			return k.knownCall(x, call, f, rest), true
		}
	}
	switch {
	case ft == "x509.MarshalPKIXPublicKey" && len(call.Args) == 1 && len(x.Lhs) == 2:
		u, ok := call.Args[0].(*ast.UnaryExpr)
		if !ok || u.Op != token.AND {
			return "", false
		}
		sel, ok := u.X.(*ast.SelectorExpr)
		if !ok || sel.Sel.Name != "PublicKey" {
			return "", false
		}
		if id, ok := sel.X.(*ast.Ident); !ok || k.kind[k.coqName(id.Name)] != "privkey" {
			k.fail(x, "x509.MarshalPKIXPublicKey is not applied to the public half of the private-key parameter")
		}
		k.oracle("marshal_pub", "option (list N)")
		ns := k.lhsNames(x, []string{"bytes", "err"})
		return fmt.Sprintf("let '(%s, %s) := match marshal_pub with Some d => (d, false) | None => (@nil N, true) end in\n  ", ns[0], ns[1]) + k.stmts(rest), true
	case ft == "rand.Read" && len(call.Args) == 1 && len(x.Lhs) == 2:
		c, kd, ok := k.varOf(call.Args[0])
		if !ok || kd != "bytes" || !k18isIdent(x.Lhs[0], "_") {
			k.fail(x, "rand.Read is not called as _, err := rand.Read(<byte slice variable>)")
		}
		k.oracle("rand_read", "Z -> option (list N)")
		ns := k.lhsNames(x, []string{"int", "err"})
		return fmt.Sprintf("let '(%s, %s) := match rand_read (lenZ %s) with Some r => (r, false) | None => (%s, true) end in\n  ", c, ns[1], c, c) + k.stmts(rest), true
	case ft == "aes.NewCipher" && len(call.Args) == 1 && len(x.Lhs) == 2:
		key := k.bx(call.Args[0])
		ns := k.lhsNames(x, []string{"block", "err"})
		p, cl := k.flush()
		return p + fmt.Sprintf("let %s := %s in\n  let %s := negb (go_aes_key_ok %s) in\n  ", ns[0], key, ns[1], ns[0]) + k.stmts(rest) + cl, true
	case ft == "authentication" && len(call.Args) == 2 && len(x.Lhs) == 2:
		if fd := findFunc(k.files, "", "authentication"); fd == nil || !k.traced {
			k.fail(x, "authentication is not a function of this package")
		}
		a, b := k.bx(call.Args[0]), k.bx(call.Args[1])
		k.oracle("RESP", "Type")
		k.oracle("authentication", "list N -> list N -> option RESP")
		ns := k.lhsNames(x, []string{"resp", "err"})
		p, cl := k.flush()
		return p + fmt.Sprintf("let tr := (tr ++ [EAuth %s %s]) in\n  let '(%s, %s) := match authentication %s %s with Some r => (Some r, false) | None => (None, true) end in\n  ",
			a, b, ns[0], ns[1], a, b) + k.stmts(rest) + cl, true
	case ft == "x509.ParsePKIXPublicKey" && len(call.Args) == 1 && len(x.Lhs) == 2:
		a := k.bx(call.Args[0])
		k.oracle("PUB", "Type")
		k.oracle("parse_pub", "list N -> option PUB")
		ns := k.lhsNames(x, []string{"pubopt", "err"})
		p, cl := k.flush()
		return p + fmt.Sprintf("let '(%s, %s) := match parse_pub %s with Some pk => (Some pk, false) | None => (None, true) end in\n  ", ns[0], ns[1], a) + k.stmts(rest) + cl, true
	case ft == "rsa.EncryptPKCS1v15" && len(call.Args) == 3 && len(x.Lhs) == 2:
		c, kd, ok := k.varOf(call.Args[1])
		if k.txt(call.Args[0]) != "rand.Reader" || !ok || kd != "pub" {
			k.fail(x, "rsa.EncryptPKCS1v15 is not called as (rand.Reader, <RSA public key>, message)")
		}
		m := k.bx(call.Args[2])
		k.oracle("PUB", "Type")
		k.oracle("rsa_encrypt", "Z -> PUB -> list N -> option (list N)")
		idx := k.nenc
		k.nenc++
		ns := k.lhsNames(x, []string{"bytes", "err"})
		p, cl := k.flush()
		return p + fmt.Sprintf("let '(%s, %s) := match rsa_encrypt (%d) %s %s with Some ct => (ct, false) | None => (@nil N, true) end in\n  ", ns[0], ns[1], idx, c, m) + k.stmts(rest) + cl, true
	case ft == "fmt.Errorf" && len(x.Lhs) == 1 && x.Tok == token.ASSIGN:
		if c, kd, ok := k.varOf(x.Lhs[0]); ok && kd == "err" {
			return fmt.Sprintf("let %s := true in\n  ", c) + k.stmts(rest), true
		}
	}
	// err := p.Scan(&er): a received packet scanned into a struct of byte-string fields
	if sel, ok := call.Fun.(*ast.SelectorExpr); ok && sel.Sel.Name == "Scan" && len(call.Args) == 1 && len(x.Lhs) == 1 {
		pv, kd, okP := k.varOf(sel.X)
		u, okU := call.Args[0].(*ast.UnaryExpr)
		if okP && kd == "pktval" && okU && u.Op == token.AND {
			id, okI := u.X.(*ast.Ident)
			if !okI || !strings.HasPrefix(k.kind[k.coqName(id.Name)], "struct:") {
				k.fail(x, "Scan argument %s", k.txt(call.Args[0]))
			}
			tn := strings.TrimPrefix(k.kind[k.coqName(id.Name)], "struct:")
			var fs, tys, fresh []string
			for i, sf := range k.structs[tn] {
				fs = append(fs, id.Name+"_"+sf.name)
				tys = append(tys, "list N")
				fresh = append(fresh, fmt.Sprintf("f%d", i))
			}
			k.oracle("scan_"+tn, "pdata -> option ("+strings.Join(tys, " * ")+")")
			ns := k.lhsNames(x, []string{"err"})
			return fmt.Sprintf("let '(%s, %s) := match scan_%s (snd %s) with Some (%s) => (%s, false) | None => (%s, true) end in\n  ",
				strings.Join(fs, ", "), ns[0], tn, pv, strings.Join(fresh, ", "), strings.Join(fresh, ", "), strings.Join(fs, ", ")) + k.stmts(rest), true
		}
	}
	return "", false
}

// ------------------------------------------------------------------ pk.Tuple field lists (phase 5)
//
// PublicKey.WriteTo / ReadFrom and Property.WriteTo / ReadFrom each contain exactly one composite literal
// pk.Tuple{...} whose WriteTo(w) / ReadFrom(r) does the I/O.  Its elements, in order, become a list over the field
// types of Model/C06.v: for a writer (type, value) pairs over the receiver's fields (p.X -> p_X; p.ExpiresAt.UnixMilli()
// -> p_ExpiresAt_ms; a local -> v_<local>), for a reader (type, name of the destination variable).  The statements
// around the tuple stay pinned as text.

func (k *k18) tupleFields(fd *ast.FuncDecl, cname string, writer bool) string {
	var lits []*ast.CompositeLit
	ast.Inspect(fd.Body, func(n ast.Node) bool {
		if cl, ok := n.(*ast.CompositeLit); ok && k.txt(cl.Type) == "pk.Tuple" {
			lits = append(lits, cl)
		}
		return true
	})
	if len(lits) != 1 {
		k.fail(fd, "expected exactly one pk.Tuple literal, found %d", len(lits))
	}
	// the literal must be the receiver of the I/O call
	want := "WriteTo(w)"
	if !writer {
		want = "ReadFrom(r)"
	}
	found := false
	ast.Inspect(fd.Body, func(n ast.Node) bool {
		if call, ok := n.(*ast.CallExpr); ok {
			if sel, ok := call.Fun.(*ast.SelectorExpr); ok && sel.X == ast.Expr(lits[0]) {
				if sel.Sel.Name+"("+k.txtArgs(call.Args)+")" == want {
					found = true
				}
			}
		}
		return true
	})
	if !found {
		k.fail(fd, "the pk.Tuple literal is not used as pk.Tuple{...}.%s", want)
	}
	recv := fd.Recv.List[0].Names[0].Name
	// declared types of locals (var x T / var ( ... ))
	decl := map[string]string{}
	ast.Inspect(fd.Body, func(n ast.Node) bool {
		if vs, ok := n.(*ast.ValueSpec); ok && vs.Type != nil {
			for _, nm := range vs.Names {
				decl[nm.Name] = k.txt(vs.Type)
			}
		}
		return true
	})
	fty := func(n ast.Node, t string) string {
		switch t {
		case "pk.Long":
			return "TLong"
		case "pk.ByteArray":
			return "TByteArray"
		case "pk.String":
			return "TString"
		case "pk.Option[pk.String, *pk.String]":
			return "(TOption TString)"
		}
		k.fail(n, "field type %s is not translated", t)
		return ""
	}
	val := func(e ast.Expr) string { // a byte-string operand of a writer
		if sel, ok := e.(*ast.SelectorExpr); ok && k18isIdent(sel.X, recv) {
			return recv + "_" + sel.Sel.Name
		}
		if id, ok := e.(*ast.Ident); ok {
			return "v_" + id.Name
		}
		k.fail(e, "operand %s", k.txt(e))
		return ""
	}
	var items, params []string
	seen := map[string]bool{}
	addP := func(p, ty string) {
		if !seen[p] {
			seen[p] = true
			params = append(params, "("+p+" : "+ty+")")
		}
	}
	for _, el := range lits[0].Elts {
		if writer {
			switch x := el.(type) {
			case *ast.CallExpr:
				if len(x.Args) != 1 {
					k.fail(el, "tuple element %s", k.txt(el))
				}
				t := fty(el, k.txt(x.Fun))
				if t == "TLong" {
					if k.txt(x.Args[0]) != recv+".ExpiresAt.UnixMilli()" {
						k.fail(el, "tuple element %s", k.txt(el))
					}
					addP(recv+"_ExpiresAt_ms", "Z")
					items = append(items, "(TLong, VZ "+recv+"_ExpiresAt_ms)")
				} else {
					v := val(x.Args[0])
					addP(v, "list N")
					items = append(items, "("+t+", VBytes "+v+" [])")
				}
			case *ast.CompositeLit:
				t := fty(el, k.txt(x.Type))
				if len(x.Elts) != 2 {
					k.fail(el, "option literal %s", k.txt(el))
				}
				has, okH := x.Elts[0].(*ast.KeyValueExpr)
				vl, okV := x.Elts[1].(*ast.KeyValueExpr)
				if !okH || !okV || k.txt(has.Key) != "Has" || k.txt(vl.Key) != "Val" {
					k.fail(el, "option literal %s", k.txt(el))
				}
				vc, okC := vl.Value.(*ast.CallExpr)
				if !okC || k.txt(vc.Fun) != "pk.String" || len(vc.Args) != 1 {
					k.fail(el, "option value %s", k.txt(vl.Value))
				}
				v := val(vc.Args[0])
				if k.txt(has.Value) != k.txt(vc.Args[0])+" != \"\"" {
					k.fail(el, "option presence %s is not `<value> != \"\"`", k.txt(has.Value))
				}
				addP(v, "list N")
				items = append(items, "("+t+", VOpt (negb (bytes_eqb "+v+" [])) (VBytes "+v+" []))")
			default:
				k.fail(el, "tuple element %s", k.txt(el))
			}
			continue
		}
		// reader: &Local with a declared type, or ( *pk.T)(&p.Field)
		switch x := el.(type) {
		case *ast.UnaryExpr:
			id, ok := x.X.(*ast.Ident)
			if x.Op != token.AND || !ok || decl[id.Name] == "" {
				k.fail(el, "tuple element %s", k.txt(el))
			}
			items = append(items, "("+fty(el, decl[id.Name])+", "+k18q(id.Name)+")")
		case *ast.CallExpr:
			par, okP := x.Fun.(*ast.ParenExpr)
			if !okP || len(x.Args) != 1 {
				k.fail(el, "tuple element %s", k.txt(el))
			}
			st, okS := par.X.(*ast.StarExpr)
			u, okU := x.Args[0].(*ast.UnaryExpr)
			if !okS || !okU || u.Op != token.AND {
				k.fail(el, "tuple element %s", k.txt(el))
			}
			items = append(items, "("+fty(el, k.txt(st.X))+", "+k18q(k.txt(u.X))+")")
		default:
			k.fail(el, "tuple element %s", k.txt(el))
		}
	}
	sort.Strings(params) // canonical parameter order (by name): the ORDER of the elements is in the list only
	if writer {
		return fmt.Sprintf("(* yggdrasil/user: %s: the elements of its pk.Tuple, in order *)\nDefinition %s_fields %s : list (fty * fval) :=\n  [%s].\n\n",
			k.fn, cname, strings.Join(params, " "), strings.Join(items, ";\n   "))
	}
	return fmt.Sprintf("(* yggdrasil/user: %s: the elements of its pk.Tuple, in order, with the variable each is read into *)\nDefinition %s_fields : list (fty * String.string) :=\n  [%s]%%string.\n\n",
		k.fn, cname, strings.Join(items, ";\n   "))
}

func (k *k18) txtArgs(as []ast.Expr) string {
	var ts []string
	for _, a := range as {
		ts = append(ts, k.txt(a))
	}
	return strings.Join(ts, ", ")
}
