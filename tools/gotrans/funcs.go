// funcs.go: translation of small pure integer / boolean Go functions (and of selected local
// initialiser expressions inside larger functions) into Gallina definitions over Z and bool, written to
// coq/Gen/Funcs.v on every run. The hand-written models are then tied to these definitions by lemmas
// (Proofs/Tie*.v): when the Go source of one of these functions changes, Gen/Funcs.v changes and the tie
// lemma either still holds (the theorems now speak about what the code says now) or breaks.
//
// Semantics of the translation (kept deliberately small; anything else is a loud failure):
//   - every integer value is a Z; after an operation whose Go result type is a sized integer type T the
//     result is wrapped to T (wrap_s w = two's complement, wrap_u w = mod 2^w; int/uint are 64 bit)
//     for the operations that can leave T's range (+ - * << unary- ^x and conversions);
//   - / and % are Go's truncated division (Z.quot / Z.rem); >> is the arithmetic shift on signed and the
//     logical shift on unsigned values, both Z.shiftr on the (already wrapped) value; & | ^ &^ are the
//     two's complement operations of Z;
//   - constant expressions are folded by go/types and emitted as literals;
//   - statements: := = op= ++ -- var, if/else, switch (with and without tag, no fallthrough), return,
//     named results; early returns become nested if-then-else; no loops, no calls except conversions and
//     calls of other translated functions of the same package;
//   - a []byte parameter is modelled as the LOG of the writes made through it, a list of (index, byte)
//     pairs in program order: buf[i] = e, binary.BigEndian.PutUint16/32/64(buf, e); the log is returned
//     as an extra last component of the result (reads of the buffer are not supported);
//   - `for i := a; i < b; i++ { body }` with a body that neither assigns i nor leaves the loop becomes a
//     local structural recursion on Z.to_nat (b - a) over the variables the body assigns;
//   - calls x.M() of a translated method M of the receiver's type on the receiver;
//   - fields of the receiver / of parameters (b.bits) and identifiers of other packages
//     (block.BitsPerBlock) and - in local-expression mode - locals not defined by the extracted
//     expressions become explicit parameters of the generated definition, in order of first use.
package main

import (
	"bytes"
	"fmt"
	"go/ast"
	"go/constant"
	"go/token"
	"go/types"
	"path/filepath"
	"sort"
	"strings"
)

type fnSpec struct {
	dir    string   // package directory relative to the repository
	recv   string   // receiver type name ("" for a plain function)
	name   string   // function / method name
	locals []string // when non-empty: translate only the initialisers `x := e` of these locals
}

var fnSpecs = []fnSpec{
	{"net/packet", "VarInt", "Len", nil},
	{"net/packet", "VarLong", "Len", nil},
	{"net/packet", "VarInt", "WriteToBytes", nil},
	{"net/packet", "VarLong", "WriteToBytes", nil},
	{"net/packet", "Position", "WriteTo", []string{"position"}},
	{"net/packet", "Position", "ReadFrom", []string{"x", "y", "z"}},
	{"level", "", "calcBitStorageSize", nil},
	{"level", "", "calcBitsPerValue", nil},
	{"level", "BitStorage", "calcIndex", nil},
	{"level", "BitStorage", "Get", nil},
	{"level", "BitStorage", "Set", nil},
	{"level", "BitStorage", "Swap", nil},
	{"level", "statesCfg", "bits", nil},
	{"level", "biomesCfg", "bits", nil},
	{"bot", "", "twosComplement", nil},
	{"server/auth", "", "twosComplement", nil},
	{"save/region", "", "In", nil},
	{"save/region", "", "At", nil},
	{"save/region", "", "sectorLoc", nil},
	{"save/region", "Region", "WriteSector", []string{"need"}},
	{"nbt", "", "isSpace", nil},
	{"nbt", "", "isNumber", nil},
	{"nbt", "", "isAllowedInUnquotedString", nil},
	{"nbt", "", "isFloatType", nil},
	{"nbt", "", "isIntegerType", nil},
}

type knownFn struct {
	cname string
	free  []string // free variables (receiver fields ...) the callee takes after its explicit parameters
	nres  int
}

// identifiers of packages the fake importer cannot resolve
var builtinConsts = map[string]string{
	"math.MaxUint64": "(18446744073709551615)", "math.MaxUint32": "(4294967295)", "math.MaxUint16": "(65535)", "math.MaxUint8": "(255)",
	"math.MaxInt64": "(9223372036854775807)", "math.MinInt64": "(-9223372036854775808)", "math.MaxInt32": "(2147483647)", "math.MinInt32": "(-2147483648)",
	"math.MaxInt16": "(32767)", "math.MinInt16": "(-32768)", "math.MaxInt8": "(127)", "math.MinInt8": "(-128)",
}

type trErr struct{ msg string }

func (e trErr) Error() string { return e.msg }

type trans struct {
	fset     *token.FileSet
	info     *types.Info
	prefix   string
	scopes   []map[string]string // Go identifier -> current Coq name
	used     map[string]int      // Coq base name -> number of versions handed out
	free     []string            // extra parameters (free variables), in order of first use
	freeSet  map[string]bool
	known    map[string]*knownFn // same-package translated functions: Go name (or Recv.Method) -> info
	results  []string          // Go names of named results (may be empty)
	nres     int
	localsOK bool // unknown plain identifiers become parameters (local-expression mode)
	bufs     []string        // Go names of []byte parameters: modelled as the log of (index, byte) writes
	recvName string          // Go name of the receiver variable ("" if none)
	recvType string          // receiver type name
	fall     func() string   // when set: what falling off the end of the current statement list means
	panics   bool            // the function has panic(...) statements: results are wrapped in gores
	arrs     []string        // indexable receiver fields / slice parameters that are WRITTEN (Coq base name)
	arrSet   map[string]bool
	fnVars   map[string]bool // free variables of type Z -> Z
	slicePar map[string]bool // slice parameters that are read: base function (Z -> Z) + write log
	aux      []string        // auxiliary top-level definitions (loops) emitted before the function
	cname    string
	nloops   int
	nSliceRes int // results of slice type (returned arrays): not part of the translated result tuple
	ctype     map[string]string // Coq name -> Coq type (for the binders of auxiliary Fixpoints)
	declared  map[string]bool   // Go names of boolean variables declared in the function being translated
}

// typeOfGo gives the Coq type of the Go variable called name (by its suffix for logs, else from go/types)
func (t *trans) typeOfGo(name string) string {
	if strings.HasSuffix(name, "_w") {
		return "list (Z * Z)"
	}
	for _, b := range t.bufs {
		if b == name {
			return "list (Z * Z)"
		}
	}
	if t.declared[name] {
		return "bool"
	}
	return "Z"
}

// arrName: the Coq base name of an indexable thing (recv.field or a slice parameter), "" if e is none
func (t *trans) arrName(e ast.Expr) string {
	switch x := e.(type) {
	case *ast.SelectorExpr:
		if id, ok := x.X.(*ast.Ident); ok {
			return id.Name + "_" + x.Sel.Name
		}
	case *ast.Ident:
		if t.slicePar[x.Name] {
			return x.Name
		}
	}
	return ""
}

func (t *trans) ret(rs []string) string {
	rs = t.withBufs(rs)
	var v string
	if len(rs) == 0 {
		v = "tt"
	} else {
		v = tuple(rs)
	}
	if t.panics {
		return "(GoRet " + v + ")"
	}
	return v
}

func (t *trans) fail(n ast.Node, f string, a ...any) {
	panic(trErr{fmt.Sprintf("%s: %s", t.fset.Position(n.Pos()), fmt.Sprintf(f, a...))})
}

func (t *trans) push() { t.scopes = append(t.scopes, map[string]string{}) }
func (t *trans) pop()  { t.scopes = t.scopes[:len(t.scopes)-1] }

func (t *trans) lookup(name string) (string, bool) {
	for i := len(t.scopes) - 1; i >= 0; i-- {
		if c, ok := t.scopes[i][name]; ok {
			return c, true
		}
	}
	return "", false
}

func (t *trans) fresh(name string) string {
	base := name
	if base == "_" {
		base = "unused"
	}
	n := t.used[base]
	t.used[base] = n + 1
	if n == 0 {
		return base
	}
	return fmt.Sprintf("%s_%d", base, n)
}

func (t *trans) define(name string) string {
	c := t.fresh(name)
	t.scopes[len(t.scopes)-1][name] = c
	if t.ctype != nil {
		t.ctype[c] = t.typeOfGo(name)
	}
	return c
}

func (t *trans) assign(n ast.Node, name string) string {
	for i := len(t.scopes) - 1; i >= 0; i-- {
		if _, ok := t.scopes[i][name]; ok {
			c := t.fresh(name)
			t.scopes[i][name] = c
			if t.ctype != nil {
				t.ctype[c] = t.typeOfGo(name)
			}
			return c
		}
	}
	t.fail(n, "assignment to unknown variable %s", name)
	return ""
}

func (t *trans) freeVar(name string) string {
	if !t.freeSet[name] {
		t.freeSet[name] = true
		t.free = append(t.free, name)
		t.used[name]++
	}
	return name
}

// intKind returns (signed, width, ok) for a sized integer type (named types by their underlying type)
func intKind(ty types.Type) (bool, int, bool) {
	if ty == nil {
		return false, 0, false
	}
	b, ok := ty.Underlying().(*types.Basic)
	if !ok {
		return false, 0, false
	}
	switch b.Kind() {
	case types.Int8:
		return true, 8, true
	case types.Int16:
		return true, 16, true
	case types.Int32:
		return true, 32, true
	case types.Int64, types.Int:
		return true, 64, true
	case types.Uint8:
		return false, 8, true
	case types.Uint16:
		return false, 16, true
	case types.Uint32:
		return false, 32, true
	case types.Uint64, types.Uint, types.Uintptr:
		return false, 64, true
	}
	return false, 0, false
}

func (t *trans) wrap(n ast.Expr, ty types.Type, s string) string {
	signed, w, ok := intKind(ty)
	if !ok {
		t.fail(n, "result type %v of an integer operation is not a sized integer type", ty)
	}
	if signed {
		return fmt.Sprintf("(wrap_s %d %s)", w, s)
	}
	return fmt.Sprintf("(wrap_u %d %s)", w, s)
}

func zlit(v constant.Value) string { return "(" + v.ExactString() + ")" }

func (t *trans) expr(e ast.Expr) string {
	if tv, ok := t.info.Types[e]; ok && tv.Value != nil {
		switch tv.Value.Kind() {
		case constant.Int:
			return zlit(tv.Value)
		case constant.Bool:
			if constant.BoolVal(tv.Value) {
				return "true"
			}
			return "false"
		}
		t.fail(e, "constant of unsupported kind %v", tv.Value.Kind())
	}
	switch x := e.(type) {
	case *ast.ParenExpr:
		return t.expr(x.X)
	case *ast.Ident:
		if c, ok := t.lookup(x.Name); ok {
			return c
		}
		if x.Name == "true" || x.Name == "false" {
			return x.Name
		}
		if t.localsOK {
			return t.freeVar(x.Name)
		}
		t.fail(e, "unknown identifier %s", x.Name)
	case *ast.SelectorExpr:
		if id, ok := x.X.(*ast.Ident); ok {
			if c, ok := builtinConsts[id.Name+"."+x.Sel.Name]; ok {
				return c
			}
			return t.freeVar(id.Name + "_" + x.Sel.Name)
		}
	case *ast.IndexExpr:
		// read of recv.field[i]: the field is a function Z -> Z (parameter), overlaid by this call's writes
		if a := t.arrName(x.X); a != "" {
			base := t.freeVar(a)
			t.fnVars[base] = true
			if t.arrSet[a] {
				cur, _ := t.lookup(a + "_w")
				return "(read_buf " + cur + " " + base + " " + t.expr(x.Index) + ")"
			}
			return "(" + base + " " + t.expr(x.Index) + ")"
		}
		t.fail(e, "unsupported index expression")
		t.fail(e, "unsupported selector expression")
	case *ast.UnaryExpr:
		a := t.expr(x.X)
		ty := t.info.Types[e].Type
		switch x.Op {
		case token.SUB:
			return t.wrap(e, ty, "(- "+a+")")
		case token.ADD:
			return a
		case token.XOR:
			return t.wrap(e, ty, "(Z.lnot "+a+")")
		case token.NOT:
			return "(negb " + a + ")"
		}
		t.fail(e, "unsupported unary operator %s", x.Op)
	case *ast.BinaryExpr:
		a, b := t.expr(x.X), t.expr(x.Y)
		ty := t.info.Types[e].Type
		switch x.Op {
		case token.ADD:
			return t.wrap(e, ty, "("+a+" + "+b+")")
		case token.SUB:
			return t.wrap(e, ty, "("+a+" - "+b+")")
		case token.MUL:
			return t.wrap(e, ty, "("+a+" * "+b+")")
		case token.QUO:
			return "(Z.quot " + a + " " + b + ")"
		case token.REM:
			return "(Z.rem " + a + " " + b + ")"
		case token.AND:
			return "(Z.land " + a + " " + b + ")"
		case token.OR:
			return "(Z.lor " + a + " " + b + ")"
		case token.XOR:
			return "(Z.lxor " + a + " " + b + ")"
		case token.AND_NOT:
			return "(Z.ldiff " + a + " " + b + ")"
		case token.SHL:
			return t.wrap(e, ty, "(Z.shiftl "+a+" "+b+")")
		case token.SHR:
			return "(Z.shiftr " + a + " " + b + ")"
		case token.EQL:
			if tx, ok := t.info.Types[x.X]; ok && tx.Type != nil {
				if bt, ok := tx.Type.Underlying().(*types.Basic); ok && bt.Info()&types.IsBoolean != 0 {
					return "(Bool.eqb " + a + " " + b + ")"
				}
			}
			return "(" + a + " =? " + b + ")"
		case token.NEQ:
			return "(negb (" + a + " =? " + b + "))"
		case token.LSS:
			return "(" + a + " <? " + b + ")"
		case token.LEQ:
			return "(" + a + " <=? " + b + ")"
		case token.GTR:
			return "(" + b + " <? " + a + ")"
		case token.GEQ:
			return "(" + b + " <=? " + a + ")"
		case token.LAND:
			return "(" + a + " && " + b + ")"
		case token.LOR:
			return "(" + a + " || " + b + ")"
		}
		t.fail(e, "unsupported binary operator %s", x.Op)
	case *ast.CallExpr:
		if tv, ok := t.info.Types[x.Fun]; ok && tv.IsType() {
			if len(x.Args) != 1 {
				t.fail(e, "conversion with %d arguments", len(x.Args))
			}
			return t.wrap(e, tv.Type, t.expr(x.Args[0]))
		}
		if id, ok := x.Fun.(*ast.Ident); ok && id.Name == "len" && len(x.Args) == 1 {
			if a := t.arrName(x.Args[0]); a != "" {
				return t.freeVar(a + "_len")
			}
			if a, ok := x.Args[0].(*ast.Ident); ok && t.localsOK {
				return t.freeVar(a.Name + "_len") // local-expression mode: the length of a slice is a parameter
			}
		}
		if c, _ := t.callKnown(x); c != "" {
			return c
		}
		t.fail(e, "call of a function that is not translated")
	}
	t.fail(e, "unsupported expression %T", e)
	return ""
}

// callKnown translates a call of a translated function f(args) or receiver method recv.M(args); the
// callee's free variables (receiver fields) are passed through under the same names
func (t *trans) callKnown(x *ast.CallExpr) (string, int) {
	var k *knownFn
	var args []string
	if id, ok := x.Fun.(*ast.Ident); ok {
		k = t.known[id.Name]
	} else if sel, ok := x.Fun.(*ast.SelectorExpr); ok {
		if id, ok := sel.X.(*ast.Ident); ok && t.recvName != "" && id.Name == t.recvName {
			k = t.known[t.recvType+"."+sel.Sel.Name]
			if k != nil {
				if c, ok := t.lookup(id.Name); ok { // a receiver of integer type is the first parameter
					args = append(args, c)
				}
			}
		}
	}
	if k == nil {
		return "", 0
	}
	for _, a := range x.Args {
		args = append(args, t.expr(a))
	}
	for _, f := range k.free {
		args = append(args, t.freeVar(f))
	}
	return "(" + strings.Join(append([]string{k.cname}, args...), " ") + ")", k.nres
}

type popMarker struct{ ast.EmptyStmt }

func (t *trans) resultTuple(n ast.Node) string {
	if t.fall != nil {
		return t.fall()
	}
	if len(t.results) == 0 && t.nres > 0 {
		t.fail(n, "control reaches the end of a function without named results")
	}
	var rs []string
	for _, r := range t.results {
		c, _ := t.lookup(r)
		rs = append(rs, c)
	}
	return t.ret(rs)
}

// withBufs appends the current write logs of the []byte parameters to a result list
func (t *trans) withBufs(rs []string) []string {
	for _, b := range t.bufs {
		c, _ := t.lookup(b)
		rs = append(rs, c)
	}
	for _, a := range t.arrs {
		c, _ := t.lookup(a + "_w")
		rs = append(rs, c)
	}
	return rs
}

func (t *trans) isBuf(e ast.Expr) (string, bool) {
	id, ok := e.(*ast.Ident)
	if !ok {
		return "", false
	}
	for _, b := range t.bufs {
		if b == id.Name {
			return b, true
		}
	}
	return "", false
}

// assigned collects the plain identifiers a statement list assigns (=, op=, ++, --, buffer writes)
func (t *trans) assigned(list []ast.Stmt, out map[string]bool) {
	for _, s := range list {
		ast.Inspect(s, func(n ast.Node) bool {
			switch x := n.(type) {
			case *ast.AssignStmt:
				for _, l := range x.Lhs {
					if id, ok := l.(*ast.Ident); ok && id.Name != "_" && x.Tok != token.DEFINE {
						out[id.Name] = true
					}
					if ix, ok := l.(*ast.IndexExpr); ok {
						if b, ok := t.isBuf(ix.X); ok {
							out[b] = true
						}
						if a := t.arrName(ix.X); a != "" {
							out[a+"_w"] = true
						}
					}
				}
			case *ast.IncDecStmt:
				if id, ok := x.X.(*ast.Ident); ok {
					out[id.Name] = true
				}
				if ix, ok := x.X.(*ast.IndexExpr); ok {
					if a := t.arrName(ix.X); a != "" {
						out[a+"_w"] = true
					}
				}
			case *ast.CallExpr:
				if len(x.Args) > 0 {
					if b, ok := t.isBuf(x.Args[0]); ok {
						out[b] = true
					}
				}
			}
			return true
		})
	}
}

func tuple(rs []string) string {
	if len(rs) == 1 {
		return rs[0]
	}
	return "(" + strings.Join(rs, ", ") + ")"
}

func (t *trans) snapshot() ([]map[string]string, map[string]int) {
	sc := make([]map[string]string, len(t.scopes))
	for i, m := range t.scopes {
		sc[i] = map[string]string{}
		for k, v := range m {
			sc[i][k] = v
		}
	}
	us := map[string]int{}
	for k, v := range t.used {
		us[k] = v
	}
	return sc, us
}

// stmts translates a statement list followed by `end` (the fall-through result)
func (t *trans) stmts(list []ast.Stmt, at ast.Node) string {
	if len(list) == 0 {
		return t.resultTuple(at)
	}
	s, rest := list[0], list[1:]
	switch x := s.(type) {
	case *popMarker:
		t.pop()
		return t.stmts(rest, at)
	case *ast.EmptyStmt:
		return t.stmts(rest, at)
	case *ast.ReturnStmt:
		if len(x.Results) == 0 {
			return t.resultTuple(x)
		}
		if len(x.Results) != t.nres+t.nSliceRes {
			t.fail(x, "return with %d values in a function with %d results", len(x.Results), t.nres+t.nSliceRes)
		}
		var rs []string
		for _, r := range x.Results {
			if id, ok := r.(*ast.Ident); ok && t.slicePar[id.Name] {
				continue // the slice itself: its write log is part of every result
			}
			rs = append(rs, t.expr(r))
		}
		return t.ret(rs)
	case *ast.ExprStmt:
		// binary.BigEndian.PutUintNN(buf, e): big-endian bytes written at indices 0..NN/8-1
		if call, ok := x.X.(*ast.CallExpr); ok && len(call.Args) == 2 {
			if sel, ok := call.Fun.(*ast.SelectorExpr); ok {
				if in, ok := sel.X.(*ast.SelectorExpr); ok {
					if pk, ok := in.X.(*ast.Ident); ok && pk.Name == "binary" && in.Sel.Name == "BigEndian" {
						nb := map[string]int{"PutUint16": 2, "PutUint32": 4, "PutUint64": 8}[sel.Sel.Name]
						if b, ok := t.isBuf(call.Args[0]); ok && nb > 0 {
							v := t.expr(call.Args[1])
							cur, _ := t.lookup(b)
							tmp := t.fresh("put")
							var ws []string
							for k := 0; k < nb; k++ {
								ws = append(ws, fmt.Sprintf("((%d), wrap_u 8 (Z.shiftr %s (%d)))", k, tmp, 8*(nb-1-k)))
							}
							return fmt.Sprintf("let %s := %s in\n  let %s := (%s ++ [%s])%%list in\n  ", tmp, v, t.assign(x, b), cur, strings.Join(ws, "; ")) + t.stmts(rest, at)
						}
					}
				}
			}
		}
		if call, ok := x.X.(*ast.CallExpr); ok {
			if id, ok := call.Fun.(*ast.Ident); ok && id.Name == "panic" {
				return "GoPanic"
			}
		}
		t.fail(x, "unsupported expression statement")
	case *ast.ForStmt:
		// for i := a; i < b; i++ { body }  and  for i := a; i >= b; i-- { body }
		// (i and the bound not assigned in the body, no break/continue/return/goto): a top-level structural
		// recursion on the iteration count over the variables the body assigns
		init, ok1 := x.Init.(*ast.AssignStmt)
		cond, ok2 := x.Cond.(*ast.BinaryExpr)
		post, ok3 := x.Post.(*ast.IncDecStmt)
		if !ok1 || !ok2 || !ok3 || init.Tok != token.DEFINE || len(init.Lhs) != 1 {
			t.fail(x, "unsupported for statement")
		}
		up := cond.Op == token.LSS && post.Tok == token.INC
		down := cond.Op == token.GEQ && post.Tok == token.DEC
		if !up && !down {
			t.fail(x, "unsupported for statement (only `i < b; i++` and `i >= b; i--`)")
		}
		iv, okA := init.Lhs[0].(*ast.Ident)
		ci, okB := cond.X.(*ast.Ident)
		pi, okC := post.X.(*ast.Ident)
		if !okA || !okB || !okC || ci.Name != iv.Name || pi.Name != iv.Name {
			t.fail(x, "unsupported for statement (loop variable)")
		}
		bad := false
		ast.Inspect(x.Body, func(n ast.Node) bool {
			switch n.(type) {
			case *ast.BranchStmt, *ast.ReturnStmt, *ast.ForStmt, *ast.RangeStmt, *ast.GoStmt, *ast.DeferStmt:
				bad = true
			}
			return true
		})
		as := map[string]bool{}
		t.assigned(x.Body.List, as)
		boundIDs := map[string]bool{}
		ast.Inspect(cond.Y, func(n ast.Node) bool {
			if id, ok := n.(*ast.Ident); ok {
				boundIDs[id.Name] = true
			}
			return true
		})
		for n := range as {
			if n == iv.Name || boundIDs[n] {
				bad = true
			}
		}
		if bad {
			t.fail(x, "unsupported for statement (body leaves the loop, or assigns the loop variable or its bound)")
		}
		var state []string // Go-level names of the loop-carried variables, in a fixed order
		for n := range as {
			if _, ok := t.lookup(n); ok {
				state = append(state, n)
			}
		}
		sort.Strings(state)
		if len(state) == 0 {
			return t.stmts(rest, at) // a loop without effect on the translated state
		}
		from, to := t.expr(init.Rhs[0]), t.expr(cond.Y)
		t.nloops++
		loop := fmt.Sprintf("%s_loop%d", t.cname, t.nloops)
		k, k1 := t.fresh("k"), t.fresh("k")
		var outer []string
		for _, n := range state {
			c, _ := t.lookup(n)
			outer = append(outer, c)
		}
		// names visible at loop entry (candidates for capture)
		visible := map[string]bool{}
		for _, m := range t.scopes {
			for _, c := range m {
				visible[c] = true
			}
		}
		t.push()
		iF := t.define(iv.Name)
		var formals []string
		for _, n := range state {
			formals = append(formals, t.assign(x, n))
		}
		ity := t.info.Defs[iv].Type()
		next := t.wrap(iv, ity, "("+iF+" + 1)")
		if down {
			next = t.wrap(iv, ity, "("+iF+" - 1)")
		}
		isFormal := map[string]bool{iF: true, k: true, k1: true}
		for _, f := range formals {
			isFormal[f] = true
		}
		var captured []string
		saveFall := t.fall
		t.fall = func() string {
			var cur []string
			for _, n := range state {
				c, _ := t.lookup(n)
				cur = append(cur, c)
			}
			return "(" + loop + " \x05 " + k1 + " " + next + " " + strings.Join(cur, " ") + ")"
		}
		body := t.stmts(append([]ast.Stmt{}, x.Body.List...), x)
		t.fall = saveFall
		t.pop()
		// captured = names visible at entry, or free variables, that occur in the body
		toks := strings.FieldsFunc(body, func(r rune) bool {
			return !(r == '_' || r == '\'' || r >= '0' && r <= '9' || r >= 'a' && r <= 'z' || r >= 'A' && r <= 'Z')
		})
		seen := map[string]bool{}
		for _, tk := range toks {
			if seen[tk] || isFormal[tk] {
				continue
			}
			if visible[tk] || t.freeSet[tk] {
				seen[tk] = true
				captured = append(captured, tk)
			}
		}
		sort.Strings(captured)
		capS := strings.Join(captured, " ")
		body = strings.ReplaceAll(body, "\x05", capS)
		var capB, formB []string
		for _, c := range captured {
			ty := t.ctype[c]
			if t.fnVars[c] {
				ty = "Z -> Z"
			} else if ty == "" {
				ty = "Z"
			}
			capB = append(capB, "("+c+" : "+ty+")")
		}
		for _, f := range formals {
			formB = append(formB, "("+f+" : "+t.ctype[f]+")")
		}
		t.aux = append(t.aux, fmt.Sprintf("Fixpoint %s %s (%s : nat) (%s : Z) %s {struct %s} :=\n  match %s with\n  | O => %s\n  | S %s => %s\n  end.\n\n",
			loop, strings.Join(capB, " "), k, iF, strings.Join(formB, " "), k, k, tuple(formals), k1, body))
		var after []string
		for _, n := range state {
			after = append(after, t.assign(x, n))
		}
		pat := after[0]
		if len(after) > 1 {
			pat = "'(" + strings.Join(after, ", ") + ")"
		}
		count := "(" + to + " - " + from + ")"
		if down {
			count = "(" + from + " - " + to + " + 1)"
		}
		return fmt.Sprintf("let %s := %s %s (Z.to_nat %s) %s %s in\n  ", pat, loop, capS, count, from, strings.Join(outer, " ")) + t.stmts(rest, at)
	case *ast.BlockStmt:
		t.push()
		l := append(append([]ast.Stmt{}, x.List...), &popMarker{})
		return t.stmts(append(l, rest...), at)
	case *ast.DeclStmt:
		gd, ok := x.Decl.(*ast.GenDecl)
		if !ok || gd.Tok != token.VAR {
			t.fail(x, "unsupported declaration")
		}
		var b bytes.Buffer
		for _, sp := range gd.Specs {
			vs := sp.(*ast.ValueSpec)
			for i, n := range vs.Names {
				v := "(0)"
				if tv, ok := t.info.Defs[n]; ok && tv != nil {
					if bt, ok := tv.Type().Underlying().(*types.Basic); ok && bt.Info()&types.IsBoolean != 0 {
						v = "false"
					}
				}
				if i < len(vs.Values) {
					v = t.expr(vs.Values[i])
				}
				fmt.Fprintf(&b, "let %s := %s in\n  ", t.define(n.Name), v)
			}
		}
		return b.String() + t.stmts(rest, at)
	case *ast.IncDecStmt:
		if ix, ok := x.X.(*ast.IndexExpr); ok {
			if a := t.arrName(ix.X); a != "" && t.arrSet[a] {
				op := " + "
				if x.Tok == token.DEC {
					op = " - "
				}
				v := t.wrap(ix, t.info.Types[ix].Type, "("+t.expr(ix)+op+"1)")
				idx := t.expr(ix.Index)
				cur, _ := t.lookup(a + "_w")
				return fmt.Sprintf("let %s := (%s ++ [(%s, %s)])%%list in\n  ", t.assign(x, a+"_w"), cur, idx, v) + t.stmts(rest, at)
			}
		}
		id, ok := x.X.(*ast.Ident)
		if !ok {
			t.fail(x, "unsupported ++/-- target")
		}
		cur := t.expr(id)
		op := " + "
		if x.Tok == token.DEC {
			op = " - "
		}
		v := t.wrap(id, t.info.Types[id].Type, "("+cur+op+"1)")
		return fmt.Sprintf("let %s := %s in\n  ", t.assign(x, id.Name), v) + t.stmts(rest, at)
	case *ast.AssignStmt:
		if len(x.Lhs) == 1 && len(x.Rhs) == 1 && x.Tok == token.ASSIGN {
			if id, ok := x.Lhs[0].(*ast.Ident); ok && id.Name == "_" {
				// `_ = buf[k]`: a bounds-check hint; it has no effect on the translated state
				return t.stmts(rest, at)
			}
		}
		var vals []string
		if len(x.Rhs) == 1 && len(x.Lhs) > 1 {
			if call, ok := x.Rhs[0].(*ast.CallExpr); ok {
				c, n := t.callKnown(call)
				if c == "" || n != len(x.Lhs) {
					t.fail(x, "assignment of a multi-value expression")
				}
				var pats []string
				for _, l := range x.Lhs {
					id, ok := l.(*ast.Ident)
					if !ok {
						t.fail(x, "unsupported assignment target %T", l)
					}
					if id.Name == "_" {
						pats = append(pats, "_")
					} else if x.Tok == token.DEFINE {
						pats = append(pats, t.define(id.Name))
					} else {
						pats = append(pats, t.assign(x, id.Name))
					}
				}
				return fmt.Sprintf("let '(%s) := %s in\n  ", strings.Join(pats, ", "), c) + t.stmts(rest, at)
			}
		}
		if len(x.Lhs) == 1 && len(x.Rhs) == 1 && x.Tok == token.ASSIGN {
			if ix, ok := x.Lhs[0].(*ast.IndexExpr); ok {
				if a := t.arrName(ix.X); a != "" {
					if !t.arrSet[a] {
						t.fail(x, "internal: write to %s not pre-registered", a)
					}
					v := t.expr(x.Rhs[0])
					idx := t.expr(ix.Index)
					cur, _ := t.lookup(a + "_w")
					return fmt.Sprintf("let %s := (%s ++ [(%s, %s)])%%list in\n  ", t.assign(x, a+"_w"), cur, idx, v) + t.stmts(rest, at)
				}
			}
		}
		if x.Tok == token.DEFINE || x.Tok == token.ASSIGN {
			if len(x.Lhs) != len(x.Rhs) {
				t.fail(x, "assignment of a multi-value expression")
			}
			for _, r := range x.Rhs {
				vals = append(vals, t.expr(r))
			}
		} else {
			if len(x.Lhs) != 1 {
				t.fail(x, "compound assignment with several targets")
			}
			var op token.Token
			switch x.Tok {
			case token.ADD_ASSIGN:
				op = token.ADD
			case token.SUB_ASSIGN:
				op = token.SUB
			case token.MUL_ASSIGN:
				op = token.MUL
			case token.QUO_ASSIGN:
				op = token.QUO
			case token.REM_ASSIGN:
				op = token.REM
			case token.AND_ASSIGN:
				op = token.AND
			case token.OR_ASSIGN:
				op = token.OR
			case token.XOR_ASSIGN:
				op = token.XOR
			case token.SHL_ASSIGN:
				op = token.SHL
			case token.SHR_ASSIGN:
				op = token.SHR
			default:
				t.fail(x, "unsupported assignment operator %s", x.Tok)
			}
			be := &ast.BinaryExpr{X: x.Lhs[0], Op: op, Y: x.Rhs[0], OpPos: x.TokPos}
			t.info.Types[be] = t.info.Types[x.Lhs[0]]
			vals = append(vals, t.expr(be))
		}
		var b bytes.Buffer
		var names []string
		if len(x.Lhs) == 1 && x.Tok == token.ASSIGN {
			if ix, ok := x.Lhs[0].(*ast.IndexExpr); ok {
				if bn, ok := t.isBuf(ix.X); ok {
					cur, _ := t.lookup(bn)
					idx := t.expr(ix.Index)
					return fmt.Sprintf("let %s := (%s ++ [(%s, %s)])%%list in\n  ", t.assign(x, bn), cur, idx, vals[0]) + t.stmts(rest, at)
				}
			}
		}
		for _, l := range x.Lhs {
			id, ok := l.(*ast.Ident)
			if !ok {
				t.fail(x, "unsupported assignment target %T", l)
			}
			names = append(names, id.Name)
		}
		// all right-hand sides are evaluated before any target is updated (they are already strings
		// over the old Coq names), so a sequence of lets is a faithful parallel assignment
		for i, n := range names {
			var c string
			if n == "_" {
				continue
			}
			if x.Tok == token.DEFINE {
				if _, ok := t.scopes[len(t.scopes)-1][n]; ok {
					c = t.assign(x, n)
				} else {
					c = t.define(n)
				}
			} else {
				c = t.assign(x, n)
			}
			fmt.Fprintf(&b, "let %s := %s in\n  ", c, vals[i])
		}
		return b.String() + t.stmts(rest, at)
	case *ast.IfStmt:
		t.push() // scope of the init statement
		var pre string
		var initDone []ast.Stmt
		if x.Init != nil {
			as, ok := x.Init.(*ast.AssignStmt)
			if !ok {
				t.fail(x, "unsupported if-init statement")
			}
			// translate the init by itself: its lets prefix the conditional
			marker := "\x00"
			sc, us := t.snapshot()
			_ = sc
			_ = us
			full := t.stmtsWithTail([]ast.Stmt{as}, marker)
			pre = strings.TrimSuffix(full, marker)
		}
		_ = initDone
		cond := t.expr(x.Cond)
		after := append([]ast.Stmt{&popMarker{}}, rest...)
		sc, us := t.snapshot()
		thenL := append([]ast.Stmt{x.Body}, after...)
		a := t.stmts(thenL, at)
		t.scopes, _ = sc, us
		// Coq names handed out in the then-branch stay reserved (t.used is not rolled back) so the two
		// branches never reuse a name for different values
		var elseL []ast.Stmt
		if x.Else != nil {
			elseL = append([]ast.Stmt{x.Else}, after...)
		} else {
			elseL = after
		}
		b := t.stmts(elseL, at)
		return pre + "if " + cond + "\n  then " + a + "\n  else " + b
	case *ast.SwitchStmt:
		if x.Init != nil {
			t.fail(x, "switch with init statement")
		}
		var tag string
		if x.Tag != nil {
			tag = t.expr(x.Tag)
		}
		var def *ast.CaseClause
		var clauses []*ast.CaseClause
		for _, c := range x.Body.List {
			cc := c.(*ast.CaseClause)
			for _, st := range cc.Body {
				if br, ok := st.(*ast.BranchStmt); ok {
					t.fail(br, "unsupported branch statement in switch")
				}
			}
			if cc.List == nil {
				def = cc
			} else {
				clauses = append(clauses, cc)
			}
		}
		var b bytes.Buffer
		closeN := 0
		for _, cc := range clauses {
			var cs []string
			for _, e := range cc.List {
				if x.Tag != nil {
					cs = append(cs, "("+tag+" =? "+t.expr(e)+")")
				} else {
					cs = append(cs, t.expr(e))
				}
			}
			cond := cs[0]
			for _, c := range cs[1:] {
				cond = "(" + cond + " || " + c + ")"
			}
			sc, _ := t.snapshot()
			body := t.stmts(append([]ast.Stmt{&ast.BlockStmt{List: cc.Body}}, rest...), at)
			t.scopes = sc
			fmt.Fprintf(&b, "if %s\n  then %s\n  else ", cond, body)
			closeN++
		}
		if def != nil {
			b.WriteString(t.stmts(append([]ast.Stmt{&ast.BlockStmt{List: def.Body}}, rest...), at))
		} else {
			b.WriteString(t.stmts(rest, at))
		}
		return b.String()
	}
	t.fail(s, "unsupported statement %T", s)
	return ""
}

// stmtsWithTail translates assignments only and appends tail instead of the function's continuation
func (t *trans) stmtsWithTail(list []ast.Stmt, tail string) string {
	var b bytes.Buffer
	for _, s := range list {
		as, ok := s.(*ast.AssignStmt)
		if !ok {
			t.fail(s, "unsupported init statement")
		}
		marker := "\x01"
		saveRes, saveN := t.results, t.nres
		t.results, t.nres = []string{"\x02"}, 1
		t.scopes[0]["\x02"] = marker
		full := t.stmts([]ast.Stmt{as}, as)
		t.results, t.nres = saveRes, saveN
		delete(t.scopes[0], "\x02")
		b.WriteString(strings.TrimSuffix(full, marker))
	}
	return b.String() + tail
}

func coqType(ty types.Type) (string, error) {
	if _, _, ok := intKind(ty); ok {
		return "Z", nil
	}
	if b, ok := ty.Underlying().(*types.Basic); ok && b.Info()&types.IsBoolean != 0 {
		return "bool", nil
	}
	return "", fmt.Errorf("unsupported type %v", ty)
}

func findFunc(files []*ast.File, recv, name string) *ast.FuncDecl {
	for _, f := range files {
		for _, d := range f.Decls {
			fd, ok := d.(*ast.FuncDecl)
			if !ok || fd.Name.Name != name {
				continue
			}
			r := ""
			if fd.Recv != nil && len(fd.Recv.List) == 1 {
				ty := fd.Recv.List[0].Type
				if st, ok := ty.(*ast.StarExpr); ok {
					ty = st.X
				}
				if ix, ok := ty.(*ast.IndexExpr); ok {
					ty = ix.X
				}
				if id, ok := ty.(*ast.Ident); ok {
					r = id.Name
				}
			}
			if r == recv {
				return fd
			}
		}
	}
	return nil
}

func genFuncs(repo string) (out string, err error) {
	defer func() {
		if r := recover(); r != nil {
			if te, ok := r.(trErr); ok {
				err = te
				return
			}
			panic(r)
		}
	}()
	var b bytes.Buffer
	b.WriteString("(* GENERATED by tools/gotrans (funcs.go) from the repository working tree - do not edit *)\n")
	b.WriteString("From Coq Require Import ZArith Bool List.\nFrom GoMC Require Import Base.GoInt.\nLocal Open Scope Z_scope.\nLocal Open Scope bool_scope.\nImport ListNotations.\n\n")
	type pk struct {
		fset  *token.FileSet
		files []*ast.File
		info  *types.Info
	}
	pkgs := map[string]*pk{}
	known := map[string]map[string]*knownFn{}
	for _, sp := range fnSpecs {
		p := pkgs[sp.dir]
		if p == nil {
			fset := token.NewFileSet()
			files, _, e := parseDir(fset, filepath.Join(repo, sp.dir))
			if e != nil {
				return "", e
			}
			conf := types.Config{Importer: &fakeImporter{map[string]*types.Package{}}, Error: func(error) {}}
			info := &types.Info{Types: map[ast.Expr]types.TypeAndValue{}, Defs: map[*ast.Ident]types.Object{}, Uses: map[*ast.Ident]types.Object{}}
			conf.Check(sp.dir, fset, files, info)
			p = &pk{fset, files, info}
			pkgs[sp.dir] = p
			known[sp.dir] = map[string]*knownFn{}
		}
		fd := findFunc(p.files, sp.recv, sp.name)
		if fd == nil || fd.Body == nil {
			return "", fmt.Errorf("function %s %s.%s not found", sp.dir, sp.recv, sp.name)
		}
		prefix := ident(sp.dir[strings.LastIndex(sp.dir, "/")+1:])
		cname := prefix + "_"
		if sp.recv != "" {
			cname += sp.recv + "_"
		}
		cname += sp.name
		t := &trans{fset: p.fset, info: p.info, prefix: prefix, used: map[string]int{}, freeSet: map[string]bool{}, known: known[sp.dir]}
		t.push()
		// reserve the Coq-level names used by the generated code
		for _, r := range []string{"wrap_s", "wrap_u", "Z", "bool", "true", "false", "negb", "fst", "snd", "if", "then", "else", "let", "in", "fun", "at", "as", "end", "match", "with", "return", "Type", "Set", "Prop", "forall", "exists"} {
			t.used[r] = 1
		}
		var params []string
		var bufInit bytes.Buffer
		t.recvType = sp.recv
		t.cname = cname
		t.slicePar = map[string]bool{}
		t.ctype, t.declared = map[string]string{}, map[string]bool{}
		ast.Inspect(fd, func(n ast.Node) bool {
			if id, ok := n.(*ast.Ident); ok {
				if obj := p.info.Defs[id]; obj != nil {
					if bt, ok := obj.Type().Underlying().(*types.Basic); ok && bt.Info()&types.IsBoolean != 0 {
						t.declared[id.Name] = true
					}
				}
			}
			return true
		})
		// a slice parameter that is READ (x[i] outside an assignment target) is an array: entry contents as a
		// function parameter plus a write log; a []byte parameter that is only written is a plain write log
		readSlices := map[string]bool{}
		{
			targets := map[ast.Expr]bool{}
			ast.Inspect(fd.Body, func(n ast.Node) bool {
				if as, ok := n.(*ast.AssignStmt); ok && as.Tok == token.ASSIGN {
					for _, l := range as.Lhs {
						targets[l] = true
					}
				}
				return true
			})
			ast.Inspect(fd.Body, func(n ast.Node) bool {
				if ix, ok := n.(*ast.IndexExpr); ok && !targets[ix] {
					if id, ok := ix.X.(*ast.Ident); ok {
						readSlices[id.Name] = true
					}
				}
				if c, ok := n.(*ast.CallExpr); ok {
					if id, ok := c.Fun.(*ast.Ident); ok && id.Name == "len" && len(c.Args) == 1 {
						if a, ok := c.Args[0].(*ast.Ident); ok {
							readSlices[a.Name] = true
						}
					}
				}
				return true
			})
		}
		addParam := func(n *ast.Ident, ty ast.Expr) {
			tv := p.info.Types[ty]
			if sl, ok := tv.Type.Underlying().(*types.Slice); ok && len(sp.locals) == 0 {
				if _, _, isInt := intKind(sl.Elem()); isInt && readSlices[n.Name] {
					t.slicePar[n.Name] = true
					t.used[n.Name]++
					return
				}
				if bt, ok := sl.Elem().Underlying().(*types.Basic); ok && bt.Kind() == types.Uint8 {
					t.bufs = append(t.bufs, n.Name)
					fmt.Fprintf(&bufInit, "let %s := (@nil (Z * Z)) in\n  ", t.define(n.Name))
					return
				}
			}
			ct, e := coqType(tv.Type)
			if e != nil {
				// a parameter of a non-integer type (receiver struct, io.Reader ...): usable only through its fields
				return
			}
			params = append(params, fmt.Sprintf("(%s : %s)", t.define(n.Name), ct))
		}
		if fd.Recv != nil {
			for _, f := range fd.Recv.List {
				for _, n := range f.Names {
					t.recvName = n.Name
					addParam(n, f.Type)
				}
			}
		}
		for _, f := range fd.Type.Params.List {
			for _, n := range f.Names {
				addParam(n, f.Type)
			}
		}
		if len(sp.locals) > 0 {
			t.localsOK = true
			for _, ln := range sp.locals {
				var found ast.Expr
				ast.Inspect(fd.Body, func(n ast.Node) bool {
					as, ok := n.(*ast.AssignStmt)
					if !ok || found != nil || as.Tok != token.DEFINE || len(as.Lhs) != len(as.Rhs) {
						return true
					}
					for i, l := range as.Lhs {
						if id, ok := l.(*ast.Ident); ok && id.Name == ln {
							found = as.Rhs[i]
						}
					}
					return true
				})
				if found == nil {
					return "", fmt.Errorf("%s: local %s := ... not found", cname, ln)
				}
				t2 := &trans{fset: p.fset, info: p.info, prefix: prefix, used: map[string]int{}, freeSet: map[string]bool{}, known: known[sp.dir], localsOK: true}
				t2.push()
				for k, v := range t.used {
					t2.used[k] = v
				}
				for k, v := range t.scopes[0] {
					t2.scopes[0][k] = v
				}
				body := t2.expr(found)
				tv := p.info.Types[found]
				ct, e := coqType(tv.Type)
				if e != nil {
					return "", fmt.Errorf("%s.%s: %v", cname, ln, e)
				}
				var ps []string
				for _, pr := range params {
					// keep only parameters that occur in the body
					nm := strings.Fields(strings.Trim(pr, "()"))[0]
					if strings.Contains(" "+strings.NewReplacer("(", " ", ")", " ").Replace(body)+" ", " "+nm+" ") {
						ps = append(ps, pr)
					}
				}
				for _, fv := range t2.free {
					ps = append(ps, fmt.Sprintf("(%s : Z)", fv))
				}
				fmt.Fprintf(&b, "(* %s, initialiser of local %s in %s *)\nDefinition %s_%s %s : %s :=\n  %s.\n\n", sp.dir, ln, fd.Name.Name, cname, ln, strings.Join(ps, " "), ct, body)
			}
			continue
		}
		var rts []string
		var inits bytes.Buffer
		if fd.Type.Results != nil {
			for _, f := range fd.Type.Results.List {
				tv := p.info.Types[f.Type]
				if _, ok := tv.Type.Underlying().(*types.Slice); ok && len(f.Names) == 0 {
					t.nSliceRes++
					continue
				}
				ct, e := coqType(tv.Type)
				if e != nil {
					return "", fmt.Errorf("%s: %v", cname, e)
				}
				if len(f.Names) == 0 {
					rts = append(rts, ct)
					continue
				}
				for _, n := range f.Names {
					rts = append(rts, ct)
					t.results = append(t.results, n.Name)
					z := "(0)"
					if ct == "bool" {
						z = "false"
					}
					fmt.Fprintf(&inits, "let %s := %s in\n  ", t.define(n.Name), z)
				}
			}
		}
		t.nres = len(rts)
		for range t.bufs {
			rts = append(rts, "list (Z * Z)")
		}
		// pre-scan: panic statements, and indexable receiver fields that are written
		t.arrSet, t.fnVars = map[string]bool{}, map[string]bool{}
		ast.Inspect(fd.Body, func(n ast.Node) bool {
			switch x := n.(type) {
			case *ast.CallExpr:
				if id, ok := x.Fun.(*ast.Ident); ok && id.Name == "panic" {
					t.panics = true
				}
			case *ast.AssignStmt:
				for _, l := range x.Lhs {
					if ix, ok := l.(*ast.IndexExpr); ok {
						if a := t.arrName(ix.X); a != "" && !t.arrSet[a] {
							t.arrSet[a] = true
							t.arrs = append(t.arrs, a)
						}
					}
				}
			case *ast.IncDecStmt:
				if ix, ok := x.X.(*ast.IndexExpr); ok {
					if a := t.arrName(ix.X); a != "" && !t.arrSet[a] {
						t.arrSet[a] = true
						t.arrs = append(t.arrs, a)
					}
				}
			}
			return true
		})
		var arrInit bytes.Buffer
		for _, a := range t.arrs {
			fmt.Fprintf(&arrInit, "let %s := (@nil (Z * Z)) in\n  ", t.define(a+"_w"))
			rts = append(rts, "list (Z * Z)")
		}
		body := bufInit.String() + arrInit.String() + inits.String() + t.stmts(fd.Body.List, fd)
		for _, fv := range t.free {
			if t.fnVars[fv] {
				params = append(params, fmt.Sprintf("(%s : Z -> Z)", fv))
			} else {
				params = append(params, fmt.Sprintf("(%s : Z)", fv))
			}
		}
		rt := strings.Join(rts, " * ")
		if len(rts) == 0 {
			rt = "unit"
		}
		if t.panics {
			rt = "gores (" + rt + ")"
		}
		for _, a := range t.aux {
			fmt.Fprintf(&b, "(* %s, a loop of func %s *)\n%s", sp.dir, strings.TrimPrefix(sp.recv+"."+sp.name, "."), a)
		}
		fmt.Fprintf(&b, "(* %s, func %s *)\nDefinition %s %s : %s :=\n  %s.\n\n", sp.dir, strings.TrimPrefix(sp.recv+"."+sp.name, "."), cname, strings.Join(params, " "), rt, body)
		if len(t.bufs) == 0 && len(t.arrs) == 0 && !t.panics && len(t.fnVars) == 0 {
			k := &knownFn{cname: cname, free: append([]string{}, t.free...), nres: t.nres}
			if sp.recv == "" {
				known[sp.dir][sp.name] = k
			} else {
				known[sp.dir][sp.recv+"."+sp.name] = k
			}
		}
	}
	return b.String(), nil
}
