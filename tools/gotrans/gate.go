package main

// Translation of the packet-dispatch skeletons used by property C19 into Gallina terms of the
// statement type `gstmt` of coq/Model/C19_syntax.v (coq/Gen/Gate.v):
//
//   - bot/mcbot.go (*Client).join, bot/login.go (*Client).joinLogin, bot/configuration.go
//     (*Client).joinConfiguration (the case bodies listed in gateConfigCases are expanded, every other
//     case of its switch is emitted as GOpaque), bot/pinglist.go pingAndList;
//   - server/server.go (*Server).AcceptConn, server/handshake.go (*Server).handshake, server/login.go
//     (*MojangLoginHandler).AcceptLogin, server/ping.go (*Server).acceptListPing,
//     server/configuration.go (*Configurations).AcceptConfig;
//   - bot/event.go (*Events).AddListener, (*Events).AddGeneric, sortPacketHandlers and bot/ingame.go
//     (*Client).HandleGame, handleBundlePackets, handlePacket (the dispatcher);
//   - bot/client.go warpConn (the reader and the writer goroutine) and (*Conn).ReadPacket / WritePacket / Close;
//   - data/packetid/packetid.go: every constant of the iota blocks with its value.
//
// Only go/parser + go/ast are used.  Every function body is translated statement by statement, in
// source order.  The protocol actions get their own constructors
//     GRead            conn.ReadPacket(&p)
//     GScan args       p.Scan(args...)          each argument rendered, `&x` followed by `:<declared type of x>`
//     GWrite id args   conn.WritePacket(pk.Marshal(id, args...))
//     GEcho            conn.WritePacket(p)
//     GSetThreshold a  conn.SetThreshold(a)
// control flow keeps its structure (GIf, GSwitch, GLoop, GLoopN, GFor, GRange, GLabel, GGo, GReturn, GBranch) and every other
// statement is carried as its rendered text (GOther), so that ANY edit of these bodies changes the
// generated term.  A statement or expression node outside the shapes handled below makes the
// translator fail (non-zero exit of gotrans), which the check reports as a broken correspondence.

import (
	"bytes"
	"fmt"
	"go/ast"
	"go/parser"
	"go/token"
	"path/filepath"
	"strconv"
	"strings"
)

// the configuration-state packets whose handling Model/C19.v models; other cases are GOpaque
var gateConfigCases = map[string]bool{
	"packetid.ClientboundConfigCookieRequest":       true,
	"packetid.ClientboundConfigCustomPayload":       true,
	"packetid.ClientboundConfigDisconnect":          true,
	"packetid.ClientboundConfigFinishConfiguration": true,
	"packetid.ClientboundConfigKeepAlive":           true,
	"packetid.ClientboundConfigPing":                true,
	"packetid.ClientboundConfigResetChat":           true,
	"packetid.ClientboundConfigRegistryData":        true,
	"packetid.ClientboundConfigServerLinks":         true,
}

type gctx struct {
	fset    *token.FileSet
	conn    string            // name of the *net.Conn the function talks through
	vars    map[string]string // declared type of local variables (var x T)
	expand  map[string]bool   // nil: expand every switch case; else only the listed labels
	opaqued int
	seen    map[string]bool // labels of expand that were met
}

func (c *gctx) errf(n ast.Node, format string, a ...any) error {
	return fmt.Errorf("%s: %s", c.fset.Position(n.Pos()), fmt.Sprintf(format, a...))
}

// gx renders an expression; string literals keep their text between single quotes
func (c *gctx) gx(e ast.Expr) (string, error) {
	switch x := e.(type) {
	case nil:
		return "", nil
	case *ast.Ident:
		return x.Name, nil
	case *ast.BasicLit:
		if x.Kind == token.STRING {
			s, err := strconv.Unquote(x.Value)
			if err != nil || strings.ContainsAny(s, "'\"\n") {
				return "", c.errf(e, "string literal %s cannot be rendered", x.Value)
			}
			return "'" + s + "'", nil
		}
		return x.Value, nil
	case *ast.SelectorExpr:
		a, err := c.gx(x.X)
		return a + "." + x.Sel.Name, err
	case *ast.CallExpr:
		f, err := c.gx(x.Fun)
		if err != nil {
			return "", err
		}
		as, err := c.gxs(x.Args)
		if x.Ellipsis != token.NoPos {
			as += "..."
		}
		return f + "(" + as + ")", err
	case *ast.StarExpr:
		a, err := c.gx(x.X)
		return "*" + a, err
	case *ast.UnaryExpr:
		a, err := c.gx(x.X)
		return x.Op.String() + a, err
	case *ast.BinaryExpr:
		a, err := c.gx(x.X)
		if err != nil {
			return "", err
		}
		b, err := c.gx(x.Y)
		return a + " " + x.Op.String() + " " + b, err
	case *ast.ParenExpr:
		a, err := c.gx(x.X)
		return "(" + a + ")", err
	case *ast.IndexExpr:
		a, err := c.gx(x.X)
		if err != nil {
			return "", err
		}
		b, err := c.gx(x.Index)
		return a + "[" + b + "]", err
	case *ast.IndexListExpr:
		a, err := c.gx(x.X)
		if err != nil {
			return "", err
		}
		b, err := c.gxs(x.Indices)
		return a + "[" + b + "]", err
	case *ast.CompositeLit:
		t, err := c.gx(x.Type)
		if err != nil {
			return "", err
		}
		as, err := c.gxs(x.Elts)
		return t + "{" + as + "}", err
	case *ast.KeyValueExpr:
		a, err := c.gx(x.Key)
		if err != nil {
			return "", err
		}
		b, err := c.gx(x.Value)
		return a + ":" + b, err
	case *ast.TypeAssertExpr:
		a, err := c.gx(x.X)
		if err != nil {
			return "", err
		}
		b, err := c.gx(x.Type)
		return a + ".(" + b + ")", err
	case *ast.FuncLit:
		// only `func(params) result { return expr }` (the comparator handed to sort)
		if len(x.Body.List) != 1 {
			return "", c.errf(e, "function literal with a body other than one return statement")
		}
		rs, ok := x.Body.List[0].(*ast.ReturnStmt)
		if !ok {
			return "", c.errf(e, "function literal with a body other than one return statement")
		}
		var ps []string
		for _, f := range x.Type.Params.List {
			t, err := c.gx(f.Type)
			if err != nil {
				return "", err
			}
			var ns []string
			for _, n := range f.Names {
				ns = append(ns, n.Name)
			}
			ps = append(ps, strings.Join(ns, ",")+" "+t)
		}
		res := ""
		if x.Type.Results != nil {
			for _, f := range x.Type.Results.List {
				t, err := c.gx(f.Type)
				if err != nil {
					return "", err
				}
				res += " " + t
			}
		}
		r, err := c.gxs(rs.Results)
		return "func(" + strings.Join(ps, ",") + ")" + res + " { return " + r + " }", err
	case *ast.ArrayType:
		if x.Len != nil {
			return "", c.errf(e, "array type with length")
		}
		a, err := c.gx(x.Elt)
		return "[]" + a, err
	}
	return "", c.errf(e, "unknown expression %T", e)
}

func (c *gctx) gxs(xs []ast.Expr) (string, error) {
	var as []string
	for _, a := range xs {
		s, err := c.gx(a)
		if err != nil {
			return "", err
		}
		as = append(as, s)
	}
	return strings.Join(as, ","), nil
}

func gq(s string) string { return "\"" + strings.ReplaceAll(s, "\"", "\"\"") + "\"" }

func gqlist(xs []string) string {
	q := make([]string, len(xs))
	for i, x := range xs {
		q[i] = gq(x)
	}
	return "[" + strings.Join(q, "; ") + "]"
}

func gblock(items []string, ind string) string {
	if len(items) == 0 {
		return "[]"
	}
	return "[\n" + ind + "  " + strings.Join(items, ";\n"+ind+"  ") + " ]"
}

// protocol calls: (kind, rendered term) for conn.ReadPacket / conn.WritePacket / p.Scan / conn.SetThreshold
func (c *gctx) action(e ast.Expr) (string, bool, error) {
	call, ok := e.(*ast.CallExpr)
	if !ok {
		return "", false, nil
	}
	sel, ok := call.Fun.(*ast.SelectorExpr)
	if !ok {
		return "", false, nil
	}
	recv, err := c.gx(sel.X)
	if err != nil {
		return "", false, nil
	}
	switch {
	case recv == c.conn && sel.Sel.Name == "ReadPacket":
		if a, _ := c.gxs(call.Args); a != "&p" {
			return "", false, c.errf(e, "unknown ReadPacket argument %q", a)
		}
		return "GRead", true, nil
	case recv == c.conn && sel.Sel.Name == "SetThreshold":
		a, err := c.gxs(call.Args)
		if err != nil {
			return "", false, err
		}
		return "GSetThreshold " + gq(a), true, nil
	case recv == c.conn && sel.Sel.Name == "WritePacket":
		if len(call.Args) != 1 {
			return "", false, c.errf(e, "unknown WritePacket call")
		}
		if a, _ := c.gx(call.Args[0]); a == "p" {
			return "GEcho", true, nil
		}
		m, ok := call.Args[0].(*ast.CallExpr)
		if !ok {
			return "", false, c.errf(e, "unknown WritePacket argument")
		}
		if f, _ := c.gx(m.Fun); f != "pk.Marshal" || len(m.Args) < 1 || m.Ellipsis != token.NoPos {
			return "", false, c.errf(e, "unknown WritePacket argument (want pk.Marshal(id, fields...))")
		}
		id, err := c.gx(m.Args[0])
		if err != nil {
			return "", false, err
		}
		var fs []string
		for _, a := range m.Args[1:] {
			s, err := c.gx(a)
			if err != nil {
				return "", false, err
			}
			fs = append(fs, s)
		}
		return "GWrite " + gq(id) + " " + gqlist(fs), true, nil
	case recv == "p" && sel.Sel.Name == "Scan":
		if call.Ellipsis != token.NoPos {
			return "", false, c.errf(e, "Scan with ellipsis")
		}
		var fs []string
		for _, a := range call.Args {
			s, err := c.gx(a)
			if err != nil {
				return "", false, err
			}
			if u, ok := a.(*ast.UnaryExpr); ok && u.Op == token.AND {
				if id, ok := u.X.(*ast.Ident); ok {
					t, known := c.vars[id.Name]
					if !known {
						return "", false, c.errf(a, "Scan target %s has no declared type in this function", id.Name)
					}
					s += ":" + t
				}
			}
			fs = append(fs, s)
		}
		return "GScan " + gqlist(fs), true, nil
	}
	return "", false, nil
}

func (c *gctx) stmts(list []ast.Stmt, ind string) ([]string, error) {
	var out []string
	for _, s := range list {
		ts, err := c.stmt(s, ind)
		if err != nil {
			return nil, err
		}
		out = append(out, ts...)
	}
	return out, nil
}

func (c *gctx) elseBranch(s ast.Stmt, ind string) ([]string, error) {
	switch x := s.(type) {
	case nil:
		return nil, nil
	case *ast.BlockStmt:
		return c.stmts(x.List, ind)
	case *ast.IfStmt:
		return c.stmt(x, ind)
	}
	return nil, c.errf(s, "unknown else branch %T", s)
}

// simple statement (assignment / expression / define): an action when its only right-hand side is a
// protocol call (the left-hand side may only be err or _), otherwise its text
func (c *gctx) simple(s ast.Stmt) (string, error) {
	switch x := s.(type) {
	case *ast.ExprStmt:
		if t, ok, err := c.action(x.X); err != nil {
			return "", err
		} else if ok {
			return t, nil
		}
		t, err := c.gx(x.X)
		return "GOther " + gq(t), err
	case *ast.AssignStmt:
		l, err := c.gxs(x.Lhs)
		if err != nil {
			return "", err
		}
		if len(x.Rhs) == 1 {
			if t, ok, err := c.action(x.Rhs[0]); err != nil {
				return "", err
			} else if ok {
				if l != "err" && l != "_" {
					return "", c.errf(s, "result of a protocol call assigned to %q", l)
				}
				return t, nil
			}
		}
		r, err := c.gxs(x.Rhs)
		return "GOther " + gq(l+" "+x.Tok.String()+" "+r), err
	case *ast.IncDecStmt:
		t, err := c.gx(x.X)
		return "GOther " + gq(t+x.Tok.String()), err
	}
	return "", c.errf(s, "unknown simple statement %T", s)
}

func (c *gctx) stmt(s ast.Stmt, ind string) ([]string, error) {
	switch x := s.(type) {
	case *ast.ExprStmt, *ast.AssignStmt, *ast.IncDecStmt:
		t, err := c.simple(s)
		return []string{t}, err
	case *ast.DeclStmt:
		gd, ok := x.Decl.(*ast.GenDecl)
		if !ok || (gd.Tok != token.VAR && gd.Tok != token.CONST) {
			return nil, c.errf(s, "unknown declaration")
		}
		var out []string
		for _, sp := range gd.Specs {
			vs := sp.(*ast.ValueSpec)
			ty, err := c.gx(vs.Type)
			if err != nil {
				return nil, err
			}
			vals, err := c.gxs(vs.Values)
			if err != nil {
				return nil, err
			}
			var names []string
			for _, n := range vs.Names {
				names = append(names, n.Name)
				if gd.Tok == token.VAR && ty != "" {
					c.vars[n.Name] = ty
				}
			}
			t := gd.Tok.String() + " " + strings.Join(names, ",")
			if ty != "" {
				t += " " + ty
			}
			if vals != "" {
				t += " = " + vals
			}
			out = append(out, "GOther "+gq(t))
		}
		return out, nil
	case *ast.IfStmt:
		var pre []string
		cond, err := c.gx(x.Cond)
		if err != nil {
			return nil, err
		}
		if x.Init != nil {
			t, err := c.simple(x.Init)
			if err != nil {
				return nil, err
			}
			if strings.HasPrefix(t, "GOther ") {
				// not a protocol call: the initialiser is part of the condition text
				as := x.Init.(*ast.AssignStmt)
				l, _ := c.gxs(as.Lhs)
				r, err := c.gxs(as.Rhs)
				if err != nil {
					return nil, err
				}
				cond = l + " " + as.Tok.String() + " " + r + "; " + cond
			} else {
				pre = append(pre, t)
			}
		}
		th, err := c.stmts(x.Body.List, ind+"  ")
		if err != nil {
			return nil, err
		}
		el, err := c.elseBranch(x.Else, ind+"  ")
		if err != nil {
			return nil, err
		}
		return append(pre, fmt.Sprintf("GIf %s %s %s", gq(cond), gblock(th, ind), gblock(el, ind))), nil
	case *ast.SwitchStmt:
		if x.Init != nil || x.Tag == nil {
			return nil, c.errf(s, "unknown switch header")
		}
		tag, err := c.gx(x.Tag)
		if err != nil {
			return nil, err
		}
		var cases []string
		for _, cl := range x.Body.List {
			cc := cl.(*ast.CaseClause)
			var labels []string
			for _, l := range cc.List {
				t, err := c.gx(l)
				if err != nil {
					return nil, err
				}
				labels = append(labels, t)
			}
			var body []string
			if c.expand != nil && !(len(labels) == 1 && c.expand[labels[0]]) {
				body = []string{"GOpaque"}
				c.opaqued++
			} else {
				if c.expand != nil {
					c.seen[labels[0]] = true
				}
				body, err = c.stmts(cc.Body, ind+"    ")
				if err != nil {
					return nil, err
				}
			}
			cases = append(cases, fmt.Sprintf("(%s, %s)", gqlist(labels), gblock(body, ind+"  ")))
		}
		return []string{fmt.Sprintf("GSwitch %s %s", gq(tag), gblock(cases, ind))}, nil
	case *ast.ForStmt:
		body, err := c.stmts(x.Body.List, ind+"  ")
		if err != nil {
			return nil, err
		}
		if x.Init == nil && x.Cond == nil && x.Post == nil {
			return []string{"GLoop " + gblock(body, ind)}, nil
		}
		// for i := 0; i < N; i++
		as, ok1 := x.Init.(*ast.AssignStmt)
		cond, ok2 := x.Cond.(*ast.BinaryExpr)
		post, ok3 := x.Post.(*ast.IncDecStmt)
		if ok1 && ok2 && ok3 && as.Tok == token.DEFINE && len(as.Lhs) == 1 && len(as.Rhs) == 1 && cond.Op == token.LSS && post.Tok == token.INC {
			i, _ := c.gx(as.Lhs[0])
			z, _ := c.gx(as.Rhs[0])
			ci, _ := c.gx(cond.X)
			pi, _ := c.gx(post.X)
			if lit, ok := cond.Y.(*ast.BasicLit); ok && lit.Kind == token.INT && z == "0" && ci == i && pi == i {
				return []string{fmt.Sprintf("GLoopN %s%%Z %s", lit.Value, gblock(body, ind))}, nil
			}
		}
		// any other three-clause header: kept as text
		if ok1 && x.Cond != nil && ok3 {
			l, err := c.gxs(as.Lhs)
			if err != nil {
				return nil, err
			}
			r, err := c.gxs(as.Rhs)
			if err != nil {
				return nil, err
			}
			cd, err := c.gx(x.Cond)
			if err != nil {
				return nil, err
			}
			pi, err := c.gx(post.X)
			if err != nil {
				return nil, err
			}
			hdr := l + " " + as.Tok.String() + " " + r + "; " + cd + "; " + pi + post.Tok.String()
			return []string{fmt.Sprintf("GFor %s %s", gq(hdr), gblock(body, ind))}, nil
		}
		return nil, c.errf(s, "unknown for-loop header")
	case *ast.RangeStmt:
		k, err := c.gx(x.Key)
		if err != nil {
			return nil, err
		}
		v, err := c.gx(x.Value)
		if err != nil {
			return nil, err
		}
		over, err := c.gx(x.X)
		if err != nil {
			return nil, err
		}
		hdr := k
		if v != "" {
			hdr += "," + v
		}
		hdr += " " + x.Tok.String() + " range " + over
		body, err := c.stmts(x.Body.List, ind+"  ")
		if err != nil {
			return nil, err
		}
		return []string{fmt.Sprintf("GRange %s %s", gq(hdr), gblock(body, ind))}, nil
	case *ast.LabeledStmt:
		inner, err := c.stmt(x.Stmt, ind)
		if err != nil {
			return nil, err
		}
		return append([]string{"GLabel " + gq(x.Label.Name)}, inner...), nil
	case *ast.ReturnStmt:
		t, err := c.gxs(x.Results)
		return []string{"GReturn " + gq(t)}, err
	case *ast.BranchStmt:
		t := x.Tok.String()
		if x.Label != nil {
			t += " " + x.Label.Name
		}
		return []string{"GBranch " + gq(t)}, nil
	case *ast.GoStmt:
		// go func() { body }(): the goroutine's body is translated like any block
		fl, ok := x.Call.Fun.(*ast.FuncLit)
		if !ok || len(x.Call.Args) != 0 || fl.Type.Params.NumFields() != 0 {
			return nil, c.errf(s, "unknown go statement (want go func() { ... }())")
		}
		body, err := c.stmts(fl.Body.List, ind+"  ")
		if err != nil {
			return nil, err
		}
		return []string{"GGo " + gblock(body, ind)}, nil
	case *ast.DeferStmt:
		// deferred calls do not take part in the packet exchange of these functions (Close, deadline
		// reset); the callee expression is kept, a function literal is kept as `func`
		if _, ok := x.Call.Fun.(*ast.FuncLit); ok {
			return []string{"GOther " + gq("defer func")}, nil
		}
		t, err := c.gx(x.Call)
		return []string{"GOther " + gq("defer "+t)}, err
	case *ast.BlockStmt:
		return c.stmts(x.List, ind)
	}
	return nil, c.errf(s, "unknown statement %T", s)
}

type gateFunc struct {
	file, recv, name, coq, conn string
	expand                      map[string]bool
}

var gateFuncs = []gateFunc{
	{"bot/mcbot.go", "Client", "join", "bot_join", "conn", nil},
	{"bot/login.go", "Client", "joinLogin", "bot_join_login", "conn", nil},
	{"bot/configuration.go", "Client", "joinConfiguration", "bot_join_configuration", "conn", gateConfigCases},
	{"bot/pinglist.go", "", "pingAndList", "bot_ping_and_list", "conn", nil},
	{"server/server.go", "Server", "AcceptConn", "server_accept_conn", "conn", nil},
	{"server/handshake.go", "Server", "handshake", "server_handshake", "conn", nil},
	{"server/login.go", "MojangLoginHandler", "AcceptLogin", "server_accept_login", "conn", nil},
	{"server/ping.go", "Server", "acceptListPing", "server_accept_list_ping", "conn", nil},
	{"server/configuration.go", "Configurations", "AcceptConfig", "server_accept_config", "conn", nil},
	// the dispatcher (the connection is the client's queue-backed c.Conn; event.go has none)
	{"bot/event.go", "Events", "AddListener", "bot_add_listener", "", nil},
	{"bot/event.go", "Events", "AddGeneric", "bot_add_generic", "", nil},
	{"bot/event.go", "", "sortPacketHandlers", "bot_sort_packet_handlers", "", nil},
	{"bot/ingame.go", "Client", "HandleGame", "bot_handle_game", "c.Conn", nil},
	{"bot/ingame.go", "Client", "handleBundlePackets", "bot_handle_bundle_packets", "c.Conn", nil},
	{"bot/ingame.go", "Client", "handlePacket", "bot_handle_packet", "c.Conn", nil},
	// the queue-backed connection of the play phase
	{"bot/client.go", "", "warpConn", "bot_warp_conn", "c", nil},
	{"bot/client.go", "Conn", "ReadPacket", "bot_conn_read_packet", "", nil},
	{"bot/client.go", "Conn", "WritePacket", "bot_conn_write_packet", "", nil},
	{"bot/client.go", "Conn", "Close", "bot_conn_close", "", nil},
}

func genPacketIDs(repo string, out *bytes.Buffer) error {
	fset := token.NewFileSet()
	path := filepath.Join(repo, "data/packetid/packetid.go")
	f, err := parser.ParseFile(fset, path, nil, parser.SkipObjectResolution)
	if err != nil {
		return err
	}
	var rows []string
	for _, d := range f.Decls {
		gd, ok := d.(*ast.GenDecl)
		if !ok || gd.Tok != token.CONST {
			continue
		}
		for i, sp := range gd.Specs {
			vs := sp.(*ast.ValueSpec)
			if len(vs.Names) != 1 {
				return fmt.Errorf("%s: constant specification with several names", fset.Position(vs.Pos()))
			}
			switch {
			case i == 0:
				id, ok := vs.Type.(*ast.Ident)
				v, ok2 := func() (*ast.Ident, bool) {
					if len(vs.Values) != 1 {
						return nil, false
					}
					x, ok := vs.Values[0].(*ast.Ident)
					return x, ok
				}()
				if !ok || !ok2 || v.Name != "iota" || (id.Name != "ClientboundPacketID" && id.Name != "ServerboundPacketID") {
					return fmt.Errorf("%s: constant block does not start with `Name <Side>PacketID = iota`", fset.Position(vs.Pos()))
				}
			default:
				if vs.Type != nil || len(vs.Values) != 0 {
					return fmt.Errorf("%s: constant with an explicit type or value inside an iota block", fset.Position(vs.Pos()))
				}
			}
			rows = append(rows, fmt.Sprintf("(%s, %d%%Z)", gq("packetid."+vs.Names[0].Name), i))
		}
	}
	if len(rows) == 0 {
		return fmt.Errorf("%s: no packet id constants found", path)
	}
	out.WriteString("(* data/packetid/packetid.go: every constant of the iota blocks *)\n")
	out.WriteString("Definition packet_ids : list (string * Z) :=\n  [ " + strings.Join(rows, ";\n    ") + " ].\n\n")
	return nil
}

func genGate(repo string) (string, error) {
	var out bytes.Buffer
	out.WriteString("(* GENERATED by tools/gotrans (gate.go) from bot/mcbot.go, bot/login.go, bot/configuration.go,\n")
	out.WriteString("   bot/pinglist.go, server/server.go, server/handshake.go, server/login.go, server/ping.go,\n")
	out.WriteString("   server/configuration.go and data/packetid/packetid.go - do not edit *)\n")
	out.WriteString("From Coq Require Import List String ZArith.\n")
	out.WriteString("From GoMC Require Import Model.C19_syntax.\n")
	out.WriteString("Import ListNotations.\nLocal Open Scope string_scope.\n\n")
	if err := genPacketIDs(repo, &out); err != nil {
		return "", err
	}
	for _, gf := range gateFuncs {
		fset := token.NewFileSet()
		path := filepath.Join(repo, gf.file)
		f, err := parser.ParseFile(fset, path, nil, parser.SkipObjectResolution)
		if err != nil {
			return "", err
		}
		fd := findFunc([]*ast.File{f}, gf.recv, gf.name)
		if fd == nil || fd.Body == nil {
			return "", fmt.Errorf("%s: function %s.%s not found", path, gf.recv, gf.name)
		}
		// the connection parameter must exist under the expected name
		params, _ := fieldNames(fd.Type.Params)
		hasConn := false
		for _, p := range params {
			hasConn = hasConn || p == gf.conn
		}
		c := &gctx{fset: fset, conn: gf.conn, vars: map[string]string{}, expand: gf.expand, seen: map[string]bool{}}
		if !hasConn && gf.conn == "conn" {
			// (*Client).join dials the connection itself: `conn, err := options.MCDialer.DialMCContext(...)`
			if gf.name != "join" {
				return "", fmt.Errorf("%s: %s has no parameter %q", path, gf.name, gf.conn)
			}
		}
		body, err := c.stmts(fd.Body.List, "  ")
		if err != nil {
			return "", err
		}
		if gf.expand != nil && c.opaqued == 0 {
			return "", fmt.Errorf("%s: %s: no case left opaque (case list out of date?)", path, gf.name)
		}
		for l := range gf.expand {
			if !c.seen[l] {
				return "", fmt.Errorf("%s: %s: no `case %s` found", path, gf.name, l)
			}
		}
		recv := gf.recv
		if recv != "" {
			recv += "." // never "(*T)": that would open a nested Coq comment
		}
		fmt.Fprintf(&out, "(* %s: %s%s *)\nDefinition %s : list gstmt :=\n  %s.\n\n", gf.file, recv, gf.name, gf.coq, gblock(body, "  "))
	}
	return out.String(), nil
}
