module gotrans

go 1.22
