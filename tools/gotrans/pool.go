package main

// Translation of the sync.Pool users of net/packet (property C20, pooled buffers / zlib writers) into
// the ownership events of coq/Model/C20_syntax.v (type pev):
//
//	EGet s          x := <pool>.Get().(*T)            binds local slot s
//	EUse s          a statement reads or writes the object in slot s (or something aliasing it)
//	EUse2 a b       the object in slot a works on the object in slot b (zw.Reset(buff); zw.Write...)
//	EPut s          <pool>.Put(x)   (also when deferred: emitted at every return, LIFO)
//	EReturnAlias s  memory of the pooled object escapes: it is returned, or stored into something that
//	                is not a local variable (p.Data = buff.Bytes()[...])
//
// Every function of the package that mentions a package-level sync.Pool is executed symbolically on
// EVERY path (if/else, early returns, defers, package functions called with a pooled argument are
// inlined); the result is the list of distinct event sequences of the function.  The analysis is a
// syntactic taint tracking: a local variable is tainted with the slots whose memory it may alias.
// Anything outside the shapes listed here makes the translator fail (non-zero exit of gotrans).

import (
	"bytes"
	"fmt"
	"go/ast"
	"go/token"
	"os"
	"path/filepath"
	"sort"
	"strings"
)

// methods of a pooled object / of something wrapping it
var poolAliasMethods = map[string]bool{"Bytes": true, "Next": true}
var poolScalarMethods = map[string]bool{"Len": true, "Cap": true, "Reset": true, "Write": true, "WriteTo": true,
	"ReadFrom": true, "Read": true, "Close": true, "WriteByte": true, "WriteString": true, "Grow": true,
	"Truncate": true, "WriteToBytes": true, "ReadByte": true, "Flush": true}

// package-qualified functions taking a pooled argument
var poolWrapFuncs = map[string]bool{"bytes.NewReader": true, "zlib.NewReader": true, "bytes.NewBuffer": true, "bufio.NewReader": true}
var poolCopyFuncs = map[string]bool{"io.CopyN": true, "io.Copy": true, "io.ReadFull": true, "io.ReadAtLeast": true}
var poolBuiltinScalar = map[string]bool{"len": true, "cap": true}

type pdefer struct {
	put   bool
	slots []int
}

type pstate struct {
	taint  map[string][]int // local variable -> slots it aliases (first = the pooled object itself)
	defers []pdefer
	events []string
	next   int   // next free slot
	ret    []int // slots the value returned by the (inlined) function aliases
	panics bool  // the goroutine is panicking: deferred calls run, nothing else
}

func (s *pstate) clone() *pstate {
	t := &pstate{taint: map[string][]int{}, next: s.next, panics: s.panics, ret: append([]int(nil), s.ret...)}
	for k, v := range s.taint {
		t.taint[k] = append([]int(nil), v...)
	}
	t.defers = append([]pdefer(nil), s.defers...)
	t.events = append([]string(nil), s.events...)
	return t
}

type pctx struct {
	fset  *token.FileSet
	pools map[string]bool
	funcs map[string]*ast.FuncDecl // package functions and methods by bare name
	depth int
	recv  string // receiver name of the function being executed
}

func recvName(fd *ast.FuncDecl) string {
	if fd.Recv != nil && len(fd.Recv.List) == 1 && len(fd.Recv.List[0].Names) == 1 {
		return fd.Recv.List[0].Names[0].Name
	}
	return ""
}

func (c *pctx) errf(n ast.Node, format string, a ...any) error {
	return fmt.Errorf("%s: pool translation: %s", c.fset.Position(n.Pos()), fmt.Sprintf(format, a...))
}

func unionSlots(a, b []int) []int {
	out := append([]int(nil), a...)
	for _, x := range b {
		found := false
		for _, y := range out {
			if x == y {
				found = true
			}
		}
		if !found {
			out = append(out, x)
		}
	}
	return out
}

func (c *pctx) use(n ast.Node, st *pstate, slots []int) error {
	switch len(slots) {
	case 0:
	case 1:
		st.events = append(st.events, fmt.Sprintf("EUse %d", slots[0]))
	case 2:
		st.events = append(st.events, fmt.Sprintf("EUse2 %d %d", slots[0], slots[1]))
	default:
		return c.errf(n, "statement touches %d pooled objects", len(slots))
	}
	return nil
}

// isPoolCall recognises <pool>.<method>(args)
func (c *pctx) isPoolCall(e ast.Expr, method string) (*ast.CallExpr, bool) {
	call, ok := e.(*ast.CallExpr)
	if !ok {
		return nil, false
	}
	sel, ok := call.Fun.(*ast.SelectorExpr)
	if !ok || sel.Sel.Name != method {
		return nil, false
	}
	id, ok := sel.X.(*ast.Ident)
	if !ok || !c.pools[id.Name] {
		return nil, false
	}
	return call, true
}

func (c *pctx) mentionsPool(n ast.Node) bool {
	found := false
	ast.Inspect(n, func(x ast.Node) bool {
		if id, ok := x.(*ast.Ident); ok && c.pools[id.Name] {
			found = true
		}
		return true
	})
	return found
}

// callee returns the package function a call refers to (f(...) or recv.f(...) with an identifier receiver)
func (c *pctx) callee(call *ast.CallExpr) *ast.FuncDecl {
	switch f := call.Fun.(type) {
	case *ast.Ident:
		return c.funcs[f.Name]
	case *ast.SelectorExpr:
		if id, ok := f.X.(*ast.Ident); ok && c.recv != "" && id.Name == c.recv {
			if fd := c.funcs[f.Sel.Name]; fd != nil && fd.Recv != nil {
				return fd
			}
		}
	}
	return nil
}

// classify returns the slots an expression mentions and whether its VALUE aliases pooled memory
func (c *pctx) classify(e ast.Expr, st *pstate) (slots []int, alias bool, err error) {
	switch x := e.(type) {
	case nil:
		return nil, false, nil
	case *ast.Ident:
		if c.pools[x.Name] {
			return nil, false, c.errf(e, "pool %s used outside Get/Put", x.Name)
		}
		if t, ok := st.taint[x.Name]; ok {
			return t, true, nil
		}
		return nil, false, nil
	case *ast.BasicLit:
		return nil, false, nil
	case *ast.ParenExpr:
		return c.classify(x.X, st)
	case *ast.StarExpr:
		return c.classify(x.X, st)
	case *ast.TypeAssertExpr:
		return c.classify(x.X, st)
	case *ast.UnaryExpr:
		s, a, err := c.classify(x.X, st)
		if x.Op != token.AND {
			a = false
		}
		return s, a, err
	case *ast.BinaryExpr:
		s1, _, err := c.classify(x.X, st)
		if err != nil {
			return nil, false, err
		}
		s2, _, err := c.classify(x.Y, st)
		return unionSlots(s1, s2), false, err
	case *ast.SelectorExpr:
		return c.classify(x.X, st)
	case *ast.IndexExpr:
		s1, _, err := c.classify(x.X, st)
		if err != nil {
			return nil, false, err
		}
		s2, _, err := c.classify(x.Index, st)
		return unionSlots(s1, s2), false, err
	case *ast.SliceExpr:
		s, a, err := c.classify(x.X, st)
		if err != nil {
			return nil, false, err
		}
		for _, i := range []ast.Expr{x.Low, x.High, x.Max} {
			si, _, err := c.classify(i, st)
			if err != nil {
				return nil, false, err
			}
			s = unionSlots(s, si)
		}
		return s, a, nil
	case *ast.CallExpr:
		if _, ok := c.isPoolCall(e, "Get"); ok {
			return nil, false, c.errf(e, "pool.Get() outside the shape `x := pool.Get().(*T)`")
		}
		if _, ok := c.isPoolCall(e, "Put"); ok {
			return nil, false, c.errf(e, "pool.Put() outside a statement / defer")
		}
		var argSlots []int
		argAlias := false
		for _, a := range x.Args {
			s, al, err := c.classify(a, st)
			if err != nil {
				return nil, false, err
			}
			argSlots = unionSlots(argSlots, s)
			argAlias = argAlias || al
		}
		switch f := x.Fun.(type) {
		case *ast.SelectorExpr:
			rs, ra, err := c.classify(f.X, st)
			if err != nil {
				return nil, false, err
			}
			name := es(x.Fun)
			if len(rs) > 0 { // method of a pooled object (or of a wrapper of one)
				_ = ra
				all := unionSlots(rs, argSlots)
				if poolAliasMethods[f.Sel.Name] {
					return all, true, nil
				}
				if poolScalarMethods[f.Sel.Name] {
					return all, false, nil
				}
				return nil, false, c.errf(e, "unknown method %s on a pooled object", f.Sel.Name)
			}
			if len(argSlots) == 0 {
				return nil, false, nil
			}
			if poolWrapFuncs[name] {
				return argSlots, true, nil
			}
			if poolCopyFuncs[name] || poolScalarMethods[f.Sel.Name] {
				return argSlots, false, nil
			}
			return nil, false, c.errf(e, "unknown call %s with a pooled argument", name)
		case *ast.Ident:
			if len(argSlots) == 0 {
				return nil, false, nil
			}
			if c.funcs[f.Name] != nil {
				return nil, false, c.errf(e, "package function %s called with a pooled argument in an unsupported position", f.Name)
			}
			if poolBuiltinScalar[f.Name] {
				return argSlots, false, nil
			}
			// conversion T(x) / other builtin: the value aliases what the argument aliases
			return argSlots, argAlias, nil
		}
		return nil, false, c.errf(e, "unknown call shape %s", es(e))
	case *ast.CompositeLit:
		// T{.., f: e, ..}: the value aliases whatever one of its elements aliases
		var all []int
		al := false
		for _, el := range x.Elts {
			if kv, ok := el.(*ast.KeyValueExpr); ok {
				el = kv.Value
			}
			s, a, err := c.classify(el, st)
			if err != nil {
				return nil, false, err
			}
			all = unionSlots(all, s)
			al = al || a
		}
		return all, al, nil
	case *ast.FuncLit, *ast.KeyValueExpr:
		bad := false
		ast.Inspect(e, func(n ast.Node) bool {
			if id, ok := n.(*ast.Ident); ok {
				if _, t := st.taint[id.Name]; t || c.pools[id.Name] {
					bad = true
				}
			}
			return true
		})
		if bad {
			return nil, false, c.errf(e, "pooled object inside a composite literal / closure")
		}
		return nil, false, nil
	case *ast.ArrayType, *ast.MapType, *ast.ChanType, *ast.FuncType, *ast.InterfaceType, *ast.StructType:
		return nil, false, nil
	}
	return nil, false, c.errf(e, "unknown expression %T", e)
}

// inlineCall: the single expression e is a call of a package function that gets a pooled argument or uses a
// pool itself; returns the states after the callee returned
func (c *pctx) inlinable(e ast.Expr, st *pstate) (*ast.CallExpr, *ast.FuncDecl, error) {
	call, ok := e.(*ast.CallExpr)
	if !ok {
		return nil, nil, nil
	}
	fd := c.callee(call)
	if fd == nil {
		// recv.M(...) where recv is (part of) a pooled object and M is a method of the package that is not one of
		// the known methods of bytes.Buffer / zlib.Writer: execute M with its receiver bound to the object
		if sel, ok := call.Fun.(*ast.SelectorExpr); ok && !poolAliasMethods[sel.Sel.Name] && !poolScalarMethods[sel.Sel.Name] {
			if m := c.funcs[sel.Sel.Name]; m != nil && m.Recv != nil && m.Body != nil {
				rs, _, err := c.classify(sel.X, st)
				if err != nil {
					return nil, nil, err
				}
				if len(rs) > 0 {
					return call, m, nil
				}
			}
		}
	}
	if fd == nil || fd.Body == nil {
		return nil, nil, nil
	}
	tainted := false
	for _, a := range call.Args {
		s, _, err := c.classify(a, st)
		if err != nil {
			return nil, nil, err
		}
		if len(s) > 0 {
			tainted = true
		}
	}
	if !tainted {
		return nil, nil, nil // a pool user called without pooled arguments is translated on its own
	}
	return call, fd, nil
}

func (c *pctx) inline(call *ast.CallExpr, fd *ast.FuncDecl, st *pstate) ([]*pstate, error) {
	if c.depth > 4 {
		return nil, c.errf(call, "inlining too deep")
	}
	params, _ := fieldNames(fd.Type.Params)
	inner := &pstate{taint: map[string][]int{}, events: append([]string(nil), st.events...), next: st.next}
	if sel, ok := call.Fun.(*ast.SelectorExpr); ok && fd.Recv != nil {
		rs, _, err := c.classify(sel.X, st)
		if err != nil {
			return nil, err
		}
		if len(rs) > 0 {
			rn := recvName(fd)
			if rn == "" {
				return nil, c.errf(call, "method %s has no receiver name", fd.Name.Name)
			}
			inner.taint[rn] = rs
		}
	}
	bindable := len(params) == len(call.Args) && call.Ellipsis == token.NoPos
	if n := len(fd.Type.Params.List); n > 0 {
		if _, variadic := fd.Type.Params.List[n-1].Type.(*ast.Ellipsis); variadic {
			bindable = false
		}
	}
	for i, a := range call.Args {
		s, al, err := c.classify(a, st)
		if err != nil {
			return nil, err
		}
		if len(s) > 0 && !bindable {
			return nil, c.errf(call, "cannot bind the pooled argument of %s", fd.Name.Name)
		}
		if len(s) > 0 {
			if !al {
				// a scalar computed from a pooled object: a use at the call site
				if err := c.use(call, inner, s); err != nil {
					return nil, err
				}
				continue
			}
			inner.taint[params[i]] = s
		}
	}
	c.depth++
	saved := c.recv
	c.recv = recvName(fd)
	live, done, err := c.block(fd.Body.List, []*pstate{inner}, false)
	c.recv = saved
	c.depth--
	if err != nil {
		return nil, err
	}
	for _, l := range live { // fell off the end
		c.runDefers(fd, l)
		l.ret = nil
		done = append(done, l)
	}
	var out []*pstate
	for _, d := range done {
		o := st.clone()
		o.events = d.events
		o.next = d.next
		o.ret = d.ret
		o.panics = d.panics
		out = append(out, o)
	}
	return out, nil
}

func (c *pctx) runDefers(n ast.Node, st *pstate) {
	for i := len(st.defers) - 1; i >= 0; i-- {
		d := st.defers[i]
		if d.put {
			st.events = append(st.events, fmt.Sprintf("EPut %d", d.slots[0]))
		} else {
			_ = c.use(n, st, d.slots)
		}
	}
	st.defers = nil
}

// block runs the statements on every live state; returns the states that fall through and those that returned
func (c *pctx) block(list []ast.Stmt, live []*pstate, top bool) (out []*pstate, done []*pstate, err error) {
	for _, s := range list {
		var next []*pstate
		for _, st := range live {
			if st.panics { // unwinding: only the deferred calls of this frame run
				c.runDefers(s, st)
				done = append(done, st)
				continue
			}
			l, d, err := c.stmt(s, st, top)
			if err != nil {
				return nil, nil, err
			}
			next = append(next, l...)
			done = append(done, d...)
		}
		live = next
		if len(live)+len(done) > 4096 {
			return nil, nil, c.errf(s, "too many paths")
		}
	}
	return live, done, nil
}

func (c *pctx) assign(n ast.Node, lhs, rhs []ast.Expr, st *pstate) ([]*pstate, error) {
	// x := pool.Get().(*T)
	if len(lhs) == 1 && len(rhs) == 1 {
		var inner ast.Expr = rhs[0]
		if ta, ok := inner.(*ast.TypeAssertExpr); ok {
			inner = ta.X
		}
		if _, ok := c.isPoolCall(inner, "Get"); ok {
			id, ok := lhs[0].(*ast.Ident)
			if !ok || id.Name == "_" {
				return nil, c.errf(n, "pool.Get() must be bound to a local variable")
			}
			st.taint[id.Name] = []int{st.next}
			st.events = append(st.events, fmt.Sprintf("EGet %d", st.next))
			st.next++
			return []*pstate{st}, nil
		}
		if call, fd, err := c.inlinable(rhs[0], st); err != nil {
			return nil, err
		} else if fd != nil {
			l, err := c.inline(call, fd, st)
			if err != nil {
				return nil, err
			}
			for _, r := range l {
				if len(r.ret) > 0 && !r.panics {
					if id, ok := lhs[0].(*ast.Ident); ok && id.Name != "_" {
						r.taint[id.Name] = r.ret
					} else if !ok {
						r.events = append(r.events, fmt.Sprintf("EReturnAlias %d", r.ret[0]))
					}
				}
				r.ret = nil
			}
			return l, nil
		}
	}
	var all []int
	type al struct {
		slots []int
		alias bool
	}
	var rs []al
	for _, r := range rhs {
		s, a, err := c.classify(r, st)
		if err != nil {
			return nil, err
		}
		all = unionSlots(all, s)
		rs = append(rs, al{s, a})
	}
	for _, l := range lhs {
		if _, ok := l.(*ast.Ident); ok {
			continue
		}
		s, _, err := c.classify(l, st)
		if err != nil {
			return nil, err
		}
		all = unionSlots(all, s)
	}
	if err := c.use(n, st, all); err != nil {
		return nil, err
	}
	for i, l := range lhs {
		var r al
		if len(rhs) == len(lhs) {
			r = rs[i]
		} else if len(rhs) == 1 {
			r = al{rs[0].slots, rs[0].alias} // multi-value call: aliasing results are not supported
			if r.alias && i > 0 {
				r.alias = false
			}
		}
		id, isId := l.(*ast.Ident)
		switch {
		case r.alias && isId && id.Name == "_":
		case r.alias && isId:
			st.taint[id.Name] = append([]int(nil), r.slots...)
		case r.alias:
			st.events = append(st.events, fmt.Sprintf("EReturnAlias %d", r.slots[0]))
		case isId:
			delete(st.taint, id.Name)
		}
	}
	return []*pstate{st}, nil
}

func (c *pctx) stmt(s ast.Stmt, st *pstate, top bool) (live []*pstate, done []*pstate, err error) {
	switch x := s.(type) {
	case *ast.EmptyStmt:
		return []*pstate{st}, nil, nil
	case *ast.DeclStmt:
		gd, ok := x.Decl.(*ast.GenDecl)
		if !ok {
			return nil, nil, c.errf(s, "unknown declaration")
		}
		for _, sp := range gd.Specs {
			vs, ok := sp.(*ast.ValueSpec)
			if !ok {
				continue
			}
			if len(vs.Values) > 0 {
				var lhs []ast.Expr
				for _, n := range vs.Names {
					lhs = append(lhs, n)
				}
				l, err := c.assign(s, lhs, vs.Values, st)
				if err != nil || len(l) != 1 {
					return nil, nil, c.errf(s, "unsupported var declaration (%v)", err)
				}
			} else {
				for _, n := range vs.Names {
					delete(st.taint, n.Name)
				}
			}
		}
		return []*pstate{st}, nil, nil
	case *ast.IncDecStmt:
		sl, _, err := c.classify(x.X, st)
		if err != nil {
			return nil, nil, err
		}
		return []*pstate{st}, nil, c.use(s, st, sl)
	case *ast.AssignStmt:
		l, err := c.assign(s, x.Lhs, x.Rhs, st)
		return l, nil, err
	case *ast.ExprStmt:
		if call, ok := c.isPoolCall(x.X, "Put"); ok {
			if len(call.Args) != 1 {
				return nil, nil, c.errf(s, "pool.Put with %d arguments", len(call.Args))
			}
			sl, al, err := c.classify(call.Args[0], st)
			if err != nil {
				return nil, nil, err
			}
			if !al || len(sl) == 0 {
				return nil, nil, c.errf(s, "pool.Put of something that did not come from a pool")
			}
			st.events = append(st.events, fmt.Sprintf("EPut %d", sl[0]))
			return []*pstate{st}, nil, nil
		}
		if call, ok := x.X.(*ast.CallExpr); ok {
			if id, ok := call.Fun.(*ast.Ident); ok && id.Name == "panic" && c.funcs["panic"] == nil {
				for _, a := range call.Args {
					sl, _, err := c.classify(a, st)
					if err != nil {
						return nil, nil, err
					}
					if err := c.use(s, st, sl); err != nil {
						return nil, nil, err
					}
				}
				st.panics = true
				c.runDefers(s, st)
				return nil, []*pstate{st}, nil
			}
		}
		if call, fd, err := c.inlinable(x.X, st); err != nil {
			return nil, nil, err
		} else if fd != nil {
			l, err := c.inline(call, fd, st)
			for _, r := range l {
				r.ret = nil
			}
			return l, nil, err
		}
		// x.Reset(y): x now works on y
		if call, ok := x.X.(*ast.CallExpr); ok {
			if sel, ok := call.Fun.(*ast.SelectorExpr); ok && sel.Sel.Name == "Reset" && len(call.Args) == 1 {
				if id, ok := sel.X.(*ast.Ident); ok {
					if own, ok := st.taint[id.Name]; ok {
						as, al, err := c.classify(call.Args[0], st)
						if err != nil {
							return nil, nil, err
						}
						if al {
							st.taint[id.Name] = unionSlots(own[:1], as)
						} else {
							st.taint[id.Name] = own[:1]
						}
						return []*pstate{st}, nil, c.use(s, st, unionSlots(own[:1], as))
					}
				}
			}
		}
		sl, _, err := c.classify(x.X, st)
		if err != nil {
			return nil, nil, err
		}
		return []*pstate{st}, nil, c.use(s, st, sl)
	case *ast.DeferStmt:
		if call, ok := c.isPoolCall(x.Call, "Put"); ok {
			if len(call.Args) != 1 {
				return nil, nil, c.errf(s, "pool.Put with %d arguments", len(call.Args))
			}
			sl, al, err := c.classify(call.Args[0], st)
			if err != nil {
				return nil, nil, err
			}
			if !al || len(sl) == 0 {
				return nil, nil, c.errf(s, "deferred pool.Put of something that did not come from a pool")
			}
			st.defers = append(st.defers, pdefer{put: true, slots: sl[:1]})
			return []*pstate{st}, nil, nil
		}
		sl, _, err := c.classify(x.Call, st)
		if err != nil {
			return nil, nil, err
		}
		if len(sl) > 0 {
			if len(sl) > 2 {
				return nil, nil, c.errf(s, "deferred call touches %d pooled objects", len(sl))
			}
			st.defers = append(st.defers, pdefer{slots: sl})
		}
		return []*pstate{st}, nil, nil
	case *ast.BlockStmt:
		return c.block(x.List, []*pstate{st}, top)
	case *ast.IfStmt:
		states := []*pstate{st}
		if x.Init != nil {
			l, d, err := c.stmt(x.Init, st, top)
			if err != nil {
				return nil, nil, err
			}
			if len(d) > 0 {
				return nil, nil, c.errf(s, "return inside an if-initialiser")
			}
			states = l
		}
		for _, s0 := range states {
			sl, _, err := c.classify(x.Cond, s0)
			if err != nil {
				return nil, nil, err
			}
			if err := c.use(s, s0, sl); err != nil {
				return nil, nil, err
			}
			thenSt, elseSt := s0.clone(), s0
			l1, d1, err := c.block(x.Body.List, []*pstate{thenSt}, top)
			if err != nil {
				return nil, nil, err
			}
			live = append(live, l1...)
			done = append(done, d1...)
			if x.Else != nil {
				l2, d2, err := c.stmt(x.Else, elseSt, top)
				if err != nil {
					return nil, nil, err
				}
				live = append(live, l2...)
				done = append(done, d2...)
			} else {
				live = append(live, elseSt)
			}
		}
		return live, done, nil
	case *ast.RangeStmt, *ast.ForStmt:
		// a loop is executed 0, 1 and 2 times (every event sequence of a longer run repeats the body's events)
		var body *ast.BlockStmt
		var header []ast.Expr
		var post ast.Stmt
		if r, ok := x.(*ast.RangeStmt); ok {
			body = r.Body
			sl, al, err := c.classify(r.X, st)
			if err != nil {
				return nil, nil, err
			}
			if err := c.use(s, st, sl); err != nil {
				return nil, nil, err
			}
			for _, kv := range []ast.Expr{r.Key, r.Value} {
				if id, ok := kv.(*ast.Ident); ok && id.Name != "_" {
					if al {
						st.taint[id.Name] = sl // an element of a pooled container
					} else {
						delete(st.taint, id.Name)
					}
				} else if kv != nil && !ok {
					return nil, nil, c.errf(s, "unknown range variable")
				}
			}
		} else {
			f := x.(*ast.ForStmt)
			body, post = f.Body, f.Post
			if f.Init != nil {
				l, d, err := c.stmt(f.Init, st, top)
				if err != nil || len(l) != 1 || len(d) != 0 {
					return nil, nil, c.errf(s, "unsupported for-initialiser (%v)", err)
				}
			}
			if f.Cond != nil {
				header = append(header, f.Cond)
			}
		}
		hasBranch := false
		ast.Inspect(body, func(n ast.Node) bool {
			if _, ok := n.(*ast.BranchStmt); ok {
				hasBranch = true
			}
			return true
		})
		if hasBranch {
			return nil, nil, c.errf(s, "break / continue / goto inside a loop of a pool user")
		}
		cur := []*pstate{st}
		for iter := 0; iter <= 2; iter++ {
			for _, s0 := range cur {
				for _, h := range header {
					sl, _, err := c.classify(h, s0)
					if err != nil {
						return nil, nil, err
					}
					if err := c.use(s, s0, sl); err != nil {
						return nil, nil, err
					}
				}
				live = append(live, s0.clone()) // the loop ends here
			}
			if iter == 2 {
				break
			}
			l, d, err := c.block(body.List, cur, top)
			if err != nil {
				return nil, nil, err
			}
			done = append(done, d...)
			if post != nil {
				var l2 []*pstate
				for _, s0 := range l {
					if s0.panics {
						l2 = append(l2, s0)
						continue
					}
					a, b, err := c.stmt(post, s0, top)
					if err != nil {
						return nil, nil, err
					}
					l2 = append(l2, a...)
					done = append(done, b...)
				}
				l = l2
			}
			cur = nil
			for _, s0 := range l {
				if s0.panics {
					live = append(live, s0) // unwinds at the next statement / function end
				} else {
					cur = append(cur, s0)
				}
			}
		}
		return live, done, nil
	case *ast.ReturnStmt:
		if len(x.Results) == 1 {
			if call, fd, err := c.inlinable(x.Results[0], st); err != nil {
				return nil, nil, err
			} else if fd != nil {
				l, err := c.inline(call, fd, st)
				if err != nil {
					return nil, nil, err
				}
				for _, r := range l {
					if len(r.ret) > 0 && top && !r.panics {
						r.events = append(r.events, fmt.Sprintf("EReturnAlias %d", r.ret[0]))
						r.ret = nil
					}
					c.runDefers(s, r)
				}
				return nil, l, nil
			}
		}
		var all []int
		for _, r := range x.Results {
			sl, al, err := c.classify(r, st)
			if err != nil {
				return nil, nil, err
			}
			if al {
				if !top {
					st.ret = unionSlots(st.ret, sl) // the caller decides what happens to it
				} else {
					st.events = append(st.events, fmt.Sprintf("EReturnAlias %d", sl[0]))
				}
			} else {
				all = unionSlots(all, sl)
			}
		}
		if err := c.use(s, st, all); err != nil {
			return nil, nil, err
		}
		c.runDefers(s, st)
		return nil, []*pstate{st}, nil
	}
	return nil, nil, c.errf(s, "unknown statement %T in a pool user", s)
}

func genPoolSkeleton(repo string, out *bytes.Buffer) error {
	fset := token.NewFileSet()
	files, _, err := parseDir(fset, repo+"/net/packet")
	if err != nil {
		return err
	}
	c := &pctx{fset: fset, pools: map[string]bool{}, funcs: map[string]*ast.FuncDecl{}}
	// package-level sync.Pool variables
	for _, f := range files {
		for _, d := range f.Decls {
			gd, ok := d.(*ast.GenDecl)
			if !ok || gd.Tok != token.VAR {
				continue
			}
			for _, sp := range gd.Specs {
				vs := sp.(*ast.ValueSpec)
				for i, n := range vs.Names {
					isPool := vs.Type != nil && es(vs.Type) == "sync.Pool"
					if i < len(vs.Values) {
						if cl, ok := vs.Values[i].(*ast.CompositeLit); ok && es(cl.Type) == "sync.Pool" {
							isPool = true
						}
					}
					if isPool {
						c.pools[n.Name] = true
					}
				}
			}
		}
	}
	var users []*ast.FuncDecl
	for _, f := range files {
		for _, d := range f.Decls {
			fd, ok := d.(*ast.FuncDecl)
			if !ok || fd.Body == nil {
				continue
			}
			if prev := c.funcs[fd.Name.Name]; prev != nil && c.mentionsPool(fd) {
				return c.errf(fd, "two package functions named %s", fd.Name.Name)
			}
			c.funcs[fd.Name.Name] = fd
			if c.mentionsPool(fd) {
				users = append(users, fd)
			}
		}
	}
	sort.Slice(users, func(i, j int) bool {
		pi, pj := fset.Position(users[i].Pos()), fset.Position(users[j].Pos())
		if pi.Filename != pj.Filename {
			return pi.Filename < pj.Filename
		}
		return pi.Offset < pj.Offset
	})
	var poolNames []string
	for p := range c.pools {
		poolNames = append(poolNames, p)
	}
	sort.Strings(poolNames)
	fmt.Fprintf(out, "(* sync.Pool users of net/packet (pools: %s): every path of every function as ownership events *)\n", strings.Join(poolNames, ", "))
	var names []string
	for _, fd := range users {
		st := &pstate{taint: map[string][]int{}}
		c.recv = recvName(fd)
		live, done, err := c.block(fd.Body.List, []*pstate{st}, true)
		if err != nil {
			return err
		}
		for _, l := range live {
			c.runDefers(fd, l)
			done = append(done, l)
		}
		seen := map[string]bool{}
		var seqs []string
		for _, d := range done {
			g := glist(d.events)
			if !seen[g] {
				seen[g] = true
				seqs = append(seqs, g)
			}
		}
		fmt.Fprintf(out, "Definition pool_%s : list (list pev) :=\n  [%s].\n\n", fd.Name.Name, strings.Join(seqs, ";\n   "))
		names = append(names, "pool_"+fd.Name.Name)
	}
	fmt.Fprintf(out, "(* all of them *)\nDefinition pool_users : list (list (list pev)) :=\n  %s.\n\n", glist(names))
	return nil
}

// ---------------------------------------------------------------- nbt/typeinfo.go: the per-type cache

// genCacheSkeleton checks that cachedTypeFields is exactly
//
//	if ti, ok := fieldCache.Load(t); ok { return ti.(structFields) }
//	tInfo := typeFields(t)
//	ti, _ := fieldCache.LoadOrStore(t, tInfo)
//	return ti.(structFields)
//
// that fieldCache is a package-level sync.Map, and that nothing else in package nbt touches it (no Store,
// Delete, Range ...: the cache is monotone).  Emits the three program points of the model as cstmt.
func genCacheSkeleton(repo string, out *bytes.Buffer) error {
	fset := token.NewFileSet()
	files, _, err := parseDir(fset, repo+"/nbt")
	if err != nil {
		return err
	}
	var fd *ast.FuncDecl
	declared := false
	uses := 0
	for _, f := range files {
		for _, d := range f.Decls {
			switch x := d.(type) {
			case *ast.FuncDecl:
				if x.Name.Name == "cachedTypeFields" && x.Recv == nil {
					fd = x
				}
			case *ast.GenDecl:
				if x.Tok == token.VAR {
					for _, sp := range x.Specs {
						vs := sp.(*ast.ValueSpec)
						for _, n := range vs.Names {
							if n.Name == "fieldCache" {
								if vs.Type == nil || es(vs.Type) != "sync.Map" || len(vs.Values) != 0 {
									return fmt.Errorf("%s: fieldCache is not `var fieldCache sync.Map`", fset.Position(n.Pos()))
								}
								declared = true
							}
						}
					}
				}
			}
		}
		ast.Inspect(f, func(n ast.Node) bool {
			if id, ok := n.(*ast.Ident); ok && id.Name == "fieldCache" {
				uses++
			}
			return true
		})
	}
	if !declared || fd == nil || fd.Body == nil {
		return fmt.Errorf("%s/nbt: fieldCache / cachedTypeFields not found", repo)
	}
	if uses != 3 {
		return fmt.Errorf("%s/nbt: fieldCache is mentioned %d times (expected: its declaration, one Load, one LoadOrStore)", repo, uses)
	}
	pos := fset.Position(fd.Pos())
	params, _ := fieldNames(fd.Type.Params)
	if len(params) != 1 || len(fd.Body.List) != 4 {
		return fmt.Errorf("%s: cachedTypeFields: unknown shape", pos)
	}
	t := params[0]
	render := func(s ast.Stmt) string {
		switch x := s.(type) {
		case *ast.AssignStmt:
			return ess(x.Lhs) + " " + x.Tok.String() + " " + ess(x.Rhs)
		case *ast.ReturnStmt:
			return "return " + ess(x.Results)
		case *ast.IfStmt:
			if x.Else != nil || x.Init == nil || len(x.Body.List) != 1 {
				return "?if"
			}
			in, ok1 := x.Init.(*ast.AssignStmt)
			rt, ok2 := x.Body.List[0].(*ast.ReturnStmt)
			if !ok1 || !ok2 {
				return "?if"
			}
			return "if " + ess(in.Lhs) + " " + in.Tok.String() + " " + ess(in.Rhs) + "; " + es(x.Cond) + " { return " + ess(rt.Results) + " }"
		}
		return fmt.Sprintf("?%T", s)
	}
	want := []string{
		"if ti,ok := fieldCache.Load(" + t + "); ok { return ti.(structFields) }",
		"tInfo := typeFields(" + t + ")",
		"ti,_ := fieldCache.LoadOrStore(" + t + ",tInfo)",
		"return ti.(structFields)",
	}
	for i, s := range fd.Body.List {
		if got := render(s); got != want[i] {
			return fmt.Errorf("%s: cachedTypeFields: statement %d is `%s`, expected `%s`", fset.Position(s.Pos()), i+1, got, want[i])
		}
	}
	out.WriteString("(* nbt/typeinfo.go: cachedTypeFields = Load-or-return; compute typeFields; LoadOrStore-and-return.\n   fieldCache is a sync.Map touched by nothing else in package nbt *)\n")
	out.WriteString("Definition cache_prog : list cstmt :=\n  [CSLoadReturn; CSCompute; CSLoadOrStoreReturn].\n\n")
	return nil
}

// ---------------------------------------------------------------- table of synchronisation users

// genLockTable enumerates, over every package of the repository except data/, examples/ and cmd/ (generated
// tables and programs), each struct type or package-level variable that owns a synchronisation object
// (sync.Mutex, sync.RWMutex, sync.Cond, sync.Pool, sync.Map, sync.Once, atomic.*, a channel) and emits one row
//
//	mkLR type kind sync-field protected-fields methods-that-lock [(method, field) touched WITHOUT the lock]
//
// mutex / rwmutex / cond:  a field is "protected" when some method touches it while holding the lock and some
//	method modifies it (assignment, ++, delete, index assignment, or a method call on it); fields that are only
//	ever read (set by the constructor) are immutable and need no lock.
// chan-confined:  a struct with channel fields and no mutex whose state is owned by the methods that receive
//	from those channels (and the methods they call); the other methods may only send on the channels.
// Statements are walked in order with a "lock held" flag (Lock/RLock sets it, Unlock/RUnlock clears it, a
// deferred Unlock leaves it set to the end, a block that ends in return/panic does not leak its flag).
// `go func` literals assigning to a field of a local are listed as kind goroutine-write.
type lockRow struct {
	typ, kind, field string
	protected        []string
	locking          []string
	unlocked         [][2]string
}

func isSyncType(t string) string {
	t = strings.TrimPrefix(t, "*")
	switch {
	case t == "sync.Mutex":
		return "mutex"
	case t == "sync.RWMutex":
		return "rwmutex"
	case t == "sync.Cond":
		return "cond"
	case t == "sync.Pool":
		return "pool"
	case t == "sync.Map":
		return "map"
	case t == "sync.Once":
		return "once"
	case t == "sync.WaitGroup":
		return "waitgroup"
	case strings.HasPrefix(t, "atomic."):
		return "atomic"
	}
	return ""
}

func typeString(e ast.Expr) string {
	switch x := e.(type) {
	case *ast.ChanType:
		return "chan"
	case *ast.IndexExpr: // generic instantiation atomic.Pointer[T]
		return typeString(x.X)
	case *ast.StarExpr:
		return "*" + typeString(x.X)
	}
	return es(e)
}

func recvTypeOf(fd *ast.FuncDecl) (name, recv string) {
	if fd.Recv == nil || len(fd.Recv.List) != 1 {
		return "", ""
	}
	t := fd.Recv.List[0].Type
	if s, ok := t.(*ast.StarExpr); ok {
		t = s.X
	}
	switch x := t.(type) {
	case *ast.IndexExpr:
		t = x.X
	case *ast.IndexListExpr:
		t = x.X
	}
	id, ok := t.(*ast.Ident)
	if !ok {
		return "", ""
	}
	if len(fd.Recv.List[0].Names) == 1 {
		recv = fd.Recv.List[0].Names[0].Name
	}
	return id.Name, recv
}

type ltouch struct {
	method, field string
	held          bool
}

type lwalker struct {
	recv    string
	fields  map[string]bool
	mutexes map[string]bool // names of the lock fields (for a cond: the cond field, locked through .L)
	method  string
	touches []ltouch
	mutated map[string]bool
	locks   bool
	calls   map[string]bool // recv.m() calls
	recvsCh bool            // receives from an own channel field
	chans   map[string]bool
}

// lockOp recognises recv.M.Lock() / RLock / Unlock / RUnlock and recv.C.L.Lock() ...
func (w *lwalker) lockOp(e ast.Expr) (op string, ok bool) {
	call, isCall := e.(*ast.CallExpr)
	if !isCall {
		return "", false
	}
	sel, isSel := call.Fun.(*ast.SelectorExpr)
	if !isSel {
		return "", false
	}
	switch sel.Sel.Name {
	case "Lock", "RLock", "Unlock", "RUnlock":
	default:
		return "", false
	}
	x := sel.X
	if s2, ok := x.(*ast.SelectorExpr); ok && s2.Sel.Name == "L" {
		x = s2.X
	}
	s3, ok3 := x.(*ast.SelectorExpr)
	if !ok3 {
		return "", false
	}
	id, okid := s3.X.(*ast.Ident)
	if !okid || id.Name != w.recv || !w.mutexes[s3.Sel.Name] {
		return "", false
	}
	return sel.Sel.Name, true
}

func (w *lwalker) fieldOf(e ast.Expr) string {
	for {
		switch x := e.(type) {
		case *ast.SelectorExpr:
			if id, ok := x.X.(*ast.Ident); ok && id.Name == w.recv && w.fields[x.Sel.Name] {
				return x.Sel.Name
			}
			e = x.X
		case *ast.IndexExpr:
			e = x.X
		case *ast.StarExpr:
			e = x.X
		case *ast.ParenExpr:
			e = x.X
		default:
			return ""
		}
	}
}

// exprs records the field touches of an expression
func (w *lwalker) expr(n ast.Node, held bool) {
	if n == nil {
		return
	}
	ast.Inspect(n, func(x ast.Node) bool {
		switch y := x.(type) {
		case *ast.FuncLit:
			return true
		case *ast.SelectorExpr:
			if id, ok := y.X.(*ast.Ident); ok && id.Name == w.recv {
				if w.fields[y.Sel.Name] {
					if !w.mutexes[y.Sel.Name] {
						w.touches = append(w.touches, ltouch{w.method, y.Sel.Name, held})
					}
				} else {
					w.calls[y.Sel.Name] = true
				}
			}
		case *ast.CallExpr:
			if sel, ok := y.Fun.(*ast.SelectorExpr); ok {
				if f := w.fieldOf(sel.X); f != "" {
					// a method call on a field: the field's object may be modified (list.PushBack, map ops ...)
					if _, direct := sel.X.(*ast.SelectorExpr); direct {
						w.mutated[f] = true
					}
				}
			}
			if id, ok := y.Fun.(*ast.Ident); ok && id.Name == "delete" && len(y.Args) > 0 {
				if f := w.fieldOf(y.Args[0]); f != "" {
					w.mutated[f] = true
				}
			}
			if id, ok := y.Fun.(*ast.Ident); ok && id.Name == "close" && len(y.Args) == 1 {
				if f := w.fieldOf(y.Args[0]); f != "" {
					w.mutated[f] = true
				}
			}
		case *ast.UnaryExpr:
			if y.Op == token.ARROW {
				if f := w.fieldOf(y.X); f != "" && w.chans[f] {
					w.recvsCh = true
				}
			}
		}
		return true
	})
}

func terminates(list []ast.Stmt) bool {
	if len(list) == 0 {
		return false
	}
	switch x := list[len(list)-1].(type) {
	case *ast.ReturnStmt:
		return true
	case *ast.ExprStmt:
		if c, ok := x.X.(*ast.CallExpr); ok {
			if id, ok := c.Fun.(*ast.Ident); ok && id.Name == "panic" {
				return true
			}
		}
	case *ast.BranchStmt:
		return true
	}
	return false
}

func (w *lwalker) stmts(list []ast.Stmt, held bool) bool {
	for _, s := range list {
		held = w.stmt(s, held)
	}
	return held
}

func (w *lwalker) stmt(s ast.Stmt, held bool) bool {
	switch x := s.(type) {
	case nil:
	case *ast.ExprStmt:
		if op, ok := w.lockOp(x.X); ok {
			w.locks = true
			return op == "Lock" || op == "RLock"
		}
		w.expr(x.X, held)
	case *ast.DeferStmt:
		if _, ok := w.lockOp(x.Call); ok {
			return held
		}
		w.expr(x.Call, held)
	case *ast.GoStmt:
		w.expr(x.Call, false)
	case *ast.AssignStmt:
		for _, l := range x.Lhs {
			if f := w.fieldOf(l); f != "" {
				w.mutated[f] = true
			}
			w.expr(l, held)
		}
		for _, r := range x.Rhs {
			w.expr(r, held)
		}
	case *ast.IncDecStmt:
		if f := w.fieldOf(x.X); f != "" {
			w.mutated[f] = true
		}
		w.expr(x.X, held)
	case *ast.SendStmt:
		w.expr(x.Chan, held)
		w.expr(x.Value, held)
	case *ast.ReturnStmt:
		for _, r := range x.Results {
			w.expr(r, held)
		}
	case *ast.DeclStmt:
		w.expr(x.Decl, held)
	case *ast.BlockStmt:
		return w.stmts(x.List, held)
	case *ast.IfStmt:
		h := w.stmt(x.Init, held)
		w.expr(x.Cond, h)
		hb := w.stmts(x.Body.List, h)
		he := h
		elseTerm := false
		if x.Else != nil {
			he = w.stmt(x.Else, h)
			if b, ok := x.Else.(*ast.BlockStmt); ok {
				elseTerm = terminates(b.List)
			}
		}
		switch {
		case terminates(x.Body.List):
			return he
		case elseTerm:
			return hb
		default:
			return hb && he
		}
	case *ast.ForStmt:
		h := w.stmt(x.Init, held)
		w.expr(x.Cond, h)
		hb := w.stmts(x.Body.List, h)
		w.stmt(x.Post, hb)
		return hb // a `for {}` loop is left by break/return only: the flag at its breaks is the body's
	case *ast.RangeStmt:
		w.expr(x.X, held)
		w.stmts(x.Body.List, held)
	case *ast.SwitchStmt:
		h := w.stmt(x.Init, held)
		w.expr(x.Tag, h)
		for _, c := range x.Body.List {
			cc := c.(*ast.CaseClause)
			for _, e := range cc.List {
				w.expr(e, h)
			}
			w.stmts(cc.Body, h)
		}
		return h
	case *ast.TypeSwitchStmt:
		h := w.stmt(x.Init, held)
		w.stmt(x.Assign, h)
		for _, c := range x.Body.List {
			w.stmts(c.(*ast.CaseClause).Body, h)
		}
		return h
	case *ast.SelectStmt:
		for _, c := range x.Body.List {
			cc := c.(*ast.CommClause)
			w.stmt(cc.Comm, held)
			w.stmts(cc.Body, held)
		}
	case *ast.LabeledStmt:
		return w.stmt(x.Stmt, held)
	case *ast.BranchStmt, *ast.EmptyStmt:
	default:
		w.expr(s, held)
	}
	return held
}

func coqStr(s string) string { return "\"" + strings.ReplaceAll(s, "\"", "") + "\"%string" }
func coqStrs(xs []string) string {
	var q []string
	for _, x := range xs {
		q = append(q, coqStr(x))
	}
	return glist(q)
}
func sortedKeys(m map[string]bool) []string {
	var ks []string
	for k, v := range m {
		if v {
			ks = append(ks, k)
		}
	}
	sort.Strings(ks)
	return ks
}

func genLockTable(repo string, out *bytes.Buffer) error {
	var dirs []string
	var walk func(rel string) error
	walk = func(rel string) error {
		ents, err := os.ReadDir(filepath.Join(repo, rel))
		if err != nil {
			return err
		}
		hasGo := false
		for _, e := range ents {
			n := e.Name()
			if e.IsDir() {
				if strings.HasPrefix(n, ".") || (rel == "" && (n == "data" || n == "examples" || n == "cmd")) {
					continue
				}
				if err := walk(filepath.Join(rel, n)); err != nil {
					return err
				}
			} else if strings.HasSuffix(n, ".go") && !strings.HasSuffix(n, "_test.go") {
				hasGo = true
			}
		}
		if hasGo && rel != "" {
			dirs = append(dirs, rel)
		}
		return nil
	}
	if err := walk(""); err != nil {
		return err
	}
	sort.Strings(dirs)
	var rows []lockRow
	for _, dir := range dirs {
		fset := token.NewFileSet()
		files, pkg, err := parseDir(fset, filepath.Join(repo, dir))
		if err != nil {
			return err
		}
		_ = pkg
		type sinfo struct {
			fields map[string]string // field -> type string
			order  []string
		}
		structs := map[string]*sinfo{}
		var snames []string
		methods := map[string][]*ast.FuncDecl{}
		for _, f := range files {
			for _, d := range f.Decls {
				switch x := d.(type) {
				case *ast.GenDecl:
					for _, sp := range x.Specs {
						switch y := sp.(type) {
						case *ast.TypeSpec:
							switch t := y.Type.(type) {
							case *ast.StructType:
								si := &sinfo{fields: map[string]string{}}
								for _, fl := range t.Fields.List {
									for _, n := range fl.Names {
										si.fields[n.Name] = typeString(fl.Type)
										si.order = append(si.order, n.Name)
									}
								}
								structs[y.Name.Name] = si
								snames = append(snames, y.Name.Name)
							case *ast.ChanType:
								rows = append(rows, lockRow{typ: dir + "." + y.Name.Name, kind: "chan-type", field: ""})
							}
						case *ast.ValueSpec:
							if x.Tok != token.VAR {
								continue
							}
							for i, n := range y.Names {
								t := ""
								if y.Type != nil {
									t = typeString(y.Type)
								} else if i < len(y.Values) {
									if cl, ok := y.Values[i].(*ast.CompositeLit); ok {
										t = typeString(cl.Type)
									}
								}
								if k := isSyncType(t); k != "" || t == "chan" {
									if t == "chan" {
										k = "chan"
									}
									rows = append(rows, lockRow{typ: dir + " (package variable)", kind: k, field: n.Name})
								}
							}
						}
					}
				case *ast.FuncDecl:
					if tn, _ := recvTypeOf(x); tn != "" && x.Body != nil {
						methods[tn] = append(methods[tn], x)
					}
					// goroutine literals writing fields of locals
					if x.Body != nil {
						ast.Inspect(x.Body, func(n ast.Node) bool {
							g, ok := n.(*ast.GoStmt)
							if !ok {
								return true
							}
							fl, ok := g.Call.Fun.(*ast.FuncLit)
							if !ok {
								return true
							}
							ast.Inspect(fl.Body, func(m ast.Node) bool {
								as, ok := m.(*ast.AssignStmt)
								if !ok {
									return true
								}
								for _, l := range as.Lhs {
									if sel, ok := l.(*ast.SelectorExpr); ok {
										if id, ok := sel.X.(*ast.Ident); ok {
											rows = append(rows, lockRow{typ: dir + "." + x.Name.Name, kind: "goroutine-write", field: id.Name + "." + sel.Sel.Name})
										}
									}
								}
								return true
							})
							return true
						})
					}
				}
			}
		}
		sort.Strings(snames)
		for _, sn := range snames {
			si := structs[sn]
			mutexes, chans := map[string]bool{}, map[string]bool{}
			var others [][2]string
			for _, fn := range si.order {
				t := si.fields[fn]
				switch k := isSyncType(t); {
				case k == "mutex" || k == "rwmutex" || k == "cond":
					mutexes[fn] = true
				case t == "chan":
					chans[fn] = true
				case k != "":
					others = append(others, [2]string{k, fn})
				}
			}
			for _, o := range others {
				rows = append(rows, lockRow{typ: dir + "." + sn, kind: o[0], field: o[1]})
			}
			if len(mutexes) == 0 && len(chans) == 0 {
				continue
			}
			fields := map[string]bool{}
			for f := range si.fields {
				fields[f] = true
			}
			var ws []*lwalker
			mutated := map[string]bool{}
			for _, fd := range methods[sn] {
				_, rn := recvTypeOf(fd)
				w := &lwalker{recv: rn, fields: fields, mutexes: mutexes, method: fd.Name.Name, mutated: mutated, calls: map[string]bool{}, chans: chans}
				if rn != "" {
					w.stmts(fd.Body.List, false)
				}
				ws = append(ws, w)
			}
			sort.Slice(ws, func(i, j int) bool { return ws[i].method < ws[j].method })
			row := lockRow{typ: dir + "." + sn}
			if len(mutexes) > 0 {
				row.kind = "mutex"
				row.field = strings.Join(sortedKeys(mutexes), ",")
				for f := range mutexes {
					if isSyncType(si.fields[f]) != "mutex" {
						row.kind = isSyncType(si.fields[f])
					}
				}
				under := map[string]bool{}
				for _, w := range ws {
					if w.locks {
						row.locking = append(row.locking, w.method)
					}
					for _, t := range w.touches {
						if t.held && mutated[t.field] && !chans[t.field] {
							under[t.field] = true
						}
					}
				}
				row.protected = sortedKeys(under)
				seen := map[[2]string]bool{}
				for _, w := range ws {
					for _, t := range w.touches {
						k := [2]string{t.method, t.field}
						if !t.held && under[t.field] && !seen[k] {
							seen[k] = true
							row.unlocked = append(row.unlocked, k)
						}
					}
				}
			} else {
				row.kind = "chan-confined"
				row.field = strings.Join(sortedKeys(chans), ",")
				owner := map[string]bool{}
				byName := map[string]*lwalker{}
				for _, w := range ws {
					byName[w.method] = w
					if w.recvsCh {
						owner[w.method] = true
					}
				}
				for changed := true; changed; {
					changed = false
					for m := range owner {
						for c := range byName[m].calls {
							if byName[c] != nil && !owner[c] {
								owner[c] = true
								changed = true
							}
						}
					}
				}
				row.locking = sortedKeys(owner)
				under := map[string]bool{}
				for _, w := range ws {
					if owner[w.method] {
						for _, t := range w.touches {
							if !chans[t.field] {
								under[t.field] = true
							}
						}
					}
				}
				row.protected = sortedKeys(under)
				seen := map[[2]string]bool{}
				for _, w := range ws {
					if owner[w.method] {
						continue
					}
					for _, c := range sortedKeys(w.calls) { // a method of the owner goroutine called from outside it
						if owner[c] {
							row.unlocked = append(row.unlocked, [2]string{w.method, c + "()"})
						}
					}
					for _, t := range w.touches {
						k := [2]string{t.method, t.field}
						if under[t.field] && !seen[k] {
							seen[k] = true
							row.unlocked = append(row.unlocked, k)
						}
					}
				}
			}
			rows = append(rows, row)
		}
	}
	sort.SliceStable(rows, func(i, j int) bool {
		if rows[i].typ != rows[j].typ {
			return rows[i].typ < rows[j].typ
		}
		if rows[i].kind != rows[j].kind {
			return rows[i].kind < rows[j].kind
		}
		return rows[i].field < rows[j].field
	})
	out.WriteString("(* every owner of a synchronisation object outside data/, examples/, cmd/ (tools/gotrans/pool.go: genLockTable):\n   type, kind, sync field(s), protected fields, methods that lock / own the state, (method, field) touched WITHOUT the lock *)\n")
	out.WriteString("Record lockrow := mkLR { lr_type : string; lr_kind : string; lr_field : string; lr_protected : list string;\n  lr_locking : list string; lr_unlocked : list (string * string) }.\n")
	out.WriteString("Definition lock_table : list lockrow :=\n  [")
	var uniq []lockRow
	for i, r := range rows {
		if i > 0 && r.kind == "goroutine-write" && rows[i-1].kind == r.kind && rows[i-1].typ == r.typ && rows[i-1].field == r.field {
			continue
		}
		uniq = append(uniq, r)
	}
	rows = uniq
	for i, r := range rows {
		if i > 0 {
			out.WriteString(";\n   ")
		}
		var un []string
		for _, u := range r.unlocked {
			un = append(un, "("+coqStr(u[0])+", "+coqStr(u[1])+")")
		}
		fmt.Fprintf(out, "mkLR %s %s %s %s %s %s", coqStr(r.typ), coqStr(r.kind), coqStr(r.field), coqStrs(r.protected), coqStrs(r.locking), glist(un))
	}
	out.WriteString("].\n\n")
	return nil
}

// ---------------------------------------------------------------- bot.Conn: the packet buffer travelling through the queue

// genConnPool translates the hand-over of the per-connection packet buffers (bot/client.go warpConn: the reader
// goroutine takes a buffer from wc.pool, reads a packet into it and pushes the packet into the receive queue;
// bot/ingame.go HandleGame / handleBundlePackets: the consumer pulls packets, runs the handlers and puts the
// buffer back) into ownership events: EGet/EUse/ESend for the reader, ERecv/EUse/EPut for the consumer, EDrop
// where the last reference to a buffer is lost without Put.  Each statement must have one of the shapes below;
// loops over a bundle are executed for 0, 1 and 2 collected packets.  Slot numbers are allocated in order.
type cpState struct {
	bind      map[string]int // packet variable -> slot (-1: no packet)
	collected []int          // packets = append(packets, p)
	cur       int            // slot of packets[i] inside `for i := range packets`
	events    []string
	live      []int
	next      int
	errFlag   bool // the last `err := f()` failed
	jump      string
	base      int // first slot of the current frame
}

func (s *cpState) clone() *cpState {
	t := *s
	t.bind = map[string]int{}
	for k, v := range s.bind {
		t.bind[k] = v
	}
	t.collected = append([]int(nil), s.collected...)
	t.events = append([]string(nil), s.events...)
	t.live = append([]int(nil), s.live...)
	return &t
}
func (s *cpState) ev(kind string, slot int) {
	s.events = append(s.events, fmt.Sprintf("%s %d", kind, slot))
	if kind == "EPut" || kind == "ESend" || kind == "EDrop" {
		var l []int
		for _, x := range s.live {
			if x != slot {
				l = append(l, x)
			}
		}
		s.live = l
	}
	if kind == "EGet" || kind == "ERecv" {
		s.live = append(s.live, slot)
	}
}

// dropFrame: the frame ends; every buffer it still references (and that was not collected by an outer frame) is lost
func (s *cpState) dropFrame(base int) {
	ls := append([]int(nil), s.live...)
	sort.Ints(ls)
	for _, x := range ls {
		if x >= base {
			s.ev("EDrop", x)
		}
	}
}

type cpCtx struct {
	fset  *token.FileSet
	funcs map[string]*ast.FuncDecl
	recv  string
	depth int
}

func (c *cpCtx) errf(n ast.Node, f string, a ...any) error {
	return fmt.Errorf("%s: conn pool translation: %s", c.fset.Position(n.Pos()), fmt.Sprintf(f, a...))
}

// slotOf: p or packets[i]
func (c *cpCtx) slotOf(e ast.Expr, st *cpState) (int, bool) {
	switch x := e.(type) {
	case *ast.Ident:
		s, ok := st.bind[x.Name]
		return s, ok && s >= 0
	case *ast.IndexExpr:
		if id, ok := x.X.(*ast.Ident); ok && id.Name == "packets" && st.cur >= 0 {
			return st.cur, true
		}
	}
	return 0, false
}

var cpReadPacket = map[string]bool{"c.Conn.ReadPacket": true, "c.ReadPacket": true}

// returns (fallthrough states, returned states)
func (c *cpCtx) block(list []ast.Stmt, live []*cpState) (out, done []*cpState, err error) {
	for _, s := range list {
		var next []*cpState
		for _, st := range live {
			if st.jump != "" { // looking for a label
				if ls, ok := s.(*ast.LabeledStmt); ok && ls.Label.Name == st.jump {
					st.jump = ""
				} else {
					next = append(next, st)
					continue
				}
			}
			l, d, err := c.stmt(s, st)
			if err != nil {
				return nil, nil, err
			}
			next = append(next, l...)
			done = append(done, d...)
		}
		live = next
	}
	return live, done, nil
}

func isReturnErr(s ast.Stmt) bool {
	r, ok := s.(*ast.ReturnStmt)
	return ok && len(r.Results) == 1 && es(r.Results[0]) == "err"
}

func (c *cpCtx) stmt(s ast.Stmt, st *cpState) (live, done []*cpState, err error) {
	switch x := s.(type) {
	case *ast.LabeledStmt:
		return c.stmt(x.Stmt, st)
	case *ast.DeclStmt:
		gd := x.Decl.(*ast.GenDecl)
		for _, sp := range gd.Specs {
			vs, ok := sp.(*ast.ValueSpec)
			if !ok || len(vs.Values) != 0 || len(vs.Names) != 1 {
				return nil, nil, c.errf(s, "unknown declaration")
			}
			ts := es(vs.Type)
			if at, ok := vs.Type.(*ast.ArrayType); ok && at.Len == nil {
				ts = "[]" + es(at.Elt)
			}
			switch ts {
			case "pk.Packet":
				st.bind[vs.Names[0].Name] = -1 // a previous packet in this variable stays referenced by whoever collected it
			case "[]pk.Packet":
				st.collected = nil
			default:
				return nil, nil, c.errf(s, "unknown declaration of type %s", es(vs.Type))
			}
		}
		return []*cpState{st}, nil, nil
	case *ast.ExprStmt:
		call, ok := x.X.(*ast.CallExpr)
		if ok && (es(call.Fun) == "c.Conn.pool.Put" || es(call.Fun) == "c.pool.Put") && len(call.Args) == 1 {
			sel, ok := call.Args[0].(*ast.SelectorExpr)
			if !ok || sel.Sel.Name != "Data" {
				return nil, nil, c.errf(s, "pool.Put of %s", es(call.Args[0]))
			}
			sl, ok := c.slotOf(sel.X, st)
			if !ok {
				return nil, nil, c.errf(s, "pool.Put of an unknown packet %s", es(sel.X))
			}
			st.ev("EPut", sl)
			return []*cpState{st}, nil, nil
		}
		return nil, nil, c.errf(s, "unknown statement %s", es(x.X))
	case *ast.AssignStmt:
		l, r := ess(x.Lhs), ess(x.Rhs)
		switch {
		case l == "packets" && strings.HasPrefix(r, "append(packets,") && len(x.Rhs) == 1:
			call := x.Rhs[0].(*ast.CallExpr)
			if len(call.Args) != 2 {
				return nil, nil, c.errf(s, "unknown append")
			}
			sl, ok := c.slotOf(call.Args[1], st)
			if !ok {
				return nil, nil, c.errf(s, "append of an unknown packet")
			}
			st.collected = append(st.collected, sl)
			return []*cpState{st}, nil, nil
		case l == "err" && len(x.Rhs) == 1:
			return c.callErr(s, x.Rhs[0], st)
		}
		return nil, nil, c.errf(s, "unknown assignment %s %s %s", l, x.Tok, r)
	case *ast.IfStmt:
		cond := es(x.Cond)
		if x.Init != nil {
			as, ok := x.Init.(*ast.AssignStmt)
			if !ok || len(as.Lhs) != 1 || es(as.Lhs[0]) != "err" || len(as.Rhs) != 1 || cond != "err != nil" || x.Else != nil {
				return nil, nil, c.errf(s, "unknown if-initialiser")
			}
			sts, _, err := c.callErr(s, as.Rhs[0], st)
			if err != nil {
				return nil, nil, err
			}
			for _, s0 := range sts {
				if s0.errFlag {
					s0.errFlag = false
					l, d, err := c.block(x.Body.List, []*cpState{s0})
					if err != nil {
						return nil, nil, err
					}
					live = append(live, l...)
					done = append(done, d...)
				} else {
					live = append(live, s0)
				}
			}
			return live, done, nil
		}
		switch {
		case cond == "err != nil" && x.Else == nil:
			if st.errFlag {
				st.errFlag = false
				return c.block(x.Body.List, []*cpState{st})
			}
			return []*cpState{st}, nil, nil
		case strings.HasSuffix(cond, ".ID == int32(packetid.BundleDelimiter)"):
			thenSt, elseSt := st.clone(), st
			l1, d1, err := c.block(x.Body.List, []*cpState{thenSt})
			if err != nil {
				return nil, nil, err
			}
			live, done = l1, d1
			if x.Else != nil {
				eb, ok := x.Else.(*ast.BlockStmt)
				if !ok {
					return nil, nil, c.errf(s, "unknown else")
				}
				l2, d2, err := c.block(eb.List, []*cpState{elseSt})
				if err != nil {
					return nil, nil, err
				}
				live = append(live, l2...)
				done = append(done, d2...)
			} else {
				live = append(live, elseSt)
			}
			return live, done, nil
		}
		return nil, nil, c.errf(s, "unknown condition %s", cond)
	case *ast.ForStmt:
		if x.Cond == nil { // for { ... }: one iteration (the caller decides what the end of an iteration means)
			return nil, nil, c.errf(s, "nested endless loop")
		}
		// for i := 0; i < N; i++ { collect }: 0, 1, 2 collected packets; a third append is cut off
		cur := []*cpState{st}
		for iter := 0; iter < 3; iter++ {
			l, d, err := c.block(x.Body.List, cur)
			if err != nil {
				return nil, nil, err
			}
			done = append(done, d...)
			cur = nil
			for _, s0 := range l {
				if s0.jump != "" {
					live = append(live, s0) // left the loop through goto
				} else if iter < 2 {
					cur = append(cur, s0)
				}
			}
		}
		return live, done, nil
	case *ast.RangeStmt:
		if es(x.X) != "packets" {
			return nil, nil, c.errf(s, "range over %s", es(x.X))
		}
		cur := []*cpState{st}
		for idx := 0; idx < len(st.collected); idx++ {
			var next []*cpState
			for _, s0 := range cur {
				if s0.jump == "break" {
					next = append(next, s0)
					continue
				}
				s0.cur = s0.collected[idx]
				l, d, err := c.block(x.Body.List, []*cpState{s0})
				if err != nil {
					return nil, nil, err
				}
				next = append(next, l...)
				done = append(done, d...)
			}
			cur = next
		}
		for _, s0 := range cur {
			if s0.jump == "break" {
				s0.jump = ""
			}
			s0.cur = -1
		}
		return cur, done, nil
	case *ast.BranchStmt:
		switch x.Tok {
		case token.GOTO:
			st.jump = x.Label.Name
		case token.BREAK:
			st.jump = "break"
		default:
			return nil, nil, c.errf(s, "unknown branch")
		}
		return []*cpState{st}, nil, nil
	case *ast.ReturnStmt:
		st.errFlag = len(x.Results) == 1 && es(x.Results[0]) != "nil"
		if len(x.Results) == 1 && es(x.Results[0]) == "err" {
			st.errFlag = true // may be nil at run time (a swallowed error); the pool events are the same
		}
		st.dropFrame(st.base)
		return nil, []*cpState{st}, nil
	}
	return nil, nil, c.errf(s, "unknown statement %T", s)
}

// callErr: err := <call>; sets errFlag on the failing outcome
func (c *cpCtx) callErr(n ast.Node, e ast.Expr, st *cpState) (live, done []*cpState, err error) {
	call, ok := e.(*ast.CallExpr)
	if !ok {
		return nil, nil, c.errf(n, "unknown err := %s", es(e))
	}
	fn := es(call.Fun)
	switch {
	case cpReadPacket[fn] && len(call.Args) == 1: // ReadPacket(&p): Pull; closed -> error, else the packet (and its buffer)
		u, ok := call.Args[0].(*ast.UnaryExpr)
		id, ok2 := u.X.(*ast.Ident)
		if !ok || !ok2 || u.Op != token.AND {
			return nil, nil, c.errf(n, "ReadPacket(%s)", es(call.Args[0]))
		}
		bad := st.clone()
		bad.errFlag = true
		st.bind[id.Name] = st.next
		st.ev("ERecv", st.next)
		st.next++
		return []*cpState{st, bad}, nil, nil
	case fn == "c.handlePacket" && len(call.Args) == 1: // the handlers read the packet
		sl, ok := c.slotOf(call.Args[0], st)
		if !ok {
			return nil, nil, c.errf(n, "handlePacket of an unknown packet")
		}
		st.ev("EUse", sl)
		bad := st.clone()
		bad.errFlag = true
		return []*cpState{st, bad}, nil, nil
	case strings.HasPrefix(fn, "c.") && c.funcs[strings.TrimPrefix(fn, "c.")] != nil && len(call.Args) == 0:
		fd := c.funcs[strings.TrimPrefix(fn, "c.")]
		if c.depth > 2 {
			return nil, nil, c.errf(n, "inlining too deep")
		}
		inner := st.clone()
		inner.bind = map[string]int{}
		inner.collected = nil
		inner.base = st.next
		c.depth++
		l, d, err := c.block(fd.Body.List, []*cpState{inner})
		c.depth--
		if err != nil {
			return nil, nil, err
		}
		for _, s0 := range l {
			s0.errFlag = false
			s0.dropFrame(s0.base)
			d = append(d, s0)
		}
		for _, s0 := range d {
			o := st.clone()
			o.events, o.live, o.next, o.errFlag = s0.events, s0.live, s0.next, s0.errFlag
			live = append(live, o)
		}
		return live, nil, nil
	}
	return nil, nil, c.errf(n, "unknown call err := %s", es(e))
}

func emitSeqs(out *bytes.Buffer, name string, sts []*cpState) {
	seen := map[string]bool{}
	var seqs []string
	for _, s := range sts {
		g := glist(s.events)
		if !seen[g] {
			seen[g] = true
			seqs = append(seqs, g)
		}
	}
	fmt.Fprintf(out, "Definition %s : list (list pev) :=\n  [%s].\n\n", name, strings.Join(seqs, ";\n   "))
}

func genConnPool(repo string, out *bytes.Buffer) error {
	fset := token.NewFileSet()
	files, _, err := parseDir(fset, repo+"/bot")
	if err != nil {
		return err
	}
	c := &cpCtx{fset: fset, funcs: map[string]*ast.FuncDecl{}}
	for _, f := range files {
		for _, d := range f.Decls {
			if fd, ok := d.(*ast.FuncDecl); ok && fd.Body != nil {
				c.funcs[fd.Name.Name] = fd
			}
		}
	}
	// ---- the reader goroutine of warpConn
	wf := c.funcs["warpConn"]
	if wf == nil {
		return fmt.Errorf("%s/bot: warpConn not found", repo)
	}
	var lit *ast.FuncLit
	ast.Inspect(wf.Body, func(n ast.Node) bool {
		if g, ok := n.(*ast.GoStmt); ok && lit == nil {
			if fl, ok := g.Call.Fun.(*ast.FuncLit); ok {
				lit = fl
			}
		}
		return true
	})
	if lit == nil || len(lit.Body.List) != 2 {
		return c.errf(wf, "reader goroutine of warpConn: unknown shape")
	}
	loop, ok := lit.Body.List[0].(*ast.ForStmt)
	if !ok || loop.Cond != nil || loop.Init != nil || len(loop.Body.List) != 3 {
		return c.errf(lit, "reader goroutine: expected `for { get; read; push }`")
	}
	if es(lit.Body.List[1].(*ast.ExprStmt).X) != "wc.recv.Close()" {
		return c.errf(lit, "reader goroutine: expected wc.recv.Close() after the loop")
	}
	rd := &cpState{bind: map[string]int{}, cur: -1}
	as, ok := loop.Body.List[0].(*ast.AssignStmt)
	if !ok || as.Tok != token.DEFINE || ess(as.Lhs) != "p" || !strings.HasPrefix(ess(as.Rhs), "pk.Packet{Data:wc.pool.Get().(") {
		return c.errf(loop, "reader goroutine: statement 1 is `%s`", ess(as.Rhs))
	}
	rd.bind["p"] = 0
	rd.next = 1
	rd.ev("EGet", 0)
	var readerDone []*cpState
	if1, ok := loop.Body.List[1].(*ast.IfStmt)
	if !ok || if1.Init == nil || es(if1.Cond) != "err != nil" || ess(if1.Init.(*ast.AssignStmt).Rhs) != "c.ReadPacket(&p)" || len(if1.Body.List) != 2 {
		return c.errf(loop, "reader goroutine: statement 2 unknown")
	}
	if _, ok := if1.Body.List[1].(*ast.BranchStmt); !ok || es(if1.Body.List[0].(*ast.AssignStmt).Lhs[0]) != "wc.rerr" {
		return c.errf(if1, "reader goroutine: error branch of ReadPacket unknown")
	}
	rd.ev("EUse", 0) // ReadPacket(&p) decodes into the buffer
	bad := rd.clone()
	bad.dropFrame(0) // break: the packet variable goes out of scope
	readerDone = append(readerDone, bad)
	if2, ok := loop.Body.List[2].(*ast.IfStmt)
	if !ok || if2.Init == nil || es(if2.Cond) != "!ok" || ess(if2.Init.(*ast.AssignStmt).Rhs) != "wc.recv.Push(p)" || len(if2.Body.List) != 2 {
		return c.errf(loop, "reader goroutine: statement 3 unknown")
	}
	full := rd.clone()
	full.dropFrame(0) // Push refused (bounded queue full): the packet is lost
	readerDone = append(readerDone, full)
	rd.ev("ESend", 0)
	rd.dropFrame(0)
	readerDone = append(readerDone, rd)
	out.WriteString("(* bot.Conn: the packet buffers of a connection.  Reader goroutine of warpConn, one loop iteration *)\n")
	emitSeqs(out, "conn_reader_paths", readerDone)
	// ---- HandleGame, one iteration of its loop (handleBundlePackets inlined, 0..2 bundled packets)
	hg := c.funcs["HandleGame"]
	if hg == nil || len(hg.Body.List) != 1 {
		return fmt.Errorf("%s/bot: HandleGame: unknown shape", repo)
	}
	hl, ok := hg.Body.List[0].(*ast.ForStmt)
	if !ok || hl.Cond != nil || hl.Init != nil {
		return c.errf(hg, "HandleGame: expected `for { ... }`")
	}
	st := &cpState{bind: map[string]int{}, cur: -1}
	l, d, err := c.block(hl.Body.List, []*cpState{st})
	if err != nil {
		return err
	}
	for _, s0 := range l { // end of the iteration: the packet variable is overwritten by the next one
		s0.dropFrame(0)
		d = append(d, s0)
	}
	out.WriteString("(* bot.HandleGame, one iteration (bundles of 0, 1 and 2 packets) *)\n")
	emitSeqs(out, "conn_consumer_paths", d)
	return nil
}
