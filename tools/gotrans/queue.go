package main

// Translation of the synchronisation skeletons used by property C20 into Gallina terms of the
// statement types of coq/Model/C20_syntax.v:
//
//   - net/queue/queue.go: LinkedListQueue.Push / Pull / Close and ChannelQueue.Push / Pull / Close
//     (type stmt), plus shape checks of the two constructors;
//   - server/playerlist.go: ClientJoin / ClientLeft / CheckPlayer / Len (type pstmt).
//
// Only go/parser + go/ast are used.  Every statement must match one of the shapes listed below
// EXACTLY; anything else makes the translator fail (non-zero exit of gotrans), which the check
// reports as a broken correspondence.

import (
	"bytes"
	"fmt"
	"go/ast"
	"go/parser"
	"go/token"
	"path/filepath"
	"strings"
)

// ---------------------------------------------------------------- expression rendering

// es renders the small expression language that occurs in the skeletons; unknown nodes render as
// "?<type>" and therefore never match an expected shape.
func es(e ast.Expr) string {
	switch x := e.(type) {
	case nil:
		return ""
	case *ast.Ident:
		return x.Name
	case *ast.BasicLit:
		if x.Kind == token.STRING {
			return "\"...\""
		}
		return x.Value
	case *ast.SelectorExpr:
		return es(x.X) + "." + x.Sel.Name
	case *ast.CallExpr:
		var as []string
		for _, a := range x.Args {
			as = append(as, es(a))
		}
		if x.Ellipsis != token.NoPos {
			return "?ellipsis"
		}
		return es(x.Fun) + "(" + strings.Join(as, ",") + ")"
	case *ast.TypeAssertExpr:
		return es(x.X) + ".(" + es(x.Type) + ")"
	case *ast.BinaryExpr:
		return es(x.X) + " " + x.Op.String() + " " + es(x.Y)
	case *ast.UnaryExpr:
		return x.Op.String() + es(x.X)
	case *ast.StarExpr:
		return "*" + es(x.X)
	case *ast.ParenExpr:
		return "(" + es(x.X) + ")"
	case *ast.IndexExpr:
		return es(x.X) + "[" + es(x.Index) + "]"
	case *ast.CompositeLit:
		var as []string
		for _, a := range x.Elts {
			as = append(as, es(a))
		}
		return es(x.Type) + "{" + strings.Join(as, ",") + "}"
	case *ast.KeyValueExpr:
		return es(x.Key) + ":" + es(x.Value)
	}
	return fmt.Sprintf("?%T", e)
}

func ess(xs []ast.Expr) string {
	var as []string
	for _, a := range xs {
		as = append(as, es(a))
	}
	return strings.Join(as, ",")
}

type qctx struct {
	fset   *token.FileSet
	recv   string   // receiver name
	params []string // parameter names
	named  []string // named results
	nres   int      // number of results
	elem   string   // identifier bound by the enclosing `if elem := recv.queue.Front()`
}

func (c *qctx) errf(n ast.Node, format string, a ...any) error {
	return fmt.Errorf("%s: %s", c.fset.Position(n.Pos()), fmt.Sprintf(format, a...))
}

func isSmallNat(s string) bool {
	if s == "" || len(s) > 3 {
		return false
	}
	for _, ch := range s {
		if ch < '0' || ch > '9' {
			return false
		}
	}
	return true
}

func glist(xs []string) string { return "[" + strings.Join(xs, "; ") + "]" }

// ---------------------------------------------------------------- net/queue

func (c *qctx) block(b *ast.BlockStmt) ([]string, error) {
	var out []string
	if b == nil {
		return out, nil
	}
	for _, s := range b.List {
		t, err := c.stmt(s)
		if err != nil {
			return nil, err
		}
		out = append(out, t)
	}
	return out, nil
}

func (c *qctx) elseBranch(s ast.Stmt) ([]string, error) {
	switch x := s.(type) {
	case nil:
		return nil, nil
	case *ast.BlockStmt:
		return c.block(x)
	case *ast.IfStmt:
		t, err := c.stmt(x)
		if err != nil {
			return nil, err
		}
		return []string{t}, nil
	}
	return nil, c.errf(s, "unknown else branch %T", s)
}

func (c *qctx) stmt(s ast.Stmt) (string, error) {
	r := c.recv
	switch x := s.(type) {
	case *ast.ExprStmt:
		switch es(x.X) {
		case r + ".cond.L.Lock()":
			return "SLock", nil
		case r + ".cond.L.Unlock()":
			return "SUnlock", nil
		case r + ".cond.Signal()":
			return "SSignal", nil
		case r + ".cond.Broadcast()":
			return "SBroadcast", nil
		case r + ".cond.Wait()":
			return "SWait", nil
		case "panic(\"...\")":
			return "SPanic", nil
		case "close(" + r + ")":
			return "SCloseChan", nil
		}
		if len(c.params) == 1 && es(x.X) == r+".queue.PushBack("+c.params[0]+")" {
			return "SPushBack", nil
		}
		return "", c.errf(s, "unknown expression statement %q", es(x.X))
	case *ast.AssignStmt:
		if x.Tok != token.ASSIGN {
			return "", c.errf(s, "unknown assignment operator %s in %q", x.Tok, ess(x.Lhs)+x.Tok.String()+ess(x.Rhs))
		}
		l, rh := ess(x.Lhs), ess(x.Rhs)
		switch {
		case l == r+".closed" && rh == "true":
			return "SSetClosed", nil
		case len(c.named) == 2 && l == c.named[1] && rh == "true":
			return "SSetOk", nil
		case len(c.named) == 2 && c.elem != "" && l == c.named[0] && rh == r+".queue.Remove("+c.elem+").(T)":
			return "SRemoveFront", nil
		case len(c.named) == 2 && l == c.named[0]+","+c.named[1] && rh == "<-"+r:
			return "SRecv", nil
		}
		return "", c.errf(s, "unknown assignment %q = %q", l, rh)
	case *ast.IfStmt:
		var kind string
		inner := *c
		switch {
		case x.Init == nil && es(x.Cond) == r+".closed":
			kind = "SIfClosed"
		case x.Init == nil && strings.HasPrefix(es(x.Cond), r+".queue.Len() == ") && isSmallNat(strings.TrimPrefix(es(x.Cond), r+".queue.Len() == ")):
			// if p.queue.Len() == n { .. }: the machine branches on the length of the list
			kind = "SIfLen " + strings.TrimPrefix(es(x.Cond), r+".queue.Len() == ")
		case x.Init != nil:
			as, ok := x.Init.(*ast.AssignStmt)
			if !ok || as.Tok != token.DEFINE || len(as.Lhs) != 1 || ess(as.Rhs) != r+".queue.Front()" {
				return "", c.errf(s, "unknown if-initialiser")
			}
			id := es(as.Lhs[0])
			if es(x.Cond) != id+" != nil" {
				return "", c.errf(s, "unknown condition %q after %s := %s.queue.Front()", es(x.Cond), id, r)
			}
			kind = "SIfFront"
			inner.elem = id
		default:
			return "", c.errf(s, "unknown if condition %q", es(x.Cond))
		}
		th, err := inner.block(x.Body)
		if err != nil {
			return "", err
		}
		// the element identifier is not in scope of a correct Remove in the else branch (it is nil there)
		el, err := c.elseBranch(x.Else)
		if err != nil {
			return "", err
		}
		return fmt.Sprintf("%s %s %s", kind, glist(th), glist(el)), nil
	case *ast.ForStmt:
		if x.Init != nil || x.Cond != nil || x.Post != nil {
			return "", c.errf(s, "unknown for-loop header (only `for { ... }` is known)")
		}
		b, err := c.block(x.Body)
		if err != nil {
			return "", err
		}
		return "SLoop " + glist(b), nil
	case *ast.BranchStmt:
		if x.Tok == token.BREAK && x.Label == nil {
			return "SBreak", nil
		}
		return "", c.errf(s, "unknown branch statement %s", x.Tok)
	case *ast.ReturnStmt:
		switch {
		case len(x.Results) == 0 && (c.nres == 0 || len(c.named) == c.nres):
			return "SReturn", nil
		case len(x.Results) == 1 && c.nres == 1 && es(x.Results[0]) == "true":
			return "SReturnTrue", nil
		case len(x.Results) == 1 && c.nres == 1 && es(x.Results[0]) == "false":
			return "SReturnFalse", nil
		}
		return "", c.errf(s, "unknown return %q", ess(x.Results))
	case *ast.SelectStmt:
		if len(x.Body.List) != 2 || len(c.params) != 1 {
			return "", c.errf(s, "unknown select shape (want one send case and default)")
		}
		var sent, dflt []string
		var haveSend, haveDflt bool
		for _, cl := range x.Body.List {
			cc := cl.(*ast.CommClause)
			body := &ast.BlockStmt{List: cc.Body}
			if cc.Comm == nil {
				b, err := c.block(body)
				if err != nil {
					return "", err
				}
				dflt, haveDflt = b, true
				continue
			}
			snd, ok := cc.Comm.(*ast.SendStmt)
			if !ok || es(snd.Chan) != r || es(snd.Value) != c.params[0] {
				return "", c.errf(cl, "unknown communication clause (want `case %s <- %s`)", r, c.params[0])
			}
			b, err := c.block(body)
			if err != nil {
				return "", err
			}
			sent, haveSend = b, true
		}
		if !haveSend || !haveDflt {
			return "", c.errf(s, "unknown select shape (want one send case and default)")
		}
		return fmt.Sprintf("SSelectSend %s %s", glist(sent), glist(dflt)), nil
	}
	return "", c.errf(s, "unknown statement %T", s)
}

func recvTypeName(fd *ast.FuncDecl) string {
	if fd.Recv == nil || len(fd.Recv.List) != 1 {
		return ""
	}
	t := fd.Recv.List[0].Type
	if st, ok := t.(*ast.StarExpr); ok {
		t = st.X
	}
	if ix, ok := t.(*ast.IndexExpr); ok {
		t = ix.X
	}
	if id, ok := t.(*ast.Ident); ok {
		return id.Name
	}
	return ""
}

func fieldNames(fl *ast.FieldList) (names []string, n int) {
	if fl == nil {
		return nil, 0
	}
	for _, f := range fl.List {
		if len(f.Names) == 0 {
			n++
		}
		for _, id := range f.Names {
			names = append(names, id.Name)
			n++
		}
	}
	return
}

func methodCtx(fset *token.FileSet, fd *ast.FuncDecl) *qctx {
	c := &qctx{fset: fset}
	if fd.Recv != nil && len(fd.Recv.List) == 1 && len(fd.Recv.List[0].Names) == 1 {
		c.recv = fd.Recv.List[0].Names[0].Name
	}
	c.params, _ = fieldNames(fd.Type.Params)
	c.named, c.nres = fieldNames(fd.Type.Results)
	return c
}

func genQueueSkeleton(repo string, out *bytes.Buffer) error {
	fset := token.NewFileSet()
	path := filepath.Join(repo, "net/queue/queue.go")
	f, err := parser.ParseFile(fset, path, nil, parser.SkipObjectResolution)
	if err != nil {
		return err
	}
	want := map[string]string{
		"LinkedListQueue.Push": "push_prog", "LinkedListQueue.Pull": "pull_prog", "LinkedListQueue.Close": "close_prog",
		"ChannelQueue.Push": "ch_push_prog", "ChannelQueue.Pull": "ch_pull_prog", "ChannelQueue.Close": "ch_close_prog",
	}
	sigs := map[string]string{ // params / results each method must have
		"LinkedListQueue.Push": "1/1/0", "LinkedListQueue.Pull": "0/2/2", "LinkedListQueue.Close": "0/0/0",
		"ChannelQueue.Push": "1/1/0", "ChannelQueue.Pull": "0/2/2", "ChannelQueue.Close": "0/0/0",
	}
	got := map[string]string{}
	ctors := map[string]string{}
	for _, d := range f.Decls {
		fd, ok := d.(*ast.FuncDecl)
		if !ok || fd.Body == nil {
			continue
		}
		if fd.Recv == nil {
			// constructors: a single return statement of a known shape
			if fd.Name.Name == "NewLinkedQueue" || fd.Name.Name == "NewChannelQueue" {
				if len(fd.Body.List) != 1 {
					return fmt.Errorf("%s: %s: unknown constructor body", fset.Position(fd.Pos()), fd.Name.Name)
				}
				rs, ok := fd.Body.List[0].(*ast.ReturnStmt)
				if !ok || len(rs.Results) != 1 {
					return fmt.Errorf("%s: %s: unknown constructor body", fset.Position(fd.Pos()), fd.Name.Name)
				}
				ps, _ := fieldNames(fd.Type.Params)
				ctors[fd.Name.Name] = strings.Join(ps, ",") + "|" + es(rs.Results[0])
			}
			continue
		}
		key := recvTypeName(fd) + "." + fd.Name.Name
		name, ok := want[key]
		if !ok {
			if strings.HasPrefix(key, "LinkedListQueue.") || strings.HasPrefix(key, "ChannelQueue.") {
				return fmt.Errorf("%s: method %s is not known to the translator", fset.Position(fd.Pos()), key)
			}
			continue
		}
		c := methodCtx(fset, fd)
		if c.recv == "" {
			return fmt.Errorf("%s: %s: receiver has no name", fset.Position(fd.Pos()), key)
		}
		if sig := fmt.Sprintf("%d/%d/%d", len(c.params), c.nres, len(c.named)); sig != sigs[key] {
			return fmt.Errorf("%s: %s: unknown signature shape %s (want %s)", fset.Position(fd.Pos()), key, sig, sigs[key])
		}
		body, err := c.block(fd.Body)
		if err != nil {
			return fmt.Errorf("%s: %w", key, err)
		}
		got[key] = fmt.Sprintf("Definition %s : list stmt :=\n  %s.\n", name, glist(body))
	}
	for _, k := range []string{"LinkedListQueue.Push", "LinkedListQueue.Pull", "LinkedListQueue.Close",
		"ChannelQueue.Push", "ChannelQueue.Pull", "ChannelQueue.Close"} {
		if got[k] == "" {
			return fmt.Errorf("%s: method %s not found", path, k)
		}
		fmt.Fprintf(out, "(* %s *)\n%s\n", k, got[k])
	}
	// constructors: empty list, not closed (field absent), fresh mutex; channel of the requested capacity
	if c := ctors["NewLinkedQueue"]; c != "|&LinkedListQueue[T]{queue:list.New(),cond:sync.Cond{L:new(sync.Mutex)}}" {
		return fmt.Errorf("%s: NewLinkedQueue has an unknown shape: %q", path, c)
	}
	if c := ctors["NewChannelQueue"]; c != "n|make(ChannelQueue[T],n)" {
		return fmt.Errorf("%s: NewChannelQueue has an unknown shape: %q", path, c)
	}
	out.WriteString("(* NewLinkedQueue: empty list, closed unset, fresh mutex; NewChannelQueue(n): make(chan T, n) - shapes checked *)\n")
	out.WriteString("Definition queue_ctor_shapes_checked : bool := true.\n\n")
	return nil
}

// ---------------------------------------------------------------- server/playerlist.go

func (c *qctx) pblock(list []ast.Stmt) ([]string, error) {
	var out []string
	for _, s := range list {
		t, err := c.pstmt(s)
		if err != nil {
			return nil, err
		}
		out = append(out, t)
	}
	return out, nil
}

func (c *qctx) pstmt(s ast.Stmt) (string, error) {
	r := c.recv
	switch x := s.(type) {
	case *ast.ExprStmt:
		str := es(x.X)
		switch {
		case str == r+".playersLock.Lock()":
			return "PLock", nil
		case len(c.params) >= 1 && str == "delete("+r+".players,"+c.params[0]+")":
			return "PDelete", nil
		case len(c.params) >= 1 && strings.HasPrefix(str, c.params[0]+".SendDisconnect("):
			return "PDisconnect", nil
		}
		return "", c.errf(s, "unknown expression statement %q", str)
	case *ast.DeferStmt:
		if es(x.Call) == r+".playersLock.Unlock()" {
			return "PDeferUnlock", nil
		}
		return "", c.errf(s, "unknown defer %q", es(x.Call))
	case *ast.IfStmt:
		if x.Init != nil || x.Else != nil || es(x.Cond) != "len("+r+".players) >= "+r+".maxPlayer" {
			return "", c.errf(s, "unknown if statement (condition %q)", es(x.Cond))
		}
		th, err := c.pblock(x.Body.List)
		if err != nil {
			return "", err
		}
		return "PIfFull " + glist(th), nil
	case *ast.AssignStmt:
		if x.Tok == token.ASSIGN && len(c.params) == 2 && ess(x.Lhs) == r+".players["+c.params[0]+"]" && ess(x.Rhs) == c.params[1] {
			return "PInsert", nil
		}
		return "", c.errf(s, "unknown assignment %q %s %q", ess(x.Lhs), x.Tok, ess(x.Rhs))
	case *ast.ReturnStmt:
		switch {
		case len(x.Results) == 0:
			return "PReturn", nil
		case len(x.Results) == 2 && es(x.Results[0]) == "false":
			return "PReturnFalse", nil
		case len(x.Results) == 2 && es(x.Results[0]) == "true":
			return "PReturnTrue", nil
		case len(x.Results) == 1 && es(x.Results[0]) == "len("+r+".players)":
			return "PReturnLen", nil
		}
		return "", c.errf(s, "unknown return %q", ess(x.Results))
	}
	return "", c.errf(s, "unknown statement %T", s)
}

func genPlayerListSkeleton(repo string, out *bytes.Buffer) error {
	fset := token.NewFileSet()
	path := filepath.Join(repo, "server/playerlist.go")
	f, err := parser.ParseFile(fset, path, nil, parser.SkipObjectResolution)
	if err != nil {
		return err
	}
	want := []struct{ method, name string }{
		{"ClientJoin", "pl_join_prog"}, {"ClientLeft", "pl_left_prog"}, {"CheckPlayer", "pl_check_prog"}, {"Len", "pl_len_prog"},
	}
	got := map[string]string{}
	// every other method must not write p.players / p.maxPlayer: scan for assignments, delete, and map writes
	for _, d := range f.Decls {
		fd, ok := d.(*ast.FuncDecl)
		if !ok || fd.Body == nil || recvTypeName(fd) != "PlayerList" {
			continue
		}
		c := methodCtx(fset, fd)
		known := false
		for _, w := range want {
			if w.method == fd.Name.Name {
				known = true
				// unnamed parameters (CheckPlayer(string, uuid.UUID, int32)) have no names: fine
				body, err := c.pblock(fd.Body.List)
				if err != nil {
					return fmt.Errorf("PlayerList.%s: %w", fd.Name.Name, err)
				}
				got[w.method] = fmt.Sprintf("Definition %s : list pstmt :=\n  %s.\n", w.name, glist(body))
			}
		}
		if known {
			continue
		}
		// read-only methods: no statement may modify the map or the capacity
		var bad error
		ast.Inspect(fd.Body, func(n ast.Node) bool {
			switch x := n.(type) {
			case *ast.AssignStmt:
				for _, l := range x.Lhs {
					if s := es(l); strings.HasPrefix(s, c.recv+".players") || strings.HasPrefix(s, c.recv+".maxPlayer") {
						bad = c.errf(n, "method %s writes %s (not known to the translator)", fd.Name.Name, s)
					}
				}
			case *ast.CallExpr:
				if s := es(x); strings.HasPrefix(s, "delete("+c.recv+".players") || strings.HasPrefix(s, "clear("+c.recv+".players") {
					bad = c.errf(n, "method %s modifies the player map (not known to the translator)", fd.Name.Name)
				}
			case *ast.IncDecStmt:
				if s := es(x.X); strings.HasPrefix(s, c.recv+".") {
					bad = c.errf(n, "method %s modifies %s", fd.Name.Name, s)
				}
			}
			return true
		})
		if bad != nil {
			return bad
		}
	}
	for _, w := range want {
		if got[w.method] == "" {
			return fmt.Errorf("%s: method PlayerList.%s not found", path, w.method)
		}
		fmt.Fprintf(out, "(* PlayerList.%s *)\n%s\n", w.method, got[w.method])
	}
	return nil
}

func genQueue(repo string) (string, error) {
	var out bytes.Buffer
	out.WriteString("(* GENERATED by tools/gotrans from net/queue/queue.go, server/playerlist.go and net/packet/*.go - do not edit *)\n")
	out.WriteString("From Coq Require Import List String.\nFrom GoMC Require Import Model.C20_syntax.\nImport ListNotations.\n\n")
	if err := genQueueSkeleton(repo, &out); err != nil {
		return "", err
	}
	if err := genPlayerListSkeleton(repo, &out); err != nil {
		return "", err
	}
	if err := genPoolSkeleton(repo, &out); err != nil {
		return "", err
	}
	if err := genCacheSkeleton(repo, &out); err != nil {
		return "", err
	}
	if err := genLockTable(repo, &out); err != nil {
		return "", err
	}
	if err := genConnPool(repo, &out); err != nil {
		return "", err
	}
	return out.String(), nil
}
