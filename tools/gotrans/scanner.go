// scanner.go: translation of the SNBT scanner's state machine (nbt/snbt_scanner.go) into Gallina, written
// to coq/Gen/Scanner.v on every run (property C04).
//
// What is translated: the struct `scanner` (as a record), every function of snbt_scanner.go that takes the
// scanner (the methods reset, pushParseState, popParseState, eof, error and every state function
// `func stateXxx(s *scanner, c byte) int`).  The character classes isSpace / isNumber /
// isAllowedInUnquotedString are NOT translated again: calls of them become calls of the definitions of
// Gen/Funcs.v (funcs.go), which Props/C04.v ties to the specification's classes.
//
// Semantics of the translation (anything that does not fit is a loud failure, never a guess):
//   - the scanner is a value of the generated record; a function that takes `s *scanner` takes the record and
//     returns the updated record (state-passing), paired with the Go result when it has one:
//     `scanner -> Z -> scanner * Z` for a state function;
//   - field kinds, from the Go struct: `func(*scanner, byte) int` -> the generated inductive `sstate` with
//     one constructor St_<name> per state function (`s.step = stateFoo` stores St_stateFoo, `s.step(s, c)`
//     is a call of the generated dispatcher); `[]int` -> `list Z` in Go order (entry 0 first, the top of
//     the stack last); `bool` -> bool; `string` -> bool, meaning "is not the empty string" (the only thing
//     the code asks of it): an assignment of a string expression is translated only when its emptiness
//     is decided syntactically (a literal, or a concatenation with a non-empty literal);
//   - Go run-time panics are explicit: the record has an extra field `crashed`.  `x[i]` (read or write) is
//     guarded by 0 <= i < len, `x[lo:hi]` by 0 <= lo <= hi <= len (Go allows hi <= cap: the model is
//     stricter, a slice beyond the length counts as a crash), `x[0:0]` never panics; a failed guard sets
//     `crashed` and returns at once (result scanError); after a call of a function that can crash the
//     caller returns at once when `crashed` is set (a Go panic unwinds);
//   - integer expressions go through funcs.go (explicit wrap_s / wrap_u, constants folded by go/types);
//     package-level constants that occur as plain identifiers are emitted by name (Gen/Consts.v);
//   - statements: assignment to a scanner field, `x := e`, `x := s.f[i]`, `s.f[i] = e`, `s.f = append(s.f, e)`,
//     `s.f = s.f[lo:hi]`, if / else, switch with and without tag (no fallthrough), return, calls of
//     translated functions as statements; early returns become nested conditionals;
//   - string parameters are dropped (they only feed error texts); functions of the file that neither take
//     the scanner nor are character classes of funcs.go must be text helpers returning string (quoteChar).
package main

import (
	"bytes"
	"fmt"
	"go/ast"
	"go/constant"
	"go/token"
	"go/types"
	"path/filepath"
	"sort"
	"strings"
)

const scannerFile = "snbt_scanner.go"
const scannerType = "scanner"

type scFn struct {
	fd      *ast.FuncDecl
	name    string // Go name
	key     string // name, or scanner.name for a method
	cname   string // Coq name
	isState bool   // func(*scanner, byte) int, not a method
	void    bool
	sname   string   // Go name of the scanner variable
	pnames  []string // Go names of the kept (integer) parameters
	callees []string // keys of the translated functions it calls directly
	usesDsp bool     // calls s.step(...)
	ownCr   bool     // has an index / slice operation of its own
	crash   bool     // can set `crashed` (own operations or through a callee)
	text    string   // the generated definition
}

type sx struct {
	t      *trans
	info   *types.Info
	fields map[string]string // Go field -> kind: state | stack | text | bool
	forder []string
	fns    map[string]*scFn
	fn     *scFn
	cur    string // Coq name of the current scanner value
}

func (x *sx) fail(n ast.Node, f string, a ...any) { x.t.fail(n, f, a...) }

// isS: e is the scanner variable of the function being translated
func (x *sx) isS(e ast.Expr) bool {
	id, ok := e.(*ast.Ident)
	return ok && id.Name == x.fn.sname
}

// field: e is s.<field>; returns the field name and its kind
func (x *sx) field(e ast.Expr) (string, string, bool) {
	sel, ok := e.(*ast.SelectorExpr)
	if !ok || !x.isS(sel.X) {
		return "", "", false
	}
	k, ok := x.fields[sel.Sel.Name]
	if !ok {
		return "", "", false // a method
	}
	return sel.Sel.Name, k, true
}

func (x *sx) mentions(e ast.Node) bool {
	m := false
	ast.Inspect(e, func(n ast.Node) bool {
		if id, ok := n.(*ast.Ident); ok && id.Name == x.fn.sname {
			m = true
		}
		return true
	})
	return m
}

// pkgConst: a plain identifier that names a package-level integer constant is emitted by name
func (x *sx) pkgConst(e ast.Expr) (string, bool) {
	id, ok := e.(*ast.Ident)
	if !ok {
		return "", false
	}
	if _, local := x.t.lookup(id.Name); local {
		return "", false
	}
	c, ok := x.info.Uses[id].(*types.Const)
	if !ok || c.Parent() != c.Pkg().Scope() || c.Val().Kind() != constant.Int {
		return "", false
	}
	return "nbt_" + id.Name, true
}

func isEmptyStringConst(info *types.Info, e ast.Expr) bool {
	tv, ok := info.Types[e]
	return ok && tv.Value != nil && tv.Value.Kind() == constant.String && constant.StringVal(tv.Value) == ""
}

// expr: integer / boolean expression that may read the scanner
func (x *sx) expr(e ast.Expr) string {
	if c, ok := x.pkgConst(e); ok {
		return c
	}
	if !x.mentions(e) {
		return x.t.expr(e)
	}
	switch v := e.(type) {
	case *ast.ParenExpr:
		return x.expr(v.X)
	case *ast.UnaryExpr:
		if v.Op == token.NOT {
			return "(negb " + x.expr(v.X) + ")"
		}
	case *ast.SelectorExpr:
		if f, k, ok := x.field(v); ok && k == "bool" {
			return "(" + f + " " + x.cur + ")"
		}
	case *ast.CallExpr:
		if id, ok := v.Fun.(*ast.Ident); ok && id.Name == "len" && len(v.Args) == 1 {
			if f, k, ok := x.field(v.Args[0]); ok && k == "stack" {
				return "(sl_len (" + f + " " + x.cur + "))"
			}
		}
	case *ast.BinaryExpr:
		if v.Op == token.EQL || v.Op == token.NEQ {
			// s.text == "" / s.text != ""
			for _, p := range [][2]ast.Expr{{v.X, v.Y}, {v.Y, v.X}} {
				if f, k, ok := x.field(p[0]); ok && k == "text" && isEmptyStringConst(x.info, p[1]) {
					if v.Op == token.NEQ {
						return "(" + f + " " + x.cur + ")"
					}
					return "(negb (" + f + " " + x.cur + "))"
				}
			}
		}
		ty := x.info.Types[e].Type
		isBool := func(e ast.Expr) bool {
			if tx, ok := x.info.Types[e]; ok && tx.Type != nil {
				if bt, ok := tx.Type.Underlying().(*types.Basic); ok && bt.Info()&types.IsBoolean != 0 {
					return true
				}
			}
			return false
		}
		switch v.Op {
		case token.LAND:
			return "(" + x.expr(v.X) + " && " + x.expr(v.Y) + ")"
		case token.LOR:
			return "(" + x.expr(v.X) + " || " + x.expr(v.Y) + ")"
		}
		if isBool(v.X) {
			x.fail(e, "unsupported comparison of booleans that reads the scanner")
		}
		a, b := x.expr(v.X), x.expr(v.Y)
		switch v.Op {
		case token.ADD:
			return x.t.wrap(e, ty, "("+a+" + "+b+")")
		case token.SUB:
			return x.t.wrap(e, ty, "("+a+" - "+b+")")
		case token.EQL:
			return "(" + a + " =? " + b + ")"
		case token.NEQ:
			return "(negb (" + a + " =? " + b + "))"
		case token.LSS:
			return "(" + a + " <? " + b + ")"
		case token.LEQ:
			return "(" + a + " <=? " + b + ")"
		case token.GTR:
			return "(" + b + " <? " + a + ")"
		case token.GEQ:
			return "(" + b + " <=? " + a + ")"
		}
	}
	x.fail(e, "unsupported expression that reads the scanner (%T)", e)
	return ""
}

// strNonEmpty decides syntactically whether a string expression is empty: (decided, nonEmpty)
func (x *sx) strNonEmpty(e ast.Expr) (bool, bool) {
	if tv, ok := x.info.Types[e]; ok && tv.Value != nil && tv.Value.Kind() == constant.String {
		return true, constant.StringVal(tv.Value) != ""
	}
	switch v := e.(type) {
	case *ast.ParenExpr:
		return x.strNonEmpty(v.X)
	case *ast.BinaryExpr:
		if v.Op == token.ADD {
			d1, n1 := x.strNonEmpty(v.X)
			d2, n2 := x.strNonEmpty(v.Y)
			if (d1 && n1) || (d2 && n2) {
				return true, true
			}
			if d1 && d2 {
				return true, false
			}
		}
	}
	return false, false
}

// callee resolves a call of a translated function: f(s, args) or s.m(args); args without the scanner
func (x *sx) callee(c *ast.CallExpr) (*scFn, []ast.Expr) {
	switch f := c.Fun.(type) {
	case *ast.Ident:
		if fn, ok := x.fns[f.Name]; ok && fn.fd.Recv == nil {
			if len(c.Args) == 0 || !x.isS(c.Args[0]) {
				x.fail(c, "call of %s whose first argument is not the scanner", f.Name)
			}
			return fn, c.Args[1:]
		}
	case *ast.SelectorExpr:
		if x.isS(f.X) {
			if fn, ok := x.fns[scannerType+"."+f.Sel.Name]; ok {
				return fn, c.Args
			}
		}
	}
	return nil, nil
}

// isDispatch: s.step(s, e)
func (x *sx) isDispatch(c *ast.CallExpr) (string, ast.Expr, bool) {
	f, k, ok := x.field(c.Fun)
	if !ok || k != "state" {
		return "", nil, false
	}
	if len(c.Args) != 2 || !x.isS(c.Args[0]) {
		x.fail(c, "call through the state field with unexpected arguments")
	}
	return f, c.Args[1], true
}

// call renders the call; returns (term, void, canCrash)
func (x *sx) call(c *ast.CallExpr) (string, bool, bool, bool) {
	if f, arg, ok := x.isDispatch(c); ok {
		return "(scan_dispatch (" + f + " " + x.cur + ") " + x.cur + " " + x.expr(arg) + ")", false, true, true
	}
	fn, args := x.callee(c)
	if fn == nil {
		return "", false, false, false
	}
	if fn.text == "" {
		x.fail(c, "internal: %s is called before it is translated", fn.key)
	}
	parts := []string{fn.cname, x.cur}
	ps := fn.fd.Type.Params.List
	var flat []ast.Expr // types of the Go parameters, one per name
	for _, p := range ps {
		n := len(p.Names)
		if n == 0 {
			n = 1
		}
		for i := 0; i < n; i++ {
			flat = append(flat, p.Type)
		}
	}
	if fn.fd.Recv == nil {
		flat = flat[1:]
	}
	if len(flat) != len(args) {
		x.fail(c, "call of %s with %d arguments", fn.key, len(args))
	}
	for i, a := range args {
		if id, ok := flat[i].(*ast.Ident); ok && id.Name == "string" {
			continue // text only
		}
		parts = append(parts, x.expr(a))
	}
	return "(" + strings.Join(parts, " ") + ")", fn.void, fn.crash, true
}

func (x *sx) crashVal() string {
	if x.fn.void {
		return "(set_crashed " + x.cur + " true)"
	}
	return "(set_crashed " + x.cur + " true, nbt_scanError)"
}

func (x *sx) next() string { return x.t.fresh(x.fn.sname) }

// set emits `let s' := set_<f> s v in` and advances the current scanner
func (x *sx) set(f, v string) string {
	n := x.next()
	s := fmt.Sprintf("let %s := set_%s %s %s in\n  ", n, f, x.cur, v)
	x.cur = n
	return s
}

func constZero(info *types.Info, e ast.Expr) bool {
	if e == nil {
		return true
	}
	tv, ok := info.Types[e]
	return ok && tv.Value != nil && tv.Value.Kind() == constant.Int && constant.Sign(tv.Value) == 0
}

func (x *sx) stmts(list []ast.Stmt, at ast.Node) string {
	if len(list) == 0 {
		if !x.fn.void {
			x.fail(at, "control reaches the end of a function with a result")
		}
		return x.cur
	}
	s, rest := list[0], list[1:]
	switch v := s.(type) {
	case *popMarker:
		x.t.pop()
		return x.stmts(rest, at)
	case *ast.EmptyStmt:
		return x.stmts(rest, at)
	case *ast.BlockStmt:
		x.t.push()
		l := append(append([]ast.Stmt{}, v.List...), &popMarker{})
		return x.stmts(append(l, rest...), at)
	case *ast.ReturnStmt:
		if x.fn.void {
			if len(v.Results) != 0 {
				x.fail(v, "return with a value in a function without result")
			}
			return x.cur
		}
		if len(v.Results) != 1 {
			x.fail(v, "return with %d values", len(v.Results))
		}
		if c, ok := v.Results[0].(*ast.CallExpr); ok {
			if term, void, _, ok := x.call(c); ok {
				if void {
					x.fail(v, "return of a call without result")
				}
				return term
			}
		}
		return "(" + x.cur + ", " + x.expr(v.Results[0]) + ")"
	case *ast.ExprStmt:
		c, ok := v.X.(*ast.CallExpr)
		if !ok {
			x.fail(v, "unsupported expression statement")
		}
		term, void, canCrash, ok := x.call(c)
		if !ok {
			x.fail(v, "call of a function that is not translated")
		}
		n := x.next()
		var b bytes.Buffer
		if void {
			fmt.Fprintf(&b, "let %s := %s in\n  ", n, term)
		} else {
			fmt.Fprintf(&b, "let '(%s, _) := %s in\n  ", n, term)
		}
		x.cur = n
		if canCrash {
			prop := "(" + n + ", nbt_scanError)"
			if x.fn.void {
				prop = n
			}
			return b.String() + "if crashed " + n + " then " + prop + " else\n  " + x.stmts(rest, at)
		}
		return b.String() + x.stmts(rest, at)
	case *ast.AssignStmt:
		if len(v.Lhs) != 1 || len(v.Rhs) != 1 {
			x.fail(v, "unsupported assignment (several targets)")
		}
		lhs, rhs := v.Lhs[0], v.Rhs[0]
		// s.field = e
		if f, k, ok := x.field(lhs); ok {
			if v.Tok != token.ASSIGN {
				x.fail(v, "unsupported assignment operator on a scanner field")
			}
			switch k {
			case "state":
				id, ok := rhs.(*ast.Ident)
				if !ok {
					x.fail(v, "the state field is assigned something that is not a function name")
				}
				fn, ok := x.fns[id.Name]
				if !ok || !fn.isState {
					x.fail(v, "%s is not a state function", id.Name)
				}
				return x.set(f, "St_"+id.Name) + x.stmts(rest, at)
			case "bool":
				return x.set(f, x.expr(rhs)) + x.stmts(rest, at)
			case "text":
				d, ne := x.strNonEmpty(rhs)
				if !d {
					x.fail(v, "cannot decide whether the string assigned to %s is empty", f)
				}
				val := "false"
				if ne {
					val = "true"
				}
				return x.set(f, val) + x.stmts(rest, at)
			case "stack":
				// append(s.f, e)
				if c, ok := rhs.(*ast.CallExpr); ok {
					if id, ok := c.Fun.(*ast.Ident); ok && id.Name == "append" && len(c.Args) == 2 && c.Ellipsis == token.NoPos {
						if f2, _, ok := x.field(c.Args[0]); ok && f2 == f {
							return x.set(f, "("+f+" "+x.cur+" ++ ["+x.expr(c.Args[1])+"])") + x.stmts(rest, at)
						}
					}
				}
				// s.f[lo:hi]
				if sl, ok := rhs.(*ast.SliceExpr); ok && !sl.Slice3 {
					if f2, _, ok := x.field(sl.X); ok && f2 == f {
						if constZero(x.info, sl.Low) && sl.High != nil && constZero(x.info, sl.High) {
							return x.set(f, "(@nil Z)") + x.stmts(rest, at)
						}
						lo, hi := "(0)", "(sl_len ("+f+" "+x.cur+"))"
						if sl.Low != nil {
							lo = x.expr(sl.Low)
						}
						if sl.High != nil {
							hi = x.expr(sl.High)
						}
						old := x.cur
						cr := x.crashVal()
						body := x.set(f, "(sl_slice ("+f+" "+old+") "+lo+" "+hi+")") + x.stmts(rest, at)
						return "if sl_ok (" + f + " " + old + ") " + lo + " " + hi + "\n  then " + body + "\n  else " + cr
					}
				}
				x.fail(v, "unsupported value assigned to the stack field %s", f)
			}
		}
		// s.f[i] = e
		if ix, ok := lhs.(*ast.IndexExpr); ok {
			if f, k, ok := x.field(ix.X); ok && k == "stack" && v.Tok == token.ASSIGN {
				old := x.cur
				idx, val := x.expr(ix.Index), x.expr(rhs)
				cr := x.crashVal()
				body := x.set(f, "(sl_set ("+f+" "+old+") "+idx+" "+val+")") + x.stmts(rest, at)
				return "if sl_in (" + f + " " + old + ") " + idx + "\n  then " + body + "\n  else " + cr
			}
			x.fail(v, "unsupported indexed assignment")
		}
		id, ok := lhs.(*ast.Ident)
		if !ok || v.Tok != token.DEFINE {
			x.fail(v, "unsupported assignment")
		}
		// x := s.f[i]
		if ix, ok := rhs.(*ast.IndexExpr); ok {
			if f, k, ok := x.field(ix.X); ok && k == "stack" {
				idx := x.expr(ix.Index)
				cr := x.crashVal()
				nm := x.t.define(id.Name)
				body := fmt.Sprintf("let %s := sl_get (%s %s) %s in\n  ", nm, f, x.cur, idx) + x.stmts(rest, at)
				return "if sl_in (" + f + " " + x.cur + ") " + idx + "\n  then " + body + "\n  else " + cr
			}
			x.fail(v, "unsupported index expression")
		}
		if tv, ok := x.info.Types[rhs]; !ok || tv.Type == nil {
			x.fail(v, "untyped right-hand side")
		} else if _, e := coqType(tv.Type); e != nil {
			x.fail(v, "local of unsupported type %v", tv.Type)
		}
		val := x.expr(rhs)
		return fmt.Sprintf("let %s := %s in\n  ", x.t.define(id.Name), val) + x.stmts(rest, at)
	case *ast.IfStmt:
		if v.Init != nil {
			x.fail(v, "if with init statement")
		}
		cond := x.expr(v.Cond)
		x.t.push()
		after := append([]ast.Stmt{&popMarker{}}, rest...)
		sc, _ := x.t.snapshot()
		cur := x.cur
		a := x.stmts(append([]ast.Stmt{v.Body}, after...), at)
		x.t.scopes, x.cur = sc, cur
		var b string
		if v.Else != nil {
			b = x.stmts(append([]ast.Stmt{v.Else}, after...), at)
		} else {
			b = x.stmts(after, at)
		}
		return "if " + cond + "\n  then " + a + "\n  else " + b
	case *ast.SwitchStmt:
		if v.Init != nil {
			x.fail(v, "switch with init statement")
		}
		var tag string
		if v.Tag != nil {
			tag = x.expr(v.Tag)
		}
		var def *ast.CaseClause
		var clauses []*ast.CaseClause
		for _, c := range v.Body.List {
			cc := c.(*ast.CaseClause)
			for _, st := range cc.Body {
				if br, ok := st.(*ast.BranchStmt); ok {
					x.fail(br, "unsupported branch statement in switch")
				}
			}
			if cc.List == nil {
				if def != nil {
					x.fail(cc, "two default clauses")
				}
				def = cc
			} else {
				clauses = append(clauses, cc)
			}
		}
		var b bytes.Buffer
		for _, cc := range clauses {
			var cs []string
			for _, e := range cc.List {
				if v.Tag != nil {
					cs = append(cs, "("+tag+" =? "+x.expr(e)+")")
				} else {
					cs = append(cs, x.expr(e))
				}
			}
			cond := cs[0]
			for _, c := range cs[1:] {
				cond = "(" + cond + " || " + c + ")"
			}
			sc, _ := x.t.snapshot()
			cur := x.cur
			body := x.stmts(append([]ast.Stmt{&ast.BlockStmt{List: cc.Body}}, rest...), at)
			x.t.scopes, x.cur = sc, cur
			fmt.Fprintf(&b, "if %s\n  then %s\n  else ", cond, body)
		}
		if def != nil {
			b.WriteString(x.stmts(append([]ast.Stmt{&ast.BlockStmt{List: def.Body}}, rest...), at))
		} else {
			b.WriteString(x.stmts(rest, at))
		}
		return b.String()
	}
	x.fail(s, "unsupported statement %T", s)
	return ""
}

// isScannerPtr: *scanner
func isScannerPtr(e ast.Expr) bool {
	st, ok := e.(*ast.StarExpr)
	if !ok {
		return false
	}
	id, ok := st.X.(*ast.Ident)
	return ok && id.Name == scannerType
}

func isIdent(e ast.Expr, name string) bool {
	id, ok := e.(*ast.Ident)
	return ok && id.Name == name
}

// isStateSig: func(*scanner, byte) int
func isStateSig(ft *ast.FuncType) bool {
	if ft.Params == nil || ft.Results == nil || len(ft.Results.List) != 1 || len(ft.Results.List[0].Names) > 1 || !isIdent(ft.Results.List[0].Type, "int") {
		return false
	}
	var tys []ast.Expr
	for _, p := range ft.Params.List {
		n := len(p.Names)
		if n == 0 {
			n = 1
		}
		for i := 0; i < n; i++ {
			tys = append(tys, p.Type)
		}
	}
	return len(tys) == 2 && isScannerPtr(tys[0]) && isIdent(tys[1], "byte")
}

func asciiList(s string) string {
	var ps []string
	for _, c := range []byte(s) {
		ps = append(ps, fmt.Sprintf("%d", c))
	}
	return "[" + strings.Join(ps, "; ") + "]"
}

func genScanner(repo string) (out string, err error) {
	defer func() {
		if r := recover(); r != nil {
			if te, ok := r.(trErr); ok {
				err = te
				return
			}
			panic(r)
		}
	}()
	fset := token.NewFileSet()
	files, _, e := parseDir(fset, filepath.Join(repo, "nbt"))
	if e != nil {
		return "", e
	}
	conf := types.Config{Importer: &fakeImporter{map[string]*types.Package{}}, Error: func(error) {}}
	info := &types.Info{Types: map[ast.Expr]types.TypeAndValue{}, Defs: map[*ast.Ident]types.Object{}, Uses: map[*ast.Ident]types.Object{}}
	conf.Check("nbt", fset, files, info)
	var file *ast.File
	for _, f := range files {
		if filepath.Base(fset.Position(f.Pos()).Filename) == scannerFile {
			file = f
		}
	}
	if file == nil {
		return "", fmt.Errorf("nbt/%s not found", scannerFile)
	}
	// character classes translated by funcs.go
	known := map[string]*knownFn{}
	for _, sp := range fnSpecs {
		if sp.dir == "nbt" && sp.recv == "" && len(sp.locals) == 0 {
			known[sp.name] = &knownFn{cname: "nbt_" + sp.name, nres: 1}
		}
	}
	x := &sx{info: info, fields: map[string]string{}, fns: map[string]*scFn{}}
	failAt := func(n ast.Node, f string, a ...any) {
		panic(trErr{fmt.Sprintf("%s: %s", fset.Position(n.Pos()), fmt.Sprintf(f, a...))})
	}
	// ---- the struct
	var found bool
	for _, d := range file.Decls {
		gd, ok := d.(*ast.GenDecl)
		if !ok || gd.Tok != token.TYPE {
			continue
		}
		for _, sp := range gd.Specs {
			ts := sp.(*ast.TypeSpec)
			if ts.Name.Name != scannerType {
				failAt(ts, "unexpected type declaration %s in %s", ts.Name.Name, scannerFile)
			}
			st, ok := ts.Type.(*ast.StructType)
			if !ok {
				failAt(ts, "%s is not a struct", scannerType)
			}
			found = true
			for _, f := range st.Fields.List {
				kind := ""
				switch ty := f.Type.(type) {
				case *ast.FuncType:
					if isStateSig(ty) {
						kind = "state"
					}
				case *ast.ArrayType:
					if ty.Len == nil && isIdent(ty.Elt, "int") {
						kind = "stack"
					}
				case *ast.Ident:
					switch ty.Name {
					case "string":
						kind = "text"
					case "bool":
						kind = "bool"
					}
				}
				if kind == "" || len(f.Names) == 0 {
					failAt(f, "scanner field of unsupported type")
				}
				for _, n := range f.Names {
					x.fields[n.Name] = kind
					x.forder = append(x.forder, n.Name)
				}
			}
		}
	}
	if !found {
		return "", fmt.Errorf("type %s not found in %s", scannerType, scannerFile)
	}
	nState := 0
	for _, f := range x.forder {
		if x.fields[f] == "state" {
			nState++
		}
	}
	if nState != 1 {
		return "", fmt.Errorf("%s has %d function fields (exactly one expected)", scannerType, nState)
	}
	// ---- the functions
	var order []*scFn
	var states []string
	for _, d := range file.Decls {
		fd, ok := d.(*ast.FuncDecl)
		if !ok {
			continue
		}
		if fd.Body == nil {
			failAt(fd, "function without body")
		}
		fn := &scFn{fd: fd, name: fd.Name.Name}
		if fd.Recv != nil {
			if len(fd.Recv.List) != 1 || !isScannerPtr(fd.Recv.List[0].Type) || len(fd.Recv.List[0].Names) != 1 {
				failAt(fd, "method with an unexpected receiver")
			}
			fn.key = scannerType + "." + fn.name
			fn.cname = "nbt_" + scannerType + "_" + fn.name
			fn.sname = fd.Recv.List[0].Names[0].Name
		} else {
			ps := fd.Type.Params.List
			if len(ps) == 0 || !isScannerPtr(ps[0].Type) {
				// not a scanner function: a character class of funcs.go, or a text helper
				if _, ok := known[fn.name]; ok {
					continue
				}
				if fd.Type.Results != nil && len(fd.Type.Results.List) == 1 && isIdent(fd.Type.Results.List[0].Type, "string") {
					continue
				}
				failAt(fd, "function %s neither takes the scanner, nor is a character class translated by funcs.go, nor returns text", fn.name)
			}
			if len(ps[0].Names) > 1 {
				failAt(fd, "several scanner parameters")
			}
			fn.key = fn.name
			fn.cname = "nbt_" + fn.name
			fn.sname = "s"
			if len(ps[0].Names) == 1 && ps[0].Names[0].Name != "_" {
				fn.sname = ps[0].Names[0].Name
			}
			fn.isState = isStateSig(fd.Type)
			if fn.isState {
				states = append(states, fn.name)
			}
		}
		switch {
		case fd.Type.Results == nil || len(fd.Type.Results.List) == 0:
			fn.void = true
		case len(fd.Type.Results.List) == 1 && len(fd.Type.Results.List[0].Names) == 0 && isIdent(fd.Type.Results.List[0].Type, "int"):
		default:
			failAt(fd, "unsupported result type of %s", fn.name)
		}
		x.fns[fn.key] = fn
		order = append(order, fn)
	}
	if len(states) == 0 {
		return "", fmt.Errorf("no state function found in %s", scannerFile)
	}
	// ---- call graph, crash sources
	for _, fn := range order {
		x.fn = fn
		seen := map[string]bool{}
		ast.Inspect(fn.fd.Body, func(n ast.Node) bool {
			switch v := n.(type) {
			case *ast.CallExpr:
				switch f := v.Fun.(type) {
				case *ast.Ident:
					if c, ok := x.fns[f.Name]; ok && c.fd.Recv == nil && !seen[c.key] {
						seen[c.key] = true
						fn.callees = append(fn.callees, c.key)
					}
				case *ast.SelectorExpr:
					if x.isS(f.X) {
						if c, ok := x.fns[scannerType+"."+f.Sel.Name]; ok {
							if !seen[c.key] {
								seen[c.key] = true
								fn.callees = append(fn.callees, c.key)
							}
						} else if x.fields[f.Sel.Name] == "state" {
							fn.usesDsp = true
						}
					}
				}
			case *ast.IndexExpr:
				fn.ownCr = true
			case *ast.SliceExpr:
				if !(constZero(info, v.Low) && v.High != nil && constZero(info, v.High)) {
					fn.ownCr = true
				}
			}
			return true
		})
	}
	// topological order: callees first; functions that call through the state field after the dispatcher
	var sorted []*scFn
	mark := map[string]int{}
	var visit func(fn *scFn, path []string)
	visit = func(fn *scFn, path []string) {
		switch mark[fn.key] {
		case 2:
			return
		case 1:
			panic(trErr{fmt.Sprintf("nbt/%s: recursive calls among scanner functions: %s", scannerFile, strings.Join(append(path, fn.key), " -> "))})
		}
		mark[fn.key] = 1
		for _, c := range fn.callees {
			visit(x.fns[c], append(path, fn.key))
		}
		mark[fn.key] = 2
		sorted = append(sorted, fn)
	}
	for _, fn := range order {
		visit(fn, nil)
	}
	needDsp := map[string]bool{}
	for _, fn := range sorted { // callees come first, so one pass propagates
		if fn.usesDsp {
			needDsp[fn.key] = true
		}
		for _, c := range fn.callees {
			if needDsp[c] {
				needDsp[fn.key] = true
			}
		}
		fn.crash = fn.ownCr || fn.usesDsp
		for _, c := range fn.callees {
			if x.fns[c].crash {
				fn.crash = true
			}
		}
		if needDsp[fn.key] && fn.isState {
			failAt(fn.fd, "state function %s calls through the state field (the dispatcher would be recursive)", fn.name)
		}
	}
	// ---- translate
	reserved := []string{"wrap_s", "wrap_u", "Z", "bool", "true", "false", "negb", "fst", "snd", "if", "then", "else", "let", "in", "fun", "at", "as", "end", "match", "with", "return", "Type", "Set", "Prop", "forall", "exists",
		"scanner", "sstate", "mkScanner", "crashed", "set_crashed", "scan_dispatch", "sstate_name", "all_sstates", "sl_len", "sl_get", "sl_in", "sl_set", "sl_upd", "sl_ok", "sl_slice", "nil", "cons", "list", "length", "nth", "firstn", "skipn"}
	for _, f := range x.forder {
		reserved = append(reserved, f, "set_"+f)
	}
	translate := func(fn *scFn) {
		t := &trans{fset: fset, info: info, prefix: "nbt", used: map[string]int{}, freeSet: map[string]bool{}, known: known, ctype: map[string]string{}, declared: map[string]bool{}}
		t.push()
		for _, r := range reserved {
			t.used[r] = 1
		}
		for _, f := range x.fns {
			t.used[f.cname] = 1
		}
		x.t, x.fn = t, fn
		x.cur = t.define(fn.sname)
		binders := []string{"(" + x.cur + " : scanner)"}
		ps := fn.fd.Type.Params.List
		if fn.fd.Recv == nil {
			ps = ps[1:]
		}
		for i, p := range ps {
			names := p.Names
			if len(names) == 0 {
				names = []*ast.Ident{{Name: fmt.Sprintf("arg%d", i)}}
			}
			for _, n := range names {
				if isIdent(p.Type, "string") {
					continue // text only
				}
				tv, ok := info.Types[p.Type]
				if !ok {
					failAt(p, "untyped parameter of %s", fn.name)
				}
				ct, e := coqType(tv.Type)
				if e != nil {
					failAt(p, "%s: parameter %s: %v", fn.name, n.Name, e)
				}
				nm := n.Name
				if nm == "_" {
					nm = fmt.Sprintf("arg%d", i)
				}
				binders = append(binders, "("+t.define(nm)+" : "+ct+")")
			}
		}
		rt := "scanner * Z"
		if fn.void {
			rt = "scanner"
		}
		body := x.stmts(fn.fd.Body.List, fn.fd)
		if len(t.free) > 0 {
			failAt(fn.fd, "%s: free variables %v", fn.name, t.free)
		}
		what := "func " + fn.name
		if fn.fd.Recv != nil {
			what = "method " + scannerType + "." + fn.name // no "(*" here: it would open a Coq comment
		}
		fn.text = fmt.Sprintf("(* nbt/%s, %s *)\nDefinition %s %s : %s :=\n  %s.\n\n", scannerFile, what, fn.cname, strings.Join(binders, " "), rt, body)
	}

	var b bytes.Buffer
	b.WriteString("(* GENERATED by tools/gotrans (scanner.go) from nbt/" + scannerFile + " of the repository working tree - do not edit *)\n")
	b.WriteString("From Coq Require Import ZArith Bool List.\nFrom GoMC Require Import Base.GoInt Gen.Consts Gen.Funcs.\nLocal Open Scope Z_scope.\nLocal Open Scope bool_scope.\nImport ListNotations.\n\n")
	b.WriteString("(* Go slices of int as lists in Go order; the guards are the run-time checks of the language *)\n")
	b.WriteString("Definition sl_len (l : list Z) : Z := Z.of_nat (length l).\n")
	b.WriteString("Definition sl_get (l : list Z) (i : Z) : Z := nth (Z.to_nat i) l 0.\n")
	b.WriteString("Definition sl_in (l : list Z) (i : Z) : bool := (0 <=? i) && (i <? sl_len l).\n")
	b.WriteString("Fixpoint sl_upd (l : list Z) (i : nat) (v : Z) : list Z :=\n  match l, i with\n  | [], _ => []\n  | _ :: r, O => v :: r\n  | a :: r, S k => a :: sl_upd r k v\n  end.\n")
	b.WriteString("Definition sl_set (l : list Z) (i v : Z) : list Z := sl_upd l (Z.to_nat i) v.\n")
	b.WriteString("Definition sl_ok (l : list Z) (lo hi : Z) : bool := (0 <=? lo) && (lo <=? hi) && (hi <=? sl_len l).\n")
	b.WriteString("Definition sl_slice (l : list Z) (lo hi : Z) : list Z := firstn (Z.to_nat (hi - lo)) (skipn (Z.to_nat lo) l).\n\n")
	b.WriteString("(* one constructor per state function (scanner pointer, byte) -> int of nbt/" + scannerFile + " *)\nInductive sstate : Type :=\n")
	for _, s := range states {
		b.WriteString("| St_" + s + "\n")
	}
	b.WriteString(".\n\nDefinition all_sstates : list sstate := [")
	for i, s := range states {
		if i > 0 {
			b.WriteString("; ")
		}
		b.WriteString("St_" + s)
	}
	b.WriteString("].\n\nDefinition sstate_name (st : sstate) : list Z :=\n  match st with\n")
	for _, s := range states {
		fmt.Fprintf(&b, "  | St_%s => %s\n", s, asciiList(s))
	}
	b.WriteString("  end.\n\n")
	coqKind := map[string]string{"state": "sstate", "stack": "list Z", "text": "bool", "bool": "bool"}
	b.WriteString("(* type scanner struct; a string field is kept as `is not empty`; crashed = a Go run-time panic was reached *)\nRecord scanner : Type := mkScanner {\n")
	all := append(append([]string{}, x.forder...), "crashed")
	kindOf := func(f string) string {
		if f == "crashed" {
			return "bool"
		}
		return coqKind[x.fields[f]]
	}
	for i, f := range all {
		sep := ";"
		if i == len(all)-1 {
			sep = ""
		}
		fmt.Fprintf(&b, "  %s : %s%s\n", f, kindOf(f), sep)
	}
	b.WriteString("}.\n\n")
	for _, f := range all {
		var args []string
		for _, g := range all {
			if g == f {
				args = append(args, "v")
			} else {
				args = append(args, "("+g+" s)")
			}
		}
		fmt.Fprintf(&b, "Definition set_%s (s : scanner) (v : %s) : scanner :=\n  mkScanner %s.\n", f, kindOf(f), strings.Join(args, " "))
	}
	b.WriteString("\n")
	// functions that do not need the dispatcher, then the dispatcher, then the others
	for _, fn := range sorted {
		if !needDsp[fn.key] {
			translate(fn)
			b.WriteString(fn.text)
		}
	}
	b.WriteString("(* the call s.step(s, c) *)\nDefinition scan_dispatch (st : sstate) : scanner -> Z -> scanner * Z :=\n  match st with\n")
	for _, s := range states {
		fmt.Fprintf(&b, "  | St_%s => nbt_%s\n", s, s)
	}
	b.WriteString("  end.\n\n")
	for _, fn := range sorted {
		if needDsp[fn.key] {
			translate(fn)
			b.WriteString(fn.text)
		}
	}
	// the names the hand-written files rely on
	var keys []string
	for k := range x.fns {
		keys = append(keys, k)
	}
	sort.Strings(keys)
	b.WriteString("(* translated: " + strings.Join(keys, ", ") + " *)\n")
	return b.String(), nil
}

// emitScanner is the one call main makes: Gen/Scanner.v
func emitScanner(repo, outdir string) error {
	s, err := genScanner(repo)
	if err != nil {
		return err
	}
	if err := writeIfChanged(filepath.Join(outdir, "Scanner.v"), s); err != nil {
		return err
	}
	l, err := genLiteral(repo)
	if err != nil {
		return err
	}
	return writeIfChanged(filepath.Join(outdir, "Literal.v"), l)
}

// ------------------------------------------------------------------------------------------------------------
// The literal classifier: the `default:` clause (unquoted tokens) of parseLiteral in nbt/snbt_decode.go, written
// to coq/Gen/Literal.v.
//
// What is translated: the flag loop `for i, c := range literal { ... }` statement by statement through funcs.go
// (a structural recursion over the bytes of the token, the loop variables carried as arguments; `continue` is
// accepted only in tail position of the loop body, where it means the same as falling off its end), and the
// decision tree after the loop.  The decision tree's leaves must have one of these shapes exactly:
//
//	num, err := strconv.ParseInt(string(literal[:strlen]), 10, N); return TagX, intN(num) | num, err
//	num, err := strconv.ParseFloat(string(literal[:strlen]), N);   return TagX, floatN(num) | num, err
//	return TagString, string(literal), nil
//	panic(...)                                   (also: falling out of a switch without default, then the final panic)
//
// and become (tag, conv, bits, cast, strlen): conv 1 = ParseInt, 2 = ParseFloat, 0 = the token itself, 3 = panic;
// bits = the bit size handed to strconv; cast = the width of the conversion applied to the number (64 = none).
// A case clause whose body is only `fallthrough` is merged into the clause that follows it.
const literalFile = "snbt_decode.go"

func tailStmts(list []ast.Stmt, out map[ast.Stmt]bool) {
	if len(list) == 0 {
		return
	}
	last := list[len(list)-1]
	out[last] = true
	switch v := last.(type) {
	case *ast.BlockStmt:
		tailStmts(v.List, out)
	case *ast.IfStmt:
		tailStmts(v.Body.List, out)
		if v.Else != nil {
			tailStmts([]ast.Stmt{v.Else}, out)
		}
	}
}

func genLiteral(repo string) (out string, err error) {
	defer func() {
		if r := recover(); r != nil {
			if te, ok := r.(trErr); ok {
				err = te
				return
			}
			panic(r)
		}
	}()
	fset := token.NewFileSet()
	files, _, e := parseDir(fset, filepath.Join(repo, "nbt"))
	if e != nil {
		return "", e
	}
	conf := types.Config{Importer: &fakeImporter{map[string]*types.Package{}}, Error: func(error) {}}
	info := &types.Info{Types: map[ast.Expr]types.TypeAndValue{}, Defs: map[*ast.Ident]types.Object{}, Uses: map[*ast.Ident]types.Object{}}
	conf.Check("nbt", fset, files, info)
	fd := findFunc(files, "", "parseLiteral")
	if fd == nil || fd.Body == nil {
		return "", fmt.Errorf("nbt: func parseLiteral not found")
	}
	failAt := func(n ast.Node, f string, a ...any) {
		panic(trErr{fmt.Sprintf("%s: %s", fset.Position(n.Pos()), fmt.Sprintf(f, a...))})
	}
	if filepath.Base(fset.Position(fd.Pos()).Filename) != literalFile {
		failAt(fd, "parseLiteral is not in %s", literalFile)
	}
	ps := fd.Type.Params.List
	if len(ps) != 1 || len(ps[0].Names) != 1 {
		failAt(fd, "parseLiteral: unexpected parameters")
	}
	if at, ok := ps[0].Type.(*ast.ArrayType); !ok || at.Len != nil || !isIdent(at.Elt, "byte") {
		failAt(fd, "parseLiteral: the parameter is not a []byte")
	}
	lit := ps[0].Names[0].Name
	// body = switch literal[0] { case '"', '\'': ...  default: ... } ; panic(...)
	if len(fd.Body.List) != 2 {
		failAt(fd, "parseLiteral: body is not `switch literal[0] {...}; panic(...)`")
	}
	sw, ok := fd.Body.List[0].(*ast.SwitchStmt)
	if !ok || sw.Init != nil || sw.Tag == nil {
		failAt(fd, "parseLiteral: first statement is not a switch with a tag")
	}
	if ix, ok := sw.Tag.(*ast.IndexExpr); !ok || !isIdent(ix.X, lit) || !constZero(info, ix.Index) {
		failAt(sw, "parseLiteral: the switch is not on %s[0]", lit)
	}
	isPanic := func(s ast.Stmt) bool {
		es, ok := s.(*ast.ExprStmt)
		if !ok {
			return false
		}
		c, ok := es.X.(*ast.CallExpr)
		return ok && isIdent(c.Fun, "panic")
	}
	if !isPanic(fd.Body.List[1]) {
		failAt(fd.Body.List[1], "parseLiteral: the statement after the switch is not a panic")
	}
	var def *ast.CaseClause
	var quoted []string
	for _, c := range sw.Body.List {
		cc := c.(*ast.CaseClause)
		if cc.List == nil {
			def = cc
			continue
		}
		for _, e := range cc.List {
			tv := info.Types[e]
			if tv.Value == nil || tv.Value.Kind() != constant.Int {
				failAt(e, "parseLiteral: non-constant case label")
			}
			quoted = append(quoted, tv.Value.ExactString())
		}
	}
	if def == nil {
		failAt(sw, "parseLiteral: no default clause")
	}
	sort.Strings(quoted)

	known := map[string]*knownFn{}
	for _, sp := range fnSpecs {
		if sp.dir == "nbt" && sp.recv == "" && len(sp.locals) == 0 {
			known[sp.name] = &knownFn{cname: "nbt_" + sp.name, nres: 1}
		}
	}
	t := &trans{fset: fset, info: info, prefix: "nbt", used: map[string]int{}, freeSet: map[string]bool{}, known: known, ctype: map[string]string{}, declared: map[string]bool{}}
	t.push()
	for _, r := range []string{"wrap_s", "wrap_u", "Z", "bool", "true", "false", "negb", "fst", "snd", "if", "then", "else", "let", "in", "fun", "at", "as", "end", "match", "with", "return", "Type", "Set", "Prop", "forall", "exists", "list", "length", "nil", "cons", "l", "r"} {
		t.used[r] = 1
	}
	ast.Inspect(def, func(n ast.Node) bool {
		if id, ok := n.(*ast.Ident); ok {
			if obj := info.Defs[id]; obj != nil {
				if bt, ok := obj.Type().Underlying().(*types.Basic); ok && bt.Info()&types.IsBoolean != 0 {
					t.declared[id.Name] = true
				}
			}
		}
		return true
	})
	litC := t.define(lit)
	t.ctype[litC] = "list Z"
	var aux bytes.Buffer
	var body func(list []ast.Stmt) string
	// the leaves of the decision tree
	leaf := func(tag, conv, bits, cast, strlen string) string {
		return "(" + tag + ", " + conv + ", " + bits + ", " + cast + ", " + strlen + ")"
	}
	tagName := func(e ast.Expr) string {
		id, ok := e.(*ast.Ident)
		if !ok {
			failAt(e, "parseLiteral: the tag returned is not a constant name")
		}
		if c, ok := info.Uses[id].(*types.Const); !ok || c.Parent() != c.Pkg().Scope() {
			failAt(e, "parseLiteral: %s is not a package-level constant", id.Name)
		}
		return "nbt_" + id.Name
	}
	widthOf := map[string]string{"int8": "8", "int16": "16", "int32": "32", "int64": "64", "float32": "32", "float64": "64"}
	// literal[:strlen] as the argument of string(...)
	isPrefixOfLit := func(e ast.Expr) (string, bool) {
		c, ok := e.(*ast.CallExpr)
		if !ok || !isIdent(c.Fun, "string") || len(c.Args) != 1 {
			return "", false
		}
		sl, ok := c.Args[0].(*ast.SliceExpr)
		if !ok || sl.Slice3 || sl.Low != nil || sl.High == nil || !isIdent(sl.X, lit) {
			return "", false
		}
		return t.expr(sl.High), true
	}
	// conversion leaf: [num, err := strconv.ParseX(...); return TagX, T(num), err]
	convLeaf := func(list []ast.Stmt) (string, bool) {
		if len(list) != 2 {
			return "", false
		}
		as, ok1 := list[0].(*ast.AssignStmt)
		rs, ok2 := list[1].(*ast.ReturnStmt)
		if !ok1 || !ok2 || as.Tok != token.DEFINE || len(as.Lhs) != 2 || len(as.Rhs) != 1 || len(rs.Results) != 3 {
			return "", false
		}
		num, okn := as.Lhs[0].(*ast.Ident)
		er, oke := as.Lhs[1].(*ast.Ident)
		call, okc := as.Rhs[0].(*ast.CallExpr)
		if !okn || !oke || !okc {
			return "", false
		}
		sel, ok := call.Fun.(*ast.SelectorExpr)
		if !ok || !isIdent(sel.X, "strconv") {
			return "", false
		}
		var conv, bits string
		switch sel.Sel.Name {
		case "ParseInt":
			if len(call.Args) != 3 {
				return "", false
			}
			if tv := info.Types[call.Args[1]]; tv.Value == nil || tv.Value.ExactString() != "10" {
				failAt(call, "parseLiteral: ParseInt with a base other than 10")
			}
			conv = "1"
			bits = t.expr(call.Args[2])
		case "ParseFloat":
			if len(call.Args) != 2 {
				return "", false
			}
			conv = "2"
			bits = t.expr(call.Args[1])
		default:
			return "", false
		}
		strlen, ok := isPrefixOfLit(call.Args[0])
		if !ok {
			failAt(call, "parseLiteral: the text converted is not string(%s[:n])", lit)
		}
		if !isIdent(rs.Results[2], er.Name) {
			failAt(rs, "parseLiteral: the error of the conversion is not returned")
		}
		cast := "64"
		switch v := rs.Results[1].(type) {
		case *ast.Ident:
			if v.Name != num.Name {
				return "", false
			}
		case *ast.CallExpr:
			id, ok := v.Fun.(*ast.Ident)
			if !ok || len(v.Args) != 1 || !isIdent(v.Args[0], num.Name) || widthOf[id.Name] == "" {
				return "", false
			}
			if (conv == "1") != strings.HasPrefix(id.Name, "int") {
				failAt(v, "parseLiteral: conversion %s of the result of %s", id.Name, sel.Sel.Name)
			}
			cast = widthOf[id.Name]
		default:
			return "", false
		}
		return leaf(tagName(rs.Results[0]), "("+conv+")", bits, "("+cast+")", strlen), true
	}
	curStrlen := func() string {
		c, ok := t.lookup("strlen")
		if !ok {
			return "(0)"
		}
		return c
	}
	panicLeaf := func() string { return leaf("(0)", "(3)", "(0)", "(0)", "(0)") }
	body = func(list []ast.Stmt) string {
		if len(list) == 0 {
			return panicLeaf() // the statement after the outer switch
		}
		if l, ok := convLeaf(list); ok {
			return l
		}
		s, rest := list[0], list[1:]
		switch v := s.(type) {
		case *ast.BlockStmt:
			return body(append(append([]ast.Stmt{}, v.List...), rest...))
		case *ast.ExprStmt:
			if isPanic(v) {
				return panicLeaf()
			}
		case *ast.ReturnStmt:
			// return TagString, string(literal), nil
			if len(v.Results) == 3 && isIdent(v.Results[2], "nil") {
				if c, ok := v.Results[1].(*ast.CallExpr); ok && isIdent(c.Fun, "string") && len(c.Args) == 1 && isIdent(c.Args[0], lit) {
					return leaf(tagName(v.Results[0]), "(0)", "(0)", "(0)", curStrlen())
				}
			}
		case *ast.IfStmt:
			if v.Init != nil {
				failAt(v, "parseLiteral: if with init statement")
			}
			cond := t.expr(v.Cond)
			a := body(append([]ast.Stmt{v.Body}, rest...))
			var b string
			if v.Else != nil {
				b = body(append([]ast.Stmt{v.Else}, rest...))
			} else {
				b = body(rest)
			}
			return "if " + cond + "\n  then " + a + "\n  else " + b
		case *ast.SwitchStmt:
			if v.Init != nil || v.Tag == nil {
				failAt(v, "parseLiteral: unsupported switch")
			}
			tag := t.expr(v.Tag)
			var b bytes.Buffer
			var pending []ast.Expr // labels of clauses that only fall through
			var def *ast.CaseClause
			n := len(v.Body.List)
			for i, c := range v.Body.List {
				cc := c.(*ast.CaseClause)
				onlyFall := len(cc.Body) == 1
				if onlyFall {
					br, ok := cc.Body[0].(*ast.BranchStmt)
					onlyFall = ok && br.Tok == token.FALLTHROUGH
				}
				if onlyFall {
					if cc.List == nil || i == n-1 {
						failAt(cc, "parseLiteral: unsupported fallthrough")
					}
					pending = append(pending, cc.List...)
					continue
				}
				for _, st := range cc.Body {
					if _, ok := st.(*ast.BranchStmt); ok {
						failAt(st, "parseLiteral: unsupported branch statement")
					}
				}
				if cc.List == nil {
					def = cc // labels that fell through to the default clause are caught by it anyway
					pending = nil
					continue
				}
				labels := append(pending, cc.List...)
				pending = nil
				var cs []string
				for _, e := range labels {
					cs = append(cs, "("+tag+" =? "+t.expr(e)+")")
				}
				cond := cs[0]
				for _, c := range cs[1:] {
					cond = "(" + cond + " || " + c + ")"
				}
				fmt.Fprintf(&b, "if %s\n  then %s\n  else ", cond, body(append(append([]ast.Stmt{}, cc.Body...), rest...)))
			}
			if len(pending) > 0 {
				failAt(v, "parseLiteral: fallthrough into nothing")
			}
			if def != nil {
				if i := len(v.Body.List) - 1; v.Body.List[i] != ast.Stmt(def) {
					failAt(def, "parseLiteral: default clause is not the last one")
				}
				b.WriteString(body(append(append([]ast.Stmt{}, def.Body...), rest...)))
			} else {
				b.WriteString(body(rest))
			}
			return b.String()
		}
		failAt(s, "parseLiteral: unsupported statement %T after the loop", s)
		return ""
	}

	// the clause: declarations, the range loop, the decision tree
	var pre bytes.Buffer
	list := def.Body
	k := 0
	for ; k < len(list); k++ {
		switch v := list[k].(type) {
		case *ast.AssignStmt:
			if v.Tok != token.DEFINE || len(v.Lhs) != 1 || len(v.Rhs) != 1 {
				failAt(v, "parseLiteral: unsupported declaration")
			}
			id := v.Lhs[0].(*ast.Ident)
			var val string
			if c, ok := v.Rhs[0].(*ast.CallExpr); ok && isIdent(c.Fun, "len") && len(c.Args) == 1 && isIdent(c.Args[0], lit) {
				val = "(Z.of_nat (length " + litC + "))"
			} else {
				val = t.expr(v.Rhs[0])
			}
			fmt.Fprintf(&pre, "let %s := %s in\n  ", t.define(id.Name), val)
			continue
		case *ast.DeclStmt:
			gd, ok := v.Decl.(*ast.GenDecl)
			if !ok || gd.Tok != token.VAR {
				failAt(v, "parseLiteral: unsupported declaration")
			}
			for _, sp := range gd.Specs {
				vs := sp.(*ast.ValueSpec)
				if len(vs.Values) != 0 {
					failAt(vs, "parseLiteral: var with initialiser")
				}
				for _, n := range vs.Names {
					z := "(0)"
					if t.declared[n.Name] {
						z = "false"
					} else if _, e := coqType(info.Defs[n].Type()); e != nil {
						failAt(n, "parseLiteral: %v", e)
					}
					fmt.Fprintf(&pre, "let %s := %s in\n  ", t.define(n.Name), z)
				}
			}
			continue
		}
		break
	}
	if k >= len(list) {
		failAt(def, "parseLiteral: no loop in the default clause")
	}
	rg, ok := list[k].(*ast.RangeStmt)
	if !ok || rg.Tok != token.DEFINE || !isIdent(rg.X, lit) || rg.Key == nil || rg.Value == nil {
		failAt(list[k], "parseLiteral: expected `for i, c := range %s`", lit)
	}
	iv, cv := rg.Key.(*ast.Ident), rg.Value.(*ast.Ident)
	// continue only in tail position; no other way out of the body
	tails := map[ast.Stmt]bool{}
	tailStmts(rg.Body.List, tails)
	ast.Inspect(rg.Body, func(n ast.Node) bool {
		switch v := n.(type) {
		case *ast.BranchStmt:
			if v.Tok != token.CONTINUE || v.Label != nil || !tails[v] {
				failAt(v, "parseLiteral: %s that is not a plain continue in tail position of the loop body", v.Tok)
			}
		case *ast.ReturnStmt, *ast.ForStmt, *ast.RangeStmt, *ast.GoStmt, *ast.DeferStmt, *ast.SwitchStmt:
			failAt(n, "parseLiteral: unsupported statement inside the loop")
		case *ast.BlockStmt:
			for i, st := range v.List {
				if br, ok := st.(*ast.BranchStmt); ok && br.Tok == token.CONTINUE {
					v.List[i] = &ast.EmptyStmt{Semicolon: br.Pos()} // tail position: same as the end of the body
				}
			}
		}
		return true
	})
	as := map[string]bool{}
	t.assigned(rg.Body.List, as)
	if as[iv.Name] || as[cv.Name] || as[lit] {
		failAt(rg, "parseLiteral: the loop assigns its own variables")
	}
	var state []string
	for n := range as {
		if _, ok := t.lookup(n); !ok {
			failAt(rg, "parseLiteral: the loop assigns %s, which is not declared before it", n)
		}
		state = append(state, n)
	}
	sort.Strings(state)
	var outer []string
	for _, n := range state {
		c, _ := t.lookup(n)
		outer = append(outer, c)
	}
	loop := "nbt_parseLiteral_loop"
	t.used[loop] = 1
	t.push()
	restName, listName := t.fresh("rest"), t.fresh("bytes")
	iF, cF := t.define(iv.Name), t.define(cv.Name)
	var formals []string
	for _, n := range state {
		formals = append(formals, t.assign(rg, n))
	}
	t.fall = func() string {
		var cur []string
		for _, n := range state {
			c, _ := t.lookup(n)
			cur = append(cur, c)
		}
		return "(" + loop + " " + restName + " (" + iF + " + 1) " + strings.Join(cur, " ") + ")"
	}
	lb := t.stmts(append([]ast.Stmt{}, rg.Body.List...), rg)
	t.fall = nil
	t.pop()
	if len(t.free) > 0 {
		failAt(rg, "parseLiteral: free variables %v in the loop", t.free)
	}
	var formB, tys []string
	for i, f := range formals {
		ty := "Z"
		if t.declared[state[i]] {
			ty = "bool"
		}
		formB = append(formB, "("+f+" : "+ty+")")
		tys = append(tys, ty)
	}
	fmt.Fprintf(&aux, "(* nbt/%s, func parseLiteral: the loop `for %s, %s := range %s` of the default clause; state: %s *)\n", literalFile, iv.Name, cv.Name, lit, strings.Join(state, ", "))
	fmt.Fprintf(&aux, "Fixpoint %s (%s : list Z) (%s : Z) %s {struct %s} : %s :=\n  match %s with\n  | [] => %s\n  | %s :: %s => %s\n  end.\n\n",
		loop, listName, iF, strings.Join(formB, " "), listName, strings.Join(tys, " * "), listName, tuple(formals), cF, restName, lb)
	var after []string
	for _, n := range state {
		after = append(after, t.assign(rg, n))
	}
	pat := after[0]
	if len(after) > 1 {
		pat = "'(" + strings.Join(after, ", ") + ")"
	}
	tree := body(list[k+1:])
	if len(t.free) > 0 {
		failAt(def, "parseLiteral: free variables %v", t.free)
	}
	var b bytes.Buffer
	b.WriteString("(* GENERATED by tools/gotrans (scanner.go) from nbt/" + literalFile + " of the repository working tree - do not edit *)\n")
	b.WriteString("From Coq Require Import ZArith Bool List.\nFrom GoMC Require Import Base.GoInt Gen.Consts Gen.Funcs.\nLocal Open Scope Z_scope.\nLocal Open Scope bool_scope.\nImport ListNotations.\n\n")
	b.WriteString(aux.String())
	fmt.Fprintf(&b, "(* nbt/%s, func parseLiteral, the default clause of `switch %s[0]` (the other clause, labels %s, reads a\n   quoted string): result (tag, conv, bits, cast, strlen) - conv 1 = strconv.ParseInt(string(%s[:strlen]), 10, bits),\n   2 = strconv.ParseFloat(string(%s[:strlen]), bits), 0 = the token itself as a string, 3 = panic; cast = width of the\n   conversion applied to the number (64 = none) *)\n", literalFile, lit, strings.Join(quoted, " "), lit, lit)
	fmt.Fprintf(&b, "Definition nbt_parseLiteral_unquoted (%s : list Z) : Z * Z * Z * Z * Z :=\n  %slet %s := %s %s (0) %s in\n  %s.\n", litC, pre.String(), pat, loop, litC, strings.Join(outer, " "), tree)
	return b.String(), nil
}
