#!/usr/bin/env python3
"""regenerate MANIFEST.json from meta/*.json (keeps the manifest and the checks consistent)"""
import glob, json, os
ROOT = os.path.dirname(os.path.dirname(os.path.abspath(__file__)))
checks = []
claimed = set()
ready = set(json.load(open(os.path.join(ROOT, "meta", "claimed.json"))))   # ids integrated and verified quiet
for mf in sorted(glob.glob(os.path.join(ROOT, "meta", "C*.json"))):
    pid = os.path.basename(mf)[:-5]
    m = json.load(open(mf))
    if pid not in ready:
        continue
    claimed.add(pid)
    checks.append({
        "property_id": pid,
        "quick_cmd": "./check %s quick" % pid,
        "thorough_cmd": "./check %s thorough" % pid,
        "evidence_file": "evidence/%s.json" % pid,
        "replay_cmd_template": "./check %s replay {path}" % pid,
        "engine": "coq-proof+correspondence",
        "level_claimed": {"category": "proof", "text": m["level_text"], "design_ref": m.get("design_ref", "DESIGN.md section 3")},
        "level_note": m["level_note"],
        "technique": m["technique"],
    })
na_path = os.path.join(ROOT, "meta", "not_applicable.json")
na = json.load(open(na_path)) if os.path.exists(na_path) else []
na = [x for x in na if x["property_id"] not in claimed]
props = [json.loads(l)["id"] for l in open(os.path.join(ROOT, "properties.jsonl"))]
for p in props:
    if p not in claimed and not any(x["property_id"] == p for x in na):
        na.append({"property_id": p, "reason": "not yet claimed: model, theorems and correspondence check under construction (DESIGN.md section 7); no other technique is substituted"})
man = {
    "version": 1,
    "setup_cmd": "./check setup",
    "hooks": {
        "guard": "verif",
        "enable": "go build -tags verif -overlay harness/overlay/<ID>.json (add-only //go:build verif files injected through the overlay; nothing is written under /repo)",
        "baseline_off_cmd": "cd /repo && GOFLAGS=-mod=mod GOPROXY=off GOSUMDB=off GOTOOLCHAIN=local go test -vet=off -count=1 ./...",
        "source_commits": [],
        "add_only": True,
    },
    "engines": [{
        "name": "coq-proof+correspondence",
        "path": "check",
        "serves_properties": sorted(claimed),
        "kind_free_text": "Coq 8.16.1 development (coq/: Base, Gen regenerated from /repo, Model, Proofs, Props) + extracted OCaml model drivers (driver/) + Go differential harness (harness/) orchestrated by ./check",
    }],
    "checks": checks,
    "not_applicable": na,
    "notes": "See DESIGN.md. Every check regenerates coq/Gen from /repo, rebuilds the proofs, and runs the extracted model against the implementation built from /repo's working tree.",
}
json.dump(man, open(os.path.join(ROOT, "MANIFEST.json"), "w"), indent=1)
print("MANIFEST.json: %d checks, %d not_applicable" % (len(checks), len(na)))
