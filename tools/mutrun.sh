#!/bin/bash
# mutrun.sh <slot> <Cxx> <patch.diff> [tier]
# Runs ./check Cxx against a MUTATED copy of the repository without touching /repo or /verif:
#   /root/mutrun/<slot>/repo   = detached worktree of /repo's HEAD with the patch applied
#   /root/mutrun/<slot>/verif  = rsync copy of /verif (built .vo, drivers, harness) with /repo paths rewritten
# Used only for validating the checks against seeded changes while other work goes on in /verif and /repo;
# the registered checks themselves always run in /verif against /repo.
set -u
slot=$1; pid=$2; patch=$(readlink -f "$3"); tier=${4:-quick}
base=/root/mutrun/$slot
mkdir -p "$base"
if [ -d "$base/repo" ]; then git -C /repo worktree remove --force "$base/repo" >/dev/null 2>&1; rm -rf "$base/repo"; fi
git -C /repo worktree add --detach "$base/repo" HEAD -q || exit 3
if ! git -C "$base/repo" apply "$patch"; then echo "MUTRUN: patch does not apply"; git -C /repo worktree remove --force "$base/repo"; exit 4; fi
rsync -a --delete --exclude .git --exclude .work --exclude replays --exclude seeded "${VERIF_SRC:-/verif}/" "$base/verif/"
sed -i "s#=> /repo#=> $base/repo#" "$base/verif/harness/go.mod"
for f in "$base"/verif/harness/overlay/*.json; do sed -i "s#\"/repo/#\"$base/repo/#g; s#\"/verif/#\"$base/verif/#g" "$f"; done
cd "$base/verif" && VERIF_REPO="$base/repo" timeout 3000 ./check "$pid" "$tier" > "$base/out.txt" 2>&1
rc=$?
tail -4 "$base/out.txt" | cut -c1-600
echo "MUTRUN rc=$rc"
if [ $rc -ne 0 ]; then
  rp=$(grep -o 'replay=[^ ]*' "$base/out.txt" | head -1 | cut -d= -f2)
  [ -n "$rp" ] && [ -f "$rp" ] && python3 -c "
import json,sys
d=json.load(open('$rp')); print('REPLAY', d.get('kind'), d.get('klass'), (d.get('detail') or '')[:500])"
fi
git -C /repo worktree remove --force "$base/repo" >/dev/null 2>&1
exit $rc
