#!/bin/bash
# mutverify.sh <slot> <dir with patch.diff + demo_test.go> <package dir for the demo>
# Confirms a seeded change: applies to HEAD, builds, existing suite green, demo fails with / passes without.
set -u
slot=$1; d=$(readlink -f "$2"); pkg=$3
export GOFLAGS="-mod=mod -trimpath" GOPROXY=off GOSUMDB=off GOTOOLCHAIN=local
w=/root/mutrun/$slot/vrepo
mkdir -p /root/mutrun/$slot
[ -d "$w" ] && { git -C /repo worktree remove --force "$w" >/dev/null 2>&1; rm -rf "$w"; }
git -C /repo worktree add --detach "$w" HEAD -q || exit 3
cd "$w"
demo=$(ls "$d"/demo*_test.go "$d"/demo_test.go 2>/dev/null | head -1)
cp "$demo" "$pkg/zz_seeded_demo_test.go"
go test -vet=off -count=1 ./$pkg > /root/mutrun/$slot/v_nopatch.txt 2>&1; r0=$?
rm "$pkg/zz_seeded_demo_test.go"
git apply "$d/patch.diff"; ra=$?
go build ./... > /root/mutrun/$slot/v_build.txt 2>&1; rb=$?
go test -vet=off -count=1 ./... > /root/mutrun/$slot/v_suite.txt 2>&1; rs=$?
cp "$demo" "$pkg/zz_seeded_demo_test.go"
go test -vet=off -count=1 ./$pkg > /root/mutrun/$slot/v_patch.txt 2>&1; r1=$?
echo "MUTVERIFY apply=$ra build=$rb suite=$rs demo_without_patch=$r0 (want 0) demo_with_patch=$r1 (want !=0)"
cd /; git -C /repo worktree remove --force "$w" >/dev/null 2>&1
[ $ra -eq 0 ] && [ $rb -eq 0 ] && [ $rs -eq 0 ] && [ $r0 -eq 0 ] && [ $r1 -ne 0 ]
