#!/usr/bin/env python3
"""seed_store.py <src dir> <seed id> <property> <demo package dir> <needs> <caught: yes|no|after-strengthening> <how detected / what was strengthened>
copies a confirmed seeded change into /verif/seeded/<seed id>/ with meta.json"""
import json, os, shutil, sys, subprocess
src, sid, prop, pkg, needs, caught, how = sys.argv[1:8]
root = os.path.dirname(os.path.dirname(os.path.abspath(__file__)))
d = os.path.join(root, "seeded", sid)
os.makedirs(d, exist_ok=True)
for f in os.listdir(src):
    if f in ("patch.diff", "README.txt") or f.startswith("demo"):
        p = os.path.join(src, f)
        if os.path.isdir(p):
            shutil.copytree(p, os.path.join(d, f), dirs_exist_ok=True)
        else:
            shutil.copy(p, os.path.join(d, f))
head = subprocess.run(["git", "-C", "/repo", "rev-parse", "--short", "HEAD"], capture_output=True, text=True).stdout.strip()
meta = {
    "id": sid, "property": prop,
    "breaks": open(os.path.join(src, "README.txt")).read().split("\n")[0][:300],
    "needs_to_manifest": needs,
    "demo": {"file": "demo_test.go", "copy_into_package_dir": pkg, "run": "go test -vet=off -count=1 ./%s" % pkg},
    "confirmed": {"against_repo_head": head,
                  "ran": ["tools/mutverify.sh: git apply on a scratch worktree of HEAD; go build ./... ok; go test -vet=off -count=1 ./... all pass with the change; demo passes without the change and fails with it",
                          "tools/mutrun.sh: ./check %s quick against a scratch copy of /verif and a scratch worktree with the change applied" % prop]},
    "caught_by_check": caught, "detection": how,
    "origin": "written by a fresh sub-agent that saw only the property text and its own scratch worktree",
}
json.dump(meta, open(os.path.join(d, "meta.json"), "w"), indent=1)
print("stored", d)
