#!/bin/bash
# seeded_regress.sh [parallelism]: run every stored seeded change against its check (tools/mutrun.sh, scratch
# copies) and print one line per change: CAUGHT / MISSED / NOAPPLY.  A regression suite for the checks themselves.
cd /verif
P=${1:-3}
ls seeded | while read id; do
  prop=$(python3 -c "import json;print(json.load(open('/verif/seeded/$id/meta.json'))['property'])")
  echo "$id $prop"
done | xargs -P $P -L 1 bash -c '
  out=$(/verif/tools/mutrun.sh r_$0 $1 /verif/seeded/$0/patch.diff 2>&1)
  if echo "$out" | grep -q "patch does not apply"; then echo "NOAPPLY $0"
  elif echo "$out" | grep -q "MUTRUN rc=0"; then echo "MISSED  $0"
  else echo "CAUGHT  $0 :: $(echo "$out" | grep REPLAY | cut -c1-140)"; fi
  rm -rf /root/mutrun/r_$0'
