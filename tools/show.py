#!/usr/bin/env python3
# usage (from anywhere): tools/show.py <file.v relative to /verif/coq or absolute> LINE
# compiles the first LINE lines of the file followed by "Show." and prints the goals.
# The temporary file lives OUTSIDE coq/ (under .work/show) so it never enters _CoqProject.
import sys, subprocess, os
f, line = sys.argv[1], int(sys.argv[2])
if not os.path.isabs(f):
    f = os.path.join('/verif/coq', f)
src = open(f).read().split('\n')
d = '/verif/.work/show'
os.makedirs(d, exist_ok=True)
tmp = os.path.join(d, 'zz_show_%d.v' % os.getpid())
open(tmp, 'w').write('\n'.join(src[:line]) + '\nShow.\n')
p = subprocess.run(['coqc', '-Q', '/verif/coq', 'GoMC', tmp], capture_output=True, text=True)
print((p.stdout + p.stderr)[-3500:])
for e in ['.vo', '.glob', '.vok', '.vos', '.v']:
    try: os.remove(tmp[:-2] + e)
    except OSError: pass
try: os.remove(os.path.join(d, '.' + os.path.basename(tmp)[:-2] + '.aux'))
except OSError: pass
