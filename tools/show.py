#!/usr/bin/env python3
# usage: show.py file.v LINE  -> compiles the file up to LINE (inclusive) then prints goals
import sys,subprocess,os
f,line=sys.argv[1],int(sys.argv[2])
src=open(f).read().split('\n')
head='\n'.join(src[:line])+'\nShow.\n'
tmp=os.path.join(os.path.dirname(f),'zz_show_tmp.v')
open(tmp,'w').write(head)
p=subprocess.run(['coqc','-Q','.','GoMC',tmp],capture_output=True,text=True,cwd='/verif/coq')
out=p.stdout+p.stderr
print(out[-3500:])
for e in ['.vo','.glob','.vok','.vos','.v']:
    try: os.remove(tmp[:-2]+e)
    except: pass
try: os.remove(os.path.join(os.path.dirname(f),'.zz_show_tmp.aux'))
except: pass
