#!/usr/bin/env python3
"""xcheck.py <Cxx> <workdir> [max_cases]

Second opinion on extraction: a shard of the very case lines the extracted OCaml driver answered
(<workdir>/cases.txt, <workdir>/model.txt) is turned into Gallina terms, and ONE coqc call evaluates the
same model definitions inside Coq with vm_compute and compares them with what the driver printed.
A disagreement means extraction (ExtrOcamlBasic), the OCaml compiler or the hand-written driver changed the
model's behaviour.  Prints one JSON object: {"cases": n, "bad": [case line numbers], "rc": coqc exit code}.
Only the case kinds listed per property below are converted; the rest is skipped (counted in "skipped")."""
import json, os, subprocess, sys

ROOT = os.path.dirname(os.path.dirname(os.path.abspath(__file__)))
COQ = os.path.join(ROOT, "coq")


def zlit(s):
    v = int(s)
    return "(%d)%%Z" % v


def nlit(v):
    return "%d%%N" % int(v)


def bytes_of_hex(h):
    if h == "-":
        return "[]"
    return "[" + ";".join(str(int(h[i:i + 2], 16)) for i in range(0, len(h), 2)) + "]%N"


def nlist_hex(s):
    if s in ("-", "nil"):
        return "[]"
    return "[" + ";".join(str(int(x, 16)) for x in s.split(",")) + "]%N"


PRELUDE = """From Coq Require Import List ZArith NArith Bool.
Import ListNotations.
From GoMC Require Import Base.Bytes Base.Dec Model.%s.
Fixpoint leqb (a b : list N) : bool :=
  match a, b with [] , [] => true | x :: a', y :: b' => N.eqb x y && leqb a' b' | _, _ => false end.
Definition bad (l : list (N * bool)) : list N := map fst (filter (fun x => negb (snd x)) l).
"""

# ------------------------------------------------------------------ C05
C05_DEFS = """
Inductive xr := XOk (v : Z) (n : N) (r : N) | XErr | XPanic | XFuel.
Definition sh (r : fres (Z * N)) : xr :=
  match r with FOk (v, n) rest => XOk v n (lenN rest) | FErr _ => XErr | FPanic _ => XPanic | FFuel => XFuel end.
Definition xr_eqb (a b : xr) : bool :=
  match a, b with
  | XOk v n r, XOk v' n' r' => Z.eqb v v' && N.eqb n n' && N.eqb r r'
  | XErr, XErr | XPanic, XPanic | XFuel, XFuel => true
  | _, _ => false end.
Definition enc32 (v : Z) (b : list N) (n : N) := leqb (write32 v) b && N.eqb (len32 v) n.
Definition enc64 (v : Z) (b : list N) (n : N) := leqb (write64 v) b && N.eqb (len64 v) n.
Definition dec32 (b : list N) (e : xr) := xr_eqb (sh (run_flat read32 b)) e.
Definition dec64 (b : list N) (e : xr) := xr_eqb (sh (run_flat read64 b)) e.
(* phase 4: the definitions translated from the Go source (Gen/C05gen.v): tdec32/tdec64/trb/tenc32/tenc64 *)
From GoMC Require Import Base.GoInt Gen.C05gen.
Inductive xt := TOk (a b : Z) (r : N) | TErr | TPanic | TFuel.
Definition sht (r : fres (Z * Z)) : xt :=
  match r with FOk (a, b) rest => TOk a b (lenN rest) | FErr _ => TErr | FPanic _ => TPanic | FFuel => TFuel end.
Definition xt_eqb (a b : xt) : bool :=
  match a, b with
  | TOk v n r, TOk v' n' r' => Z.eqb v v' && Z.eqb n n' && N.eqb r r'
  | TErr, TErr | TPanic, TPanic | TFuel, TFuel => true
  | _, _ => false end.
Definition tdec32 (br : bool) (b : list N) (e : xt) := xt_eqb (sht (run_flat (packet_VarInt_ReadFrom_io br) b)) e.
Definition tdec64 (br : bool) (b : list N) (e : xt) := xt_eqb (sht (run_flat (packet_VarLong_ReadFrom_io br) b)) e.
Definition trb (br : bool) (b : list N) (e : xt) := xt_eqb (sht (run_flat (packet_readByte_io br) b)) e.
Definition tenc_ok (r : gores (Z * N * list Z)) (b : list N) (n : Z) : bool :=
  match r with GoRet (n', e, o) => Z.eqb n' n && N.eqb e 0 && leqb (map Z.to_N o) b | GoPanic => false end.
Definition tenc32 (v : Z) (b : list N) (n : Z) := tenc_ok (packet_VarInt_WriteTo_io v) b n.
Definition tenc64 (v : Z) (b : list N) (n : Z) := tenc_ok (packet_VarLong_WriteTo_io v) b n.
"""


def c05(case, out):
    c, o = case.split(), out.split()
    if not c or not o or c[0] != o[0]:
        return None
    if c[0] in ("enc32", "enc64") and len(c) == 2 and len(o) == 4:
        return "%s %s %s %s" % (c[0], zlit(c[1]), bytes_of_hex(o[2]), nlit(o[3]))
    if c[0] in ("dec32", "dec64") and len(c) == 2 and len(o) >= 3:
        if o[2] == "ok" and len(o) == 6:
            e = "(XOk %s %s %s)" % (zlit(o[3]), nlit(o[4]), nlit(o[5]))
        elif o[2] in ("err", "panic", "fuel") and len(o) == 3:
            e = {"err": "XErr", "panic": "XPanic", "fuel": "XFuel"}[o[2]]
        else:
            return None
        return "%s %s %s" % (c[0], bytes_of_hex(c[1]), e)
    if c[0] in ("tdec32", "tdec64", "trb") and len(c) == 3 and len(o) >= 4 and c[1] in ("0", "1"):
        if o[3] == "ok" and len(o) == 7:
            e = "(TOk %s %s %s)" % (zlit(o[4]), zlit(o[5]), nlit(o[6]))
        elif o[3] in ("err", "panic", "fuel") and len(o) == 4:
            e = {"err": "TErr", "panic": "TPanic", "fuel": "TFuel"}[o[3]]
        else:
            return None
        return "%s %s %s %s" % (c[0], "true" if c[1] == "1" else "false", bytes_of_hex(c[2]), e)
    if c[0] in ("tenc32", "tenc64") and len(c) == 2 and len(o) == 4:
        return "%s %s %s %s" % (c[0], zlit(c[1]), bytes_of_hex(o[2]), zlit(o[3]))
    return None


# ------------------------------------------------------------------ C11
C11_DEFS = """
Definition out_eqb (a b : outcome) : bool :=
  match a, b with
  | ORet v, ORet v' => Z.eqb v v' | OUnit, OUnit => true | OErr, OErr => true
  | OPanic w, OPanic w' => N.eqb w w' | _, _ => false end.
Definition oz_eqb (a b : option Z) : bool :=
  match a, b with Some x, Some y => Z.eqb x y | None, None => true | _, _ => false end.
Inductive xstep := Xg (i : Z) (o : outcome) | Xs (i v : Z) (o : outcome) | Xw (i v : Z) (o : outcome)
  | Xr (d : list N) | Xl (z : Z) | XW (img : list N) (n : N)
  | XR (h : list N) (nn rl : N) | XRstop (h : list N) (k : N) | XF (bt : Z) (o : outcome).
Fixpoint xrun (st : bstore) (steps : list xstep) : bool :=
  match steps with
  | [] => true
  | Xg i o :: t => let r := bs_get st i in out_eqb (snd r) o && xrun (fst r) t
  | Xs i v o :: t => let r := bs_set st i v in out_eqb (snd r) o && xrun (fst r) t
  | Xw i v o :: t => let r := bs_swap st i v in out_eqb (snd r) o && xrun (fst r) t
  | Xr d :: t => leqb (data st) d && xrun st t
  | Xl z :: t => Z.eqb (blen st) z && xrun st t
  | XW img n :: t => let r := bs_write st in leqb (fst r) img && N.eqb (snd r) n && xrun st t
  | XR h nn rl :: t => match run_flat (bs_read st) h with
                       | FOk (s, n) rest => N.eqb n nn && N.eqb (lenN rest) rl && xrun s t
                       | _ => false end
  | XRstop h k :: _ => match run_flat (bs_read st) h with
                       | FOk _ _ => false | FErr _ => N.eqb k 1 | FPanic _ => N.eqb k 2 | FFuel => N.eqb k 3 end
  | XF bt o :: t => let r := bs_fix st bt in out_eqb (snd r) o && xrun (fst r) t
  end.
Definition xbs (bt ln : Z) (raw : option (list N)) (pn : option N) (steps : list xstep) : bool :=
  match bs_new bt ln raw, pn with
  | RPanic w, Some w' => N.eqb w w'
  | ROk st, None => xrun st steps
  | _, _ => false end.
Fixpoint outs_eqb (a b : list outcome) : bool :=
  match a, b with [], [] => true | x :: a', y :: b' => out_eqb x y && outs_eqb a' b' | _, _ => false end.
Definition xspec (b : N) (vals : list N) (ops : list aop) (outs : list outcome) (fin : list N) : bool :=
  let r := spec_run b vals ops in outs_eqb (snd r) outs && leqb (fst r) fin.
"""


def c11_out(tok, tag):
    """g=5 | s | w=3 | g!1 | s=err"""
    if tok == tag:
        return "OUnit"
    if tok.startswith(tag + "=err"):
        return "OErr"
    if tok.startswith(tag + "="):
        return "(ORet %s)" % zlit(tok[len(tag) + 1:])
    if tok.startswith(tag + "!"):
        return "(OPanic %s)" % nlit(tok[len(tag) + 1:])
    return None


def c11(case, out):
    c, o = case.split(), out.split()
    if not c or not o:
        return None
    k = c[0]
    if k == "size" and len(c) == 3 and len(o) == 2:
        return "oz_eqb (calc_size %s %s) %s" % (zlit(c[1]), zlit(c[2]), "None" if o[1] == "!" else "(Some %s)" % zlit(o[1]))
    if k == "bpv" and len(c) == 3 and len(o) == 2:
        return "oz_eqb (calc_bits %s %s) %s" % (zlit(c[1]), zlit(c[2]), "None" if o[1] == "!" else "(Some %s)" % zlit(o[1]))
    if k == "pack" and len(c) == 3 and len(o) == 2:
        return "leqb (pack %s %s) %s" % (nlit(c[1]), nlist_hex(c[2]), nlist_hex(o[1]))
    if k == "unpack" and len(c) == 4 and len(o) == 2 and int(c[2]) <= 4096:
        return "leqb (unpack %s %d%%nat %s) %s" % (nlit(c[1]), int(c[2]), nlist_hex(c[3]), nlist_hex(o[1]))
    if k in ("bs", "bsw") and len(c) >= 4 and len(o) >= 2 and o[0] == k:
        raw = "None" if c[3] == "nil" else "(Some %s)" % nlist_hex(c[3])
        if o[1].startswith("new!"):
            return "xbs %s %s %s (Some %s) []" % (zlit(c[1]), zlit(c[2]), raw, nlit(o[1][4:]))
        # a failed ReadFrom ends the script: the driver prints nothing after R!err / R!panic / R!fuel
        stopped = len(o) > 2 and o[-1] in ("R!err", "R!panic", "R!fuel")
        if o[1] != "ok" or (len(o) - 2 != len(c) - 4 and not stopped) or len(o) - 2 > len(c) - 4:
            return None
        steps = []
        for ct, ot in zip(c[4:], o[2:]):
            p = ct.split(":")
            if p[0] == "R" and len(p) == 2:
                oc = ""
                if ot.startswith("R=") and "/" in ot:
                    nn, rl = ot[2:].split("/")
                    steps.append("XR %s %s %s" % (bytes_of_hex(p[1]), nlit(nn), nlit(rl)))
                elif ot in ("R!err", "R!panic", "R!fuel"):
                    steps.append("XRstop %s %s" % (bytes_of_hex(p[1]), nlit({"R!err": 1, "R!panic": 2, "R!fuel": 3}[ot])))
                else:
                    return None
                continue
            if p[0] == "F" and len(p) == 2:
                oc = "OUnit" if ot == "F=ok" else c11_out(ot, "F")
                if oc is None:
                    return None
                steps.append("XF %s %s" % (zlit(p[1]), oc))
                continue
            if p[0] == "g" and len(p) == 2:
                oc = c11_out(ot, "g")
                steps.append("Xg %s %s" % (zlit(p[1]), oc))
            elif p[0] in ("s", "w") and len(p) == 3:
                oc = c11_out(ot, p[0])
                steps.append("X%s %s %s %s" % (p[0], zlit(p[1]), zlit(p[2]), oc))
            elif ct == "r" and ot.startswith("r="):
                oc = ""
                steps.append("Xr %s" % nlist_hex(ot[2:]))
            elif ct == "l" and ot.startswith("l="):
                oc = ""
                steps.append("Xl %s" % zlit(ot[2:]))
            elif ct == "W" and ot.startswith("W=") and "/" in ot:
                oc = ""
                img, nn = ot[2:].split("/")
                steps.append("XW %s %s" % (bytes_of_hex(img), nlit(nn)))
            else:
                return None
            if oc is None:
                return None
        return "xbs %s %s %s None [%s]" % (zlit(c[1]), zlit(c[2]), raw, "; ".join(steps))
    if k == "spec" and len(c) >= 3 and "|" in o:
        bar = o.index("|")
        tags, fin = o[1:bar], o[bar + 1:]
        if len(fin) != 1:
            return None
        ops, outs = [], []
        for ct in c[3:]:
            p = ct.split(":")
            if p[0] == "g" and len(p) == 2:
                ops.append(("g", "AGet %s" % zlit(p[1])))
            elif p[0] == "s" and len(p) == 3:
                ops.append(("s", "ASet %s %s" % (zlit(p[1]), zlit(p[2]))))
            elif p[0] == "w" and len(p) == 3:
                ops.append(("w", "ASwap %s %s" % (zlit(p[1]), zlit(p[2]))))
            # tokens that are not operations are dropped by the driver too (filter_map)
        if len(ops) != len(tags):
            return None
        for (tg, _), ot in zip(ops, tags):
            oc = c11_out(ot, tg)
            if oc is None:
                return None
            outs.append(oc)
        return "xspec %s %s [%s] [%s] %s" % (nlit(c[1]), nlist_hex(c[2]), "; ".join(x for _, x in ops), "; ".join(outs), nlist_hex(fin[0]))
    return None


# ------------------------------------------------------------------ C16
C16_DEFS = """
Inductive xr := XOk (id ty : Z) (pl : list N) (r : N) | XErr | XPanic | XFuel.
Definition sh (r : fres ((Z * Z) * list N)) : xr :=
  match r with FOk ((id, ty), pl) rest => XOk id ty pl (lenN rest) | FErr _ => XErr | FPanic _ => XPanic | FFuel => XFuel end.
Definition xr_eqb (a b : xr) : bool :=
  match a, b with
  | XOk i t p r, XOk i' t' p' r' => Z.eqb i i' && Z.eqb t t' && leqb p p' && N.eqb r r'
  | XErr, XErr | XPanic, XPanic | XFuel, XFuel => true
  | _, _ => false end.
Definition wr (id ty : Z) (pl img : list N) := leqb (rcon_write id ty pl) img.
Definition rd (b : list N) (e : xr) := xr_eqb (sh (run_flat rcon_read b)) e.
(* alogin / acmd: (ok, ReqID afterwards, bytes written or the command, bytes left) or a reader error *)
Inductive xa := AOk (ok : bool) (sid : Z) (w : list N) (r : N) | ARdErr | APanic | AFuel.
Definition sha (r : fres ((Z * list N) * bool)) : xa :=
  match r with FOk ((sid, w), ok) rest => AOk ok sid w (lenN rest) | FErr _ => ARdErr | FPanic _ => APanic | FFuel => AFuel end.
Definition xa_eqb (a b : xa) : bool :=
  match a, b with
  | AOk o s w r, AOk o' s' w' r' => Bool.eqb o o' && Z.eqb s s' && leqb w w' && N.eqb r r'
  | ARdErr, ARdErr | APanic, APanic | AFuel, AFuel => true
  | _, _ => false end.
Definition alogin (pws c2s : list N) (e : xa) := xa_eqb (sha (run_flat (accept_login pws) c2s)) e.
Definition acmd (c2s : list N) (e : xa) := xa_eqb (sha (run_flat accept_cmd c2s)) e.
(* resp: the payload and the bytes left, or an error *)
Inductive xp := POk (p : list N) (r : N) | PErr | PPanic | PFuel.
Definition shp (r : fres (list N)) : xp :=
  match r with FOk p rest => POk p (lenN rest) | FErr _ => PErr | FPanic _ => PPanic | FFuel => PFuel end.
Definition xp_eqb (a b : xp) : bool :=
  match a, b with
  | POk p r, POk p' r' => leqb p p' && N.eqb r r'
  | PErr, PErr | PPanic, PPanic | PFuel, PFuel => true
  | _, _ => false end.
Definition resp (id : Z) (s2c : list N) (e : xp) := xp_eqb (shp (run_flat (resp_recv id) s2c)) e.
(* sess: the observations, the server's ReqID at the end and - unless the run ended in an error - both wires *)
Definition obs_eqb (a b : obs) : bool :=
  match a, b with
  | OSent, OSent | OErr, OErr => true
  | OCmd x, OCmd y | OResp x, OResp y => leqb x y
  | _, _ => false end.
Fixpoint obsl_eqb (a b : list obs) : bool :=
  match a, b with [], [] => true | x :: a', y :: b' => obs_eqb x y && obsl_eqb a' b' | _, _ => false end.
Definition sess (id sid0 : Z) (evs : list ev) (os : list obs) (sid1 : Z) (wires : option (list N * list N)) : bool :=
  let '(o, k) := run_session id evs {| c2s := []; s2c := []; sid := sid0 |} in
  obsl_eqb o os && Z.eqb (sid k) sid1 &&
  match wires with Some (a, b) => leqb (c2s k) a && leqb (s2c k) b | None => true end.
"""

C16_EV = {"C:": "ECmd", "R:": "EResp", "XC:": "EXC", "XS:": "EXS"}
C16_OBS = {"C:": "OCmd", "R:": "OResp"}


def c16_tok(t, table, plain):
    if t in plain:
        return plain[t]
    for pre in sorted(table, key=len, reverse=True):
        if t.startswith(pre):
            return "(%s %s)" % (table[pre], bytes_of_hex(t[len(pre):]))
    raise ValueError(t)


def c16_acc(kind, args, o, rderr_sid):
    """alogin / acmd result line -> xa term"""
    if len(o) == 5 and o[1] in ("ok", "err"):
        return "%s %s (AOk %s %s %s %s)" % (kind, args, "true" if o[1] == "ok" else "false", zlit(o[2]), bytes_of_hex(o[3]), nlit(o[4]))
    if len(o) == 3 and o[1] == "rderr" and o[2] == rderr_sid:      # the driver echoes the untouched ReqID
        return "%s %s ARdErr" % (kind, args)
    if len(o) == 2 and o[1] in ("panic", "fuel"):
        return "%s %s %s" % (kind, args, {"panic": "APanic", "fuel": "AFuel"}[o[1]])
    return None


def c16(case, out):
    c, o = case.split(), out.split()
    if not c or not o or c[0] != o[0]:
        return None
    if c[0] == "wr" and len(c) == 4 and len(o) == 2:
        return "wr %s %s %s %s" % (zlit(c[1]), zlit(c[2]), bytes_of_hex(c[3]), bytes_of_hex(o[1]))
    if c[0] == "rd" and len(c) == 2:
        if len(o) == 6 and o[1] == "ok":
            return "rd %s (XOk %s %s %s %s)" % (bytes_of_hex(c[1]), zlit(o[2]), zlit(o[3]), bytes_of_hex(o[4]), nlit(o[5]))
        if len(o) == 2 and o[1] in ("err", "panic", "fuel"):
            return "rd %s %s" % (bytes_of_hex(c[1]), {"err": "XErr", "panic": "XPanic", "fuel": "XFuel"}[o[1]])
    if c[0] == "alogin" and len(c) == 4:
        return c16_acc("alogin", "%s %s" % (bytes_of_hex(c[2]), bytes_of_hex(c[3])), o, c[1])
    if c[0] == "acmd" and len(c) == 3:
        return c16_acc("acmd", bytes_of_hex(c[2]), o, c[1])
    if c[0] == "resp" and len(c) == 3:
        if len(o) == 4 and o[1] == "ok":
            return "resp %s %s (POk %s %s)" % (zlit(c[1]), bytes_of_hex(c[2]), bytes_of_hex(o[2]), nlit(o[3]))
        if len(o) == 2 and o[1] in ("err", "panic", "fuel"):
            return "resp %s %s %s" % (zlit(c[1]), bytes_of_hex(c[2]), {"err": "PErr", "panic": "PPanic", "fuel": "PFuel"}[o[1]])
    if c[0] == "sess" and len(c) >= 3 and "|" in o:
        bar = o.index("|")
        evs = [c16_tok(t, C16_EV, {"A": "EAccept", "V": "ERecv"}) for t in c[3:]]
        obs = [c16_tok(t, C16_OBS, {"S": "OSent", "E": "OErr"}) for t in o[1:bar]]
        tail = dict(t.split("=", 1) for t in o[bar + 1:])
        if "sid" not in tail or set(tail) - {"sid", "c2s", "s2c"}:
            return None
        wires = "None"
        if "c2s" in tail and "s2c" in tail:
            wires = "(Some (%s, %s))" % (bytes_of_hex(tail["c2s"]), bytes_of_hex(tail["s2c"]))
        return "sess %s %s [%s] [%s] %s %s" % (zlit(c[1]), zlit(c[2]), "; ".join(evs), "; ".join(obs), zlit(tail["sid"]), wires)
    return None


# ------------------------------------------------------------------ C17
# kinds converted: strip (TransCtrlSeq in both modes) and enc (the component term -> wire bytes of Message.WriteTo and
# of nbt.Marshal, or the encoder's refusal); the other kinds carry state (the translation table) or print whole
# decoded components and are left to the extracted driver
C17_DEFS = """
Definition xstrip (s plain ansi : list N) (ch : bool) : bool :=
  leqb (strip s) plain && leqb (fst (trans_ctrl true s)) ansi && Bool.eqb (snd (trans_ctrl true s)) ch.
Definition xenc (m : msg) (w named : list N) : bool :=
  match wire_opt m with Some x => leqb x w && leqb (wire_named m) named | None => false end.
Definition xencerr (m : msg) : bool := match wire_opt m with Some _ => false | None => true end.
"""


class _C17P:
    def __init__(self, s):
        self.s, self.i = s, 0

    def peek(self):
        return self.s[self.i] if self.i < len(self.s) else ""

    def expect(self, ch):
        if self.peek() != ch:
            raise ValueError("expected %s at %d" % (ch, self.i))
        self.i += 1

    def hexs(self):
        if self.peek() == "-":
            self.i += 1
            return "[]"
        st = self.i
        while self.peek() and self.peek() in "0123456789abcdef":
            self.i += 1
        return bytes_of_hex(self.s[st:self.i] or "-")

    def lst(self, item):
        self.expect("[")
        out = []
        if self.peek() == "]":
            self.i += 1
            return out
        out.append(item())
        while self.peek() == ",":
            self.i += 1
            out.append(item())
        self.expect("]")
        return out

    def msg(self):
        self.expect("M"); self.expect("(")
        text = self.hexs(); self.expect(",")
        fl = self.s[self.i:self.i + 5]; self.i += 5; self.expect(",")
        if len(fl) != 5 or any(c not in "01" for c in fl):
            raise ValueError("flags")
        font = self.hexs(); self.expect(",")
        color = self.hexs(); self.expect(",")
        ins = self.hexs(); self.expect(",")
        if self.peek() == "_":
            self.i += 1
            click = "None"
        else:
            self.expect("C"); self.expect("(")
            a = self.hexs(); self.expect(","); v = self.hexs(); self.expect(")")
            click = "(Some (%s, %s))" % (a, v)
        self.expect(",")
        if self.peek() == "_":
            self.i += 1
            hover = "None"
        else:
            self.expect("H"); self.expect("(")
            a = self.hexs(); self.expect(","); v = self.msg(); self.expect(")")
            hover = "(Some (%s, %s))" % (a, v)
        self.expect(",")
        tr = self.hexs(); self.expect(",")
        args = self.lst(self.arg); self.expect(",")
        extra = self.lst(self.msg)
        self.expect(")")
        b = ["true" if c == "1" else "false" for c in fl]
        return "(Msg %s (mkStyle %s %s %s %s %s) %s %s [%s] [%s])" % (
            text, " ".join(b), font, color, ins, click, hover, tr, "; ".join(args), "; ".join(extra))

    def arg(self):
        if self.peek() == "S":
            self.i += 1
            self.expect("("); s = self.hexs(); self.expect(")")
            return "(AS %s)" % s
        return "(AM %s)" % self.msg()


def c17(case, out):
    c, o = case.split(), out.split()
    if not c or not o or c[0] != o[0]:
        return None
    if c[0] == "strip" and len(c) == 2 and len(o) == 4 and o[3] in ("true", "false"):
        return "xstrip %s %s %s %s" % (bytes_of_hex(c[1]), bytes_of_hex(o[1]), bytes_of_hex(o[2]), o[3])
    if c[0] == "enc" and len(c) == 2:
        p = _C17P(c[1])
        m = p.msg()
        if p.i != len(c[1]):
            return None
        if len(o) == 2 and o[1] == "err":
            return "xencerr %s" % m
        if len(o) >= 3:
            return "xenc %s %s %s" % (m, bytes_of_hex(o[1]), bytes_of_hex(o[2]))
    return None


# ------------------------------------------------------------------ C10
C10_DEFS = """
Definition xref (k : N) (de : bool) (iv0 m out : list N) := leqb (toy_ref k de iv0 m) out.
Definition xblk (k : N) (b out : list N) := leqb (toyE k b) out.
Definition xstep_eqb (a : option (state * list N)) (b : option (list N * list N * N)) : bool :=
  match a, b with
  | None, None => true
  | Some (st, out), Some (o, i, p) => leqb out o && leqb (iv st) i && N.eqb (N.of_nat (pos st)) p
  | _, _ => false end.
Fixpoint xsteps (a : list (option (state * list N))) (b : list (option (list N * list N * N))) : bool :=
  match a, b with [], [] => true | x :: a', y :: b' => xstep_eqb x y && xsteps a' b' | _, _ => false end.
Definition xseq (k : N) (de : bool) (iv0 : list N) (cs : list call) (e : list (option (list N * list N * N))) :=
  xsteps (toy_trace k de iv0 cs) e.
"""


def c10(case, out):
    c, o = case.split(), out.split()
    if not c or not o or c[0] != o[0]:
        return None
    b = lambda x: "true" if x == "1" else "false"
    if c[0] == "ref" and len(c) == 5 and len(o) == 2:
        return "xref %s %s %s %s %s" % (nlit(c[2]), b(c[1]), bytes_of_hex(c[3]), bytes_of_hex(c[4]), bytes_of_hex(o[1]))
    if c[0] == "blk" and len(c) == 3 and len(o) == 2:
        return "xblk %s %s %s" % (nlit(c[1]), bytes_of_hex(c[2]), bytes_of_hex(o[1]))
    if c[0] == "seq" and len(c) >= 4 and (len(c) - 4) % 3 == 0 and len(o) - 1 == (len(c) - 4) // 3:
        calls = []
        for i in range(4, len(c), 3):
            if c[i] not in ("i", "d"):
                return None
            calls.append("{| c_alias := %s; c_src := %s; c_dst := %s |}" % ("InPlace" if c[i] == "i" else "Disjoint", bytes_of_hex(c[i + 1]), bytes_of_hex(c[i + 2])))
        exp = []
        for t in o[1:]:
            if t == "panic":
                exp.append("None")
            else:
                p = t.split(":")
                if len(p) != 3:
                    return None
                exp.append("Some (%s, %s, %s)" % (bytes_of_hex(p[0]), bytes_of_hex(p[1]), nlit(p[2])))
        return "xseq %s %s %s [%s] [%s]" % (nlit(c[2]), b(c[1]), bytes_of_hex(c[3]), "; ".join(calls), "; ".join(exp))
    return None


TABLE = {"C05": ("C05", C05_DEFS, c05), "C11": ("C11", C11_DEFS, c11), "C16": ("C16", C16_DEFS, c16),
         "C17": ("C17", C17_DEFS, c17), "C10": ("C10", C10_DEFS, c10)}


def main():
    pid, work = sys.argv[1], sys.argv[2]
    mx = int(sys.argv[3]) if len(sys.argv) > 3 else 400
    model, defs, conv = TABLE[pid]
    cases = open(os.path.join(work, "cases.txt"), errors="replace").read().split("\n")
    outs = open(os.path.join(work, "model.txt"), errors="replace").read().split("\n")
    n = min(len(cases), len(outs))
    # an equal share for every case kind the harness emitted, spread evenly over the file
    terms, skipped, kinds = [], 0, {}
    by_kind = {}
    for i in range(n):
        if cases[i].strip() and len(cases[i]) <= 6000:
            by_kind.setdefault(cases[i].split()[0], []).append(i)
    quota = max(1, mx // max(1, len(by_kind)))
    for k, idx in sorted(by_kind.items()):
        stride = max(1, len(idx) // quota)
        got = 0
        for i in idx[::stride]:
            if got >= quota:
                break
            try:
                t = conv(cases[i], outs[i])
            except (ValueError, IndexError):
                t = None
            if t is None:
                skipped += 1
                continue
            terms.append((i, t))
            got += 1
        kinds[k] = got
    src = PRELUDE % model + defs + "\nDefinition R : list N := Eval vm_compute in bad [\n" + \
        ";\n".join("  (%d%%N, %s)" % (i, t) for i, t in terms) + "].\nPrint R.\n"
    vf = os.path.join(work, "xcheck_%s.v" % pid)
    open(vf, "w").write(src)
    p = subprocess.run(["coqc", "-Q", COQ, "GoMC", vf], cwd=work, stdout=subprocess.PIPE, stderr=subprocess.STDOUT, text=True, timeout=900)
    txt = " ".join(p.stdout.split())
    res = {"cases": len(terms), "skipped": skipped, "kinds": kinds, "rc": p.returncode, "bad": []}
    if p.returncode != 0:
        res["error"] = p.stdout[-1500:]
    elif "R = []" in txt or "R = nil" in txt:
        pass
    else:
        import re
        m = re.search(r"R = \[(.*?)\]", txt)
        res["bad"] = [int(x) for x in re.findall(r"(\d+)%N|(\d+)", m.group(1)) for x in x if x] if m else [-1]
        res["bad_cases"] = [cases[i][:300] + " => " + outs[i][:300] for i in res["bad"][:5] if 0 <= i < n]
    print(json.dumps(res))
    return 0


if __name__ == "__main__":
    sys.exit(main())
