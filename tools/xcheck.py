#!/usr/bin/env python3
"""xcheck.py <Cxx> <workdir> [max_cases] [--tamper]

Second opinion on extraction: a shard of the very case lines the extracted OCaml driver answered
(<workdir>/cases.txt, <workdir>/model.txt) is turned into Gallina terms, and ONE coqc call evaluates the
same model definitions inside Coq with vm_compute and compares them with what the driver printed.
A disagreement means extraction (ExtrOcamlBasic), the OCaml compiler or the hand-written driver changed the
model's behaviour.  Prints one JSON object: {"cases": n, "bad": [case line numbers], "rc": coqc exit code}.
Only the case kinds listed per property below are converted; the rest is skipped (counted in "skipped").
Properties: C05 C10 C11 C16 C17 (all or most kinds), C06 C07 (every kind), C14 (hist), C18 (all but uuid tuuid tlb encr hs).
--tamper is the tool's self-test: one driver answer per case kind is changed in memory before it is rendered, and the
result says whether exactly the changed lines came back as disagreements ("tamper_listed")."""
import json, os, subprocess, sys

ROOT = os.path.dirname(os.path.dirname(os.path.abspath(__file__)))
COQ = os.environ.get("XCHECK_COQ") or os.path.join(ROOT, "coq")      # XCHECK_COQ: a private build tree (development)


def zlit(s):
    v = int(s)
    return "(%d)%%Z" % v


def nlit(v):
    return "%d%%N" % int(v)


def bytes_of_hex(h):
    if h == "-":
        return "[]"
    return "[" + ";".join(str(int(h[i:i + 2], 16)) for i in range(0, len(h), 2)) + "]%N"


def nlist_hex(s):
    if s in ("-", "nil"):
        return "[]"
    return "[" + ";".join(str(int(x, 16)) for x in s.split(",")) + "]%N"


PRELUDE = """From Coq Require Import List ZArith NArith Bool.
Import ListNotations.
From GoMC Require Import Base.Bytes Base.Dec %s.
Fixpoint leqb (a b : list N) : bool :=
  match a, b with [] , [] => true | x :: a', y :: b' => N.eqb x y && leqb a' b' | _, _ => false end.
Definition bad (l : list (N * bool)) : list N := map fst (filter (fun x => negb (snd x)) l).
"""

# ------------------------------------------------------------------ C05
C05_DEFS = """
Inductive xr := XOk (v : Z) (n : N) (r : N) | XErr | XPanic | XFuel.
Definition sh (r : fres (Z * N)) : xr :=
  match r with FOk (v, n) rest => XOk v n (lenN rest) | FErr _ => XErr | FPanic _ => XPanic | FFuel => XFuel end.
Definition xr_eqb (a b : xr) : bool :=
  match a, b with
  | XOk v n r, XOk v' n' r' => Z.eqb v v' && N.eqb n n' && N.eqb r r'
  | XErr, XErr | XPanic, XPanic | XFuel, XFuel => true
  | _, _ => false end.
Definition enc32 (v : Z) (b : list N) (n : N) := leqb (write32 v) b && N.eqb (len32 v) n.
Definition enc64 (v : Z) (b : list N) (n : N) := leqb (write64 v) b && N.eqb (len64 v) n.
Definition dec32 (b : list N) (e : xr) := xr_eqb (sh (run_flat read32 b)) e.
Definition dec64 (b : list N) (e : xr) := xr_eqb (sh (run_flat read64 b)) e.
(* phase 4: the definitions translated from the Go source (Gen/C05gen.v): tdec32/tdec64/trb/tenc32/tenc64 *)
From GoMC Require Import Base.GoInt Gen.C05gen.
Inductive xt := TOk (a b : Z) (r : N) | TErr | TPanic | TFuel.
Definition sht (r : fres (Z * Z)) : xt :=
  match r with FOk (a, b) rest => TOk a b (lenN rest) | FErr _ => TErr | FPanic _ => TPanic | FFuel => TFuel end.
Definition xt_eqb (a b : xt) : bool :=
  match a, b with
  | TOk v n r, TOk v' n' r' => Z.eqb v v' && Z.eqb n n' && N.eqb r r'
  | TErr, TErr | TPanic, TPanic | TFuel, TFuel => true
  | _, _ => false end.
Definition tdec32 (br : bool) (b : list N) (e : xt) := xt_eqb (sht (run_flat (packet_VarInt_ReadFrom_io br) b)) e.
Definition tdec64 (br : bool) (b : list N) (e : xt) := xt_eqb (sht (run_flat (packet_VarLong_ReadFrom_io br) b)) e.
Definition trb (br : bool) (b : list N) (e : xt) := xt_eqb (sht (run_flat (packet_readByte_io br) b)) e.
Definition tenc_ok (r : gores (Z * N * list Z)) (b : list N) (n : Z) : bool :=
  match r with GoRet (n', e, o) => Z.eqb n' n && N.eqb e 0 && leqb (map Z.to_N o) b | GoPanic => false end.
Definition tenc32 (v : Z) (b : list N) (n : Z) := tenc_ok (packet_VarInt_WriteTo_io v) b n.
Definition tenc64 (v : Z) (b : list N) (n : Z) := tenc_ok (packet_VarLong_WriteTo_io v) b n.
"""


def c05(case, out):
    c, o = case.split(), out.split()
    if not c or not o or c[0] != o[0]:
        return None
    if c[0] in ("enc32", "enc64") and len(c) == 2 and len(o) == 4:
        return "%s %s %s %s" % (c[0], zlit(c[1]), bytes_of_hex(o[2]), nlit(o[3]))
    if c[0] in ("dec32", "dec64") and len(c) == 2 and len(o) >= 3:
        if o[2] == "ok" and len(o) == 6:
            e = "(XOk %s %s %s)" % (zlit(o[3]), nlit(o[4]), nlit(o[5]))
        elif o[2] in ("err", "panic", "fuel") and len(o) == 3:
            e = {"err": "XErr", "panic": "XPanic", "fuel": "XFuel"}[o[2]]
        else:
            return None
        return "%s %s %s" % (c[0], bytes_of_hex(c[1]), e)
    if c[0] in ("tdec32", "tdec64", "trb") and len(c) == 3 and len(o) >= 4 and c[1] in ("0", "1"):
        if o[3] == "ok" and len(o) == 7:
            e = "(TOk %s %s %s)" % (zlit(o[4]), zlit(o[5]), nlit(o[6]))
        elif o[3] in ("err", "panic", "fuel") and len(o) == 4:
            e = {"err": "TErr", "panic": "TPanic", "fuel": "TFuel"}[o[3]]
        else:
            return None
        return "%s %s %s %s" % (c[0], "true" if c[1] == "1" else "false", bytes_of_hex(c[2]), e)
    if c[0] in ("tenc32", "tenc64") and len(c) == 2 and len(o) == 4:
        return "%s %s %s %s" % (c[0], zlit(c[1]), bytes_of_hex(o[2]), zlit(o[3]))
    return None


# ------------------------------------------------------------------ C11
C11_DEFS = """
Definition out_eqb (a b : outcome) : bool :=
  match a, b with
  | ORet v, ORet v' => Z.eqb v v' | OUnit, OUnit => true | OErr, OErr => true
  | OPanic w, OPanic w' => N.eqb w w' | _, _ => false end.
Definition oz_eqb (a b : option Z) : bool :=
  match a, b with Some x, Some y => Z.eqb x y | None, None => true | _, _ => false end.
Inductive xstep := Xg (i : Z) (o : outcome) | Xs (i v : Z) (o : outcome) | Xw (i v : Z) (o : outcome)
  | Xr (d : list N) | Xl (z : Z) | XW (img : list N) (n : N)
  | XR (h : list N) (nn rl : N) | XRstop (h : list N) (k : N) | XF (bt : Z) (o : outcome).
Fixpoint xrun (st : bstore) (steps : list xstep) : bool :=
  match steps with
  | [] => true
  | Xg i o :: t => let r := bs_get st i in out_eqb (snd r) o && xrun (fst r) t
  | Xs i v o :: t => let r := bs_set st i v in out_eqb (snd r) o && xrun (fst r) t
  | Xw i v o :: t => let r := bs_swap st i v in out_eqb (snd r) o && xrun (fst r) t
  | Xr d :: t => leqb (data st) d && xrun st t
  | Xl z :: t => Z.eqb (blen st) z && xrun st t
  | XW img n :: t => let r := bs_write st in leqb (fst r) img && N.eqb (snd r) n && xrun st t
  | XR h nn rl :: t => match run_flat (bs_read st) h with
                       | FOk (s, n) rest => N.eqb n nn && N.eqb (lenN rest) rl && xrun s t
                       | _ => false end
  | XRstop h k :: _ => match run_flat (bs_read st) h with
                       | FOk _ _ => false | FErr _ => N.eqb k 1 | FPanic _ => N.eqb k 2 | FFuel => N.eqb k 3 end
  | XF bt o :: t => let r := bs_fix st bt in out_eqb (snd r) o && xrun (fst r) t
  end.
Definition xbs (bt ln : Z) (raw : option (list N)) (pn : option N) (steps : list xstep) : bool :=
  match bs_new bt ln raw, pn with
  | RPanic w, Some w' => N.eqb w w'
  | ROk st, None => xrun st steps
  | _, _ => false end.
Fixpoint outs_eqb (a b : list outcome) : bool :=
  match a, b with [], [] => true | x :: a', y :: b' => out_eqb x y && outs_eqb a' b' | _, _ => false end.
Definition xspec (b : N) (vals : list N) (ops : list aop) (outs : list outcome) (fin : list N) : bool :=
  let r := spec_run b vals ops in outs_eqb (snd r) outs && leqb (fst r) fin.
"""


def c11_out(tok, tag):
    """g=5 | s | w=3 | g!1 | s=err"""
    if tok == tag:
        return "OUnit"
    if tok.startswith(tag + "=err"):
        return "OErr"
    if tok.startswith(tag + "="):
        return "(ORet %s)" % zlit(tok[len(tag) + 1:])
    if tok.startswith(tag + "!"):
        return "(OPanic %s)" % nlit(tok[len(tag) + 1:])
    return None


def c11(case, out):
    c, o = case.split(), out.split()
    if not c or not o:
        return None
    k = c[0]
    if k == "size" and len(c) == 3 and len(o) == 2:
        return "oz_eqb (calc_size %s %s) %s" % (zlit(c[1]), zlit(c[2]), "None" if o[1] == "!" else "(Some %s)" % zlit(o[1]))
    if k == "bpv" and len(c) == 3 and len(o) == 2:
        return "oz_eqb (calc_bits %s %s) %s" % (zlit(c[1]), zlit(c[2]), "None" if o[1] == "!" else "(Some %s)" % zlit(o[1]))
    if k == "pack" and len(c) == 3 and len(o) == 2:
        return "leqb (pack %s %s) %s" % (nlit(c[1]), nlist_hex(c[2]), nlist_hex(o[1]))
    if k == "unpack" and len(c) == 4 and len(o) == 2 and int(c[2]) <= 4096:
        return "leqb (unpack %s %d%%nat %s) %s" % (nlit(c[1]), int(c[2]), nlist_hex(c[3]), nlist_hex(o[1]))
    if k in ("bs", "bsw") and len(c) >= 4 and len(o) >= 2 and o[0] == k:
        raw = "None" if c[3] == "nil" else "(Some %s)" % nlist_hex(c[3])
        if o[1].startswith("new!"):
            return "xbs %s %s %s (Some %s) []" % (zlit(c[1]), zlit(c[2]), raw, nlit(o[1][4:]))
        # a failed ReadFrom ends the script: the driver prints nothing after R!err / R!panic / R!fuel
        stopped = len(o) > 2 and o[-1] in ("R!err", "R!panic", "R!fuel")
        if o[1] != "ok" or (len(o) - 2 != len(c) - 4 and not stopped) or len(o) - 2 > len(c) - 4:
            return None
        steps = []
        for ct, ot in zip(c[4:], o[2:]):
            p = ct.split(":")
            if p[0] == "R" and len(p) == 2:
                oc = ""
                if ot.startswith("R=") and "/" in ot:
                    nn, rl = ot[2:].split("/")
                    steps.append("XR %s %s %s" % (bytes_of_hex(p[1]), nlit(nn), nlit(rl)))
                elif ot in ("R!err", "R!panic", "R!fuel"):
                    steps.append("XRstop %s %s" % (bytes_of_hex(p[1]), nlit({"R!err": 1, "R!panic": 2, "R!fuel": 3}[ot])))
                else:
                    return None
                continue
            if p[0] == "F" and len(p) == 2:
                oc = "OUnit" if ot == "F=ok" else c11_out(ot, "F")
                if oc is None:
                    return None
                steps.append("XF %s %s" % (zlit(p[1]), oc))
                continue
            if p[0] == "g" and len(p) == 2:
                oc = c11_out(ot, "g")
                steps.append("Xg %s %s" % (zlit(p[1]), oc))
            elif p[0] in ("s", "w") and len(p) == 3:
                oc = c11_out(ot, p[0])
                steps.append("X%s %s %s %s" % (p[0], zlit(p[1]), zlit(p[2]), oc))
            elif ct == "r" and ot.startswith("r="):
                oc = ""
                steps.append("Xr %s" % nlist_hex(ot[2:]))
            elif ct == "l" and ot.startswith("l="):
                oc = ""
                steps.append("Xl %s" % zlit(ot[2:]))
            elif ct == "W" and ot.startswith("W=") and "/" in ot:
                oc = ""
                img, nn = ot[2:].split("/")
                steps.append("XW %s %s" % (bytes_of_hex(img), nlit(nn)))
            else:
                return None
            if oc is None:
                return None
        return "xbs %s %s %s None [%s]" % (zlit(c[1]), zlit(c[2]), raw, "; ".join(steps))
    if k == "spec" and len(c) >= 3 and "|" in o:
        bar = o.index("|")
        tags, fin = o[1:bar], o[bar + 1:]
        if len(fin) != 1:
            return None
        ops, outs = [], []
        for ct in c[3:]:
            p = ct.split(":")
            if p[0] == "g" and len(p) == 2:
                ops.append(("g", "AGet %s" % zlit(p[1])))
            elif p[0] == "s" and len(p) == 3:
                ops.append(("s", "ASet %s %s" % (zlit(p[1]), zlit(p[2]))))
            elif p[0] == "w" and len(p) == 3:
                ops.append(("w", "ASwap %s %s" % (zlit(p[1]), zlit(p[2]))))
            # tokens that are not operations are dropped by the driver too (filter_map)
        if len(ops) != len(tags):
            return None
        for (tg, _), ot in zip(ops, tags):
            oc = c11_out(ot, tg)
            if oc is None:
                return None
            outs.append(oc)
        return "xspec %s %s [%s] [%s] %s" % (nlit(c[1]), nlist_hex(c[2]), "; ".join(x for _, x in ops), "; ".join(outs), nlist_hex(fin[0]))
    return None


# ------------------------------------------------------------------ C16
C16_DEFS = """
Inductive xr := XOk (id ty : Z) (pl : list N) (r : N) | XErr | XPanic | XFuel.
Definition sh (r : fres ((Z * Z) * list N)) : xr :=
  match r with FOk ((id, ty), pl) rest => XOk id ty pl (lenN rest) | FErr _ => XErr | FPanic _ => XPanic | FFuel => XFuel end.
Definition xr_eqb (a b : xr) : bool :=
  match a, b with
  | XOk i t p r, XOk i' t' p' r' => Z.eqb i i' && Z.eqb t t' && leqb p p' && N.eqb r r'
  | XErr, XErr | XPanic, XPanic | XFuel, XFuel => true
  | _, _ => false end.
Definition wr (id ty : Z) (pl img : list N) := leqb (rcon_write id ty pl) img.
Definition rd (b : list N) (e : xr) := xr_eqb (sh (run_flat rcon_read b)) e.
(* alogin / acmd: (ok, ReqID afterwards, bytes written or the command, bytes left) or a reader error *)
Inductive xa := AOk (ok : bool) (sid : Z) (w : list N) (r : N) | ARdErr | APanic | AFuel.
Definition sha (r : fres ((Z * list N) * bool)) : xa :=
  match r with FOk ((sid, w), ok) rest => AOk ok sid w (lenN rest) | FErr _ => ARdErr | FPanic _ => APanic | FFuel => AFuel end.
Definition xa_eqb (a b : xa) : bool :=
  match a, b with
  | AOk o s w r, AOk o' s' w' r' => Bool.eqb o o' && Z.eqb s s' && leqb w w' && N.eqb r r'
  | ARdErr, ARdErr | APanic, APanic | AFuel, AFuel => true
  | _, _ => false end.
Definition alogin (pws c2s : list N) (e : xa) := xa_eqb (sha (run_flat (accept_login pws) c2s)) e.
Definition acmd (c2s : list N) (e : xa) := xa_eqb (sha (run_flat accept_cmd c2s)) e.
(* resp: the payload and the bytes left, or an error *)
Inductive xp := POk (p : list N) (r : N) | PErr | PPanic | PFuel.
Definition shp (r : fres (list N)) : xp :=
  match r with FOk p rest => POk p (lenN rest) | FErr _ => PErr | FPanic _ => PPanic | FFuel => PFuel end.
Definition xp_eqb (a b : xp) : bool :=
  match a, b with
  | POk p r, POk p' r' => leqb p p' && N.eqb r r'
  | PErr, PErr | PPanic, PPanic | PFuel, PFuel => true
  | _, _ => false end.
Definition resp (id : Z) (s2c : list N) (e : xp) := xp_eqb (shp (run_flat (resp_recv id) s2c)) e.
(* sess: the observations, the server's ReqID at the end and - unless the run ended in an error - both wires *)
Definition obs_eqb (a b : obs) : bool :=
  match a, b with
  | OSent, OSent | OErr, OErr => true
  | OCmd x, OCmd y | OResp x, OResp y => leqb x y
  | _, _ => false end.
Fixpoint obsl_eqb (a b : list obs) : bool :=
  match a, b with [], [] => true | x :: a', y :: b' => obs_eqb x y && obsl_eqb a' b' | _, _ => false end.
Definition sess (id sid0 : Z) (evs : list ev) (os : list obs) (sid1 : Z) (wires : option (list N * list N)) : bool :=
  let '(o, k) := run_session id evs {| c2s := []; s2c := []; sid := sid0 |} in
  obsl_eqb o os && Z.eqb (sid k) sid1 &&
  match wires with Some (a, b) => leqb (c2s k) a && leqb (s2c k) b | None => true end.
"""

C16_EV = {"C:": "ECmd", "R:": "EResp", "XC:": "EXC", "XS:": "EXS"}
C16_OBS = {"C:": "OCmd", "R:": "OResp"}


def c16_tok(t, table, plain):
    if t in plain:
        return plain[t]
    for pre in sorted(table, key=len, reverse=True):
        if t.startswith(pre):
            return "(%s %s)" % (table[pre], bytes_of_hex(t[len(pre):]))
    raise ValueError(t)


def c16_acc(kind, args, o, rderr_sid):
    """alogin / acmd result line -> xa term"""
    if len(o) == 5 and o[1] in ("ok", "err"):
        return "%s %s (AOk %s %s %s %s)" % (kind, args, "true" if o[1] == "ok" else "false", zlit(o[2]), bytes_of_hex(o[3]), nlit(o[4]))
    if len(o) == 3 and o[1] == "rderr" and o[2] == rderr_sid:      # the driver echoes the untouched ReqID
        return "%s %s ARdErr" % (kind, args)
    if len(o) == 2 and o[1] in ("panic", "fuel"):
        return "%s %s %s" % (kind, args, {"panic": "APanic", "fuel": "AFuel"}[o[1]])
    return None


def c16(case, out):
    c, o = case.split(), out.split()
    if not c or not o or c[0] != o[0]:
        return None
    if c[0] == "wr" and len(c) == 4 and len(o) == 2:
        return "wr %s %s %s %s" % (zlit(c[1]), zlit(c[2]), bytes_of_hex(c[3]), bytes_of_hex(o[1]))
    if c[0] == "rd" and len(c) == 2:
        if len(o) == 6 and o[1] == "ok":
            return "rd %s (XOk %s %s %s %s)" % (bytes_of_hex(c[1]), zlit(o[2]), zlit(o[3]), bytes_of_hex(o[4]), nlit(o[5]))
        if len(o) == 2 and o[1] in ("err", "panic", "fuel"):
            return "rd %s %s" % (bytes_of_hex(c[1]), {"err": "XErr", "panic": "XPanic", "fuel": "XFuel"}[o[1]])
    if c[0] == "alogin" and len(c) == 4:
        return c16_acc("alogin", "%s %s" % (bytes_of_hex(c[2]), bytes_of_hex(c[3])), o, c[1])
    if c[0] == "acmd" and len(c) == 3:
        return c16_acc("acmd", bytes_of_hex(c[2]), o, c[1])
    if c[0] == "resp" and len(c) == 3:
        if len(o) == 4 and o[1] == "ok":
            return "resp %s %s (POk %s %s)" % (zlit(c[1]), bytes_of_hex(c[2]), bytes_of_hex(o[2]), nlit(o[3]))
        if len(o) == 2 and o[1] in ("err", "panic", "fuel"):
            return "resp %s %s %s" % (zlit(c[1]), bytes_of_hex(c[2]), {"err": "PErr", "panic": "PPanic", "fuel": "PFuel"}[o[1]])
    if c[0] == "sess" and len(c) >= 3 and "|" in o:
        bar = o.index("|")
        evs = [c16_tok(t, C16_EV, {"A": "EAccept", "V": "ERecv"}) for t in c[3:]]
        obs = [c16_tok(t, C16_OBS, {"S": "OSent", "E": "OErr"}) for t in o[1:bar]]
        tail = dict(t.split("=", 1) for t in o[bar + 1:])
        if "sid" not in tail or set(tail) - {"sid", "c2s", "s2c"}:
            return None
        wires = "None"
        if "c2s" in tail and "s2c" in tail:
            wires = "(Some (%s, %s))" % (bytes_of_hex(tail["c2s"]), bytes_of_hex(tail["s2c"]))
        return "sess %s %s [%s] [%s] %s %s" % (zlit(c[1]), zlit(c[2]), "; ".join(evs), "; ".join(obs), zlit(tail["sid"]), wires)
    return None


# ------------------------------------------------------------------ C17
# kinds converted: strip (TransCtrlSeq in both modes) and enc (the component term -> wire bytes of Message.WriteTo and
# of nbt.Marshal, or the encoder's refusal); the other kinds carry state (the translation table) or print whole
# decoded components and are left to the extracted driver
C17_DEFS = """
Definition xstrip (s plain ansi : list N) (ch : bool) : bool :=
  leqb (strip s) plain && leqb (fst (trans_ctrl true s)) ansi && Bool.eqb (snd (trans_ctrl true s)) ch.
Definition xenc (m : msg) (w named : list N) : bool :=
  match wire_opt m with Some x => leqb x w && leqb (wire_named m) named | None => false end.
Definition xencerr (m : msg) : bool := match wire_opt m with Some _ => false | None => true end.
"""


class _C17P:
    def __init__(self, s):
        self.s, self.i = s, 0

    def peek(self):
        return self.s[self.i] if self.i < len(self.s) else ""

    def expect(self, ch):
        if self.peek() != ch:
            raise ValueError("expected %s at %d" % (ch, self.i))
        self.i += 1

    def hexs(self):
        if self.peek() == "-":
            self.i += 1
            return "[]"
        st = self.i
        while self.peek() and self.peek() in "0123456789abcdef":
            self.i += 1
        return bytes_of_hex(self.s[st:self.i] or "-")

    def lst(self, item):
        self.expect("[")
        out = []
        if self.peek() == "]":
            self.i += 1
            return out
        out.append(item())
        while self.peek() == ",":
            self.i += 1
            out.append(item())
        self.expect("]")
        return out

    def msg(self):
        self.expect("M"); self.expect("(")
        text = self.hexs(); self.expect(",")
        fl = self.s[self.i:self.i + 5]; self.i += 5; self.expect(",")
        if len(fl) != 5 or any(c not in "01" for c in fl):
            raise ValueError("flags")
        font = self.hexs(); self.expect(",")
        color = self.hexs(); self.expect(",")
        ins = self.hexs(); self.expect(",")
        if self.peek() == "_":
            self.i += 1
            click = "None"
        else:
            self.expect("C"); self.expect("(")
            a = self.hexs(); self.expect(","); v = self.hexs(); self.expect(")")
            click = "(Some (%s, %s))" % (a, v)
        self.expect(",")
        if self.peek() == "_":
            self.i += 1
            hover = "None"
        else:
            self.expect("H"); self.expect("(")
            a = self.hexs(); self.expect(","); v = self.msg(); self.expect(")")
            hover = "(Some (%s, %s))" % (a, v)
        self.expect(",")
        tr = self.hexs(); self.expect(",")
        args = self.lst(self.arg); self.expect(",")
        extra = self.lst(self.msg)
        self.expect(")")
        b = ["true" if c == "1" else "false" for c in fl]
        return "(Msg %s (mkStyle %s %s %s %s %s) %s %s [%s] [%s])" % (
            text, " ".join(b), font, color, ins, click, hover, tr, "; ".join(args), "; ".join(extra))

    def arg(self):
        if self.peek() == "S":
            self.i += 1
            self.expect("("); s = self.hexs(); self.expect(")")
            return "(AS %s)" % s
        return "(AM %s)" % self.msg()


def c17(case, out):
    c, o = case.split(), out.split()
    if not c or not o or c[0] != o[0]:
        return None
    if c[0] == "strip" and len(c) == 2 and len(o) == 4 and o[3] in ("true", "false"):
        return "xstrip %s %s %s %s" % (bytes_of_hex(c[1]), bytes_of_hex(o[1]), bytes_of_hex(o[2]), o[3])
    if c[0] == "enc" and len(c) == 2:
        p = _C17P(c[1])
        m = p.msg()
        if p.i != len(c[1]):
            return None
        if len(o) == 2 and o[1] == "err":
            return "xencerr %s" % m
        if len(o) >= 3:
            return "xenc %s %s %s" % (m, bytes_of_hex(o[1]), bytes_of_hex(o[2]))
    return None


# ------------------------------------------------------------------ C10
C10_DEFS = """
Definition xref (k : N) (de : bool) (iv0 m out : list N) := leqb (toy_ref k de iv0 m) out.
Definition xblk (k : N) (b out : list N) := leqb (toyE k b) out.
Definition xstep_eqb (a : option (state * list N)) (b : option (list N * list N * N)) : bool :=
  match a, b with
  | None, None => true
  | Some (st, out), Some (o, i, p) => leqb out o && leqb (iv st) i && N.eqb (N.of_nat (pos st)) p
  | _, _ => false end.
Fixpoint xsteps (a : list (option (state * list N))) (b : list (option (list N * list N * N))) : bool :=
  match a, b with [], [] => true | x :: a', y :: b' => xstep_eqb x y && xsteps a' b' | _, _ => false end.
Definition xseq (k : N) (de : bool) (iv0 : list N) (cs : list call) (e : list (option (list N * list N * N))) :=
  xsteps (toy_trace k de iv0 cs) e.
"""


def c10(case, out):
    c, o = case.split(), out.split()
    if not c or not o or c[0] != o[0]:
        return None
    b = lambda x: "true" if x == "1" else "false"
    if c[0] == "ref" and len(c) == 5 and len(o) == 2:
        return "xref %s %s %s %s %s" % (nlit(c[2]), b(c[1]), bytes_of_hex(c[3]), bytes_of_hex(c[4]), bytes_of_hex(o[1]))
    if c[0] == "blk" and len(c) == 3 and len(o) == 2:
        return "xblk %s %s %s" % (nlit(c[1]), bytes_of_hex(c[2]), bytes_of_hex(o[1]))
    if c[0] == "seq" and len(c) >= 4 and (len(c) - 4) % 3 == 0 and len(o) - 1 == (len(c) - 4) // 3:
        calls = []
        for i in range(4, len(c), 3):
            if c[i] not in ("i", "d"):
                return None
            calls.append("{| c_alias := %s; c_src := %s; c_dst := %s |}" % ("InPlace" if c[i] == "i" else "Disjoint", bytes_of_hex(c[i + 1]), bytes_of_hex(c[i + 2])))
        exp = []
        for t in o[1:]:
            if t == "panic":
                exp.append("None")
            else:
                p = t.split(":")
                if len(p) != 3:
                    return None
                exp.append("Some (%s, %s, %s)" % (bytes_of_hex(p[0]), bytes_of_hex(p[1]), nlit(p[2])))
        return "xseq %s %s %s [%s] [%s]" % (nlit(c[2]), b(c[1]), bytes_of_hex(c[3]), "; ".join(calls), "; ".join(exp))
    return None


# ------------------------------------------------------------------ C06
# every kind of driver/c06.ml: enc dec fbs raw plug pkt nbtw nbtr.  Types and values are parsed exactly as p_ty / p_val do;
# the driver's `show` drops the spare capacity of slices, so decoded values are compared up to spare (veq).
C06_DEFS = """
Fixpoint veq (a b : fval) {struct a} : bool :=
  match a, b with
  | VB x, VB y => Bool.eqb x y
  | VZ x, VZ y => Z.eqb x y
  | VBytes x _, VBytes y _ => leqb x y
  | VPos x y z, VPos x' y' z' => Z.eqb x x' && Z.eqb y y' && Z.eqb z z'
  | VList xs _, VList ys _ =>
      (fix go (l m : list fval) : bool :=
         match l, m with [], [] => true | x :: l', y :: m' => veq x y && go l' m' | _, _ => false end) xs ys
  | VOpt h v, VOpt h' v' => Bool.eqb h h' && veq v v'
  | VPair a1 a2, VPair b1 b2 => veq a1 b1 && veq a2 b2
  | VUnit, VUnit => true
  | _, _ => false end.
Fixpoint vseq (a b : list fval) : bool :=
  match a, b with [], [] => true | x :: a', y :: b' => veq x y && vseq a' b' | _, _ => false end.
Definition fl : nat := N.to_nat 6000.
Definition cls {A} (r : fres A) : N := match r with FOk _ _ => 0 | FErr _ => 1 | FPanic _ => 2 | FFuel => 3 end.
Definition xw (r : wres) (b : list N) (n : N) : bool := leqb (fst r) b && N.eqb (snd r) n.
Definition xenc (t : fty) (v : fval) (b : list N) (n : N) := xw (wr t v) b n.
Definition xdec (t : fty) (old : fval) (h : list N) (e : option (fval * N * N)) (k : N) : bool :=
  match run_flat (read_f fl t old) h, e with
  | FOk (v, n) rest, Some (v', n', r') => veq v v' && N.eqb n n' && N.eqb (lenN rest) r'
  | FOk _ _, None => false
  | r, None => N.eqb (cls r) k
  | _, _ => false end.
(* fbs: the driver prints `panic` for a crash AND for exhausted fuel; plug: `err` for everything that is not FOk *)
Definition xfbs (old h : list N) (e : option (list N * N * N)) (k : N) : bool :=
  match run_flat (r_fixedbitset old) h, e with
  | FOk (v, n) rest, Some (v', n', r') => leqb v v' && N.eqb n n' && N.eqb (lenN rest) r'
  | FOk _ _, None => false
  | FErr _, None => N.eqb k 1
  | _, None => N.eqb k 2
  | _, _ => false end.
Definition xplug (h : list N) e k := match r_plugin h, e with
  | FOk (v, n) rest, Some (v', n', r') => leqb v v' && N.eqb n n' && N.eqb (lenN rest) r'
  | FOk _ _, None => false | _, None => N.eqb k 1 | _, _ => false end.
Definition xpkt (fs : list (fty * fval * fval)) (extra data : list N) (e : option (list fval)) (k : N) : bool :=
  let d := marshal (map (fun x => (fst (fst x), snd (fst x))) fs) in
  leqb d data &&
  match run_flat (scan fl (map (fun x => (fst (fst x), snd x)) fs)) (d ++ extra), e with
  | FOk vs _, Some vs' => vseq vs vs'
  | FOk _ _, None => false
  | r, None => N.eqb (cls r) k
  | _, _ => false end.
Definition xnbtw (enc : option (list (list N))) (b : list N) (n : N) := xw (w_nbtfield enc) b n.
(* the stand-in NBT decoder driver/c06.ml builds by hand: a root TagEnd raises ErrEND (class 7), any other document
   consumes exactly its image *)
Definition xnbtr (img tail : list N) (keep : nat) (e : option (N * N)) (k : N) : bool :=
  let d := ReadByte (fun id => if N.eqb id 0 then Fail 7 else ReadFull (lenN img - 1) (fun bs => Ret bs)) in
  match run_flat (r_nbtfield 7 d) (firstn keep img ++ tail), e with
  | FOk (_, n) rest, Some (n', r') => N.eqb n n' && N.eqb (lenN rest) r'
  | FOk _ _, None => false
  | r, None => N.eqb (cls r) k
  | _, _ => false end.
"""

_HEXD = "0123456789abcdef"
C06_LEAF = {"bool": "TBool", "i8": "TByte", "u8": "TUByte", "i16": "TShort", "u16": "TUShort", "i32": "TInt", "i64": "TLong",
            "f32": "TFloat", "f64": "TDouble", "vi": "TVarInt", "vl": "TVarLong", "str": "TString", "ba": "TByteArray",
            "uuid": "TUUID", "ang": "TAngle", "pos": "TPosition", "bits": "TBitSet"}
C06_LENK = {"vi": "LVarInt", "vl": "LVarLong", "i8": "LByte", "u8": "LUByte", "i16": "LShort", "u16": "LUShort", "i32": "LInt", "i64": "LLong"}
CLS = {"ok": 0, "err": 1, "panic": 2, "fuel": 3}


def strict_hex(h):
    """what conv.ml's bytes_of_hex accepts without raising: "-", "" or an even number of hex digits"""
    if h in ("-", ""):
        return "[]"
    if len(h) % 2 or any(ch not in _HEXD for ch in h):
        raise ValueError("hex " + h)
    return bytes_of_hex(h)


def strict_dec(d):
    if not d or d == "-" or not (d.lstrip("-").isdigit() and d.count("-") == (1 if d[0] == "-" else 0)):
        raise ValueError("decimal " + d)
    return zlit(d)


class _C06P:
    """the cursor of driver/c06.ml (peek / adv / expect / take_while)"""

    def __init__(self, s):
        self.s, self.i = s, 0

    def peek(self):
        return self.s[self.i] if self.i < len(self.s) else "\0"

    def expect(self, ch):
        if self.peek() != ch:
            raise ValueError("expected %s at %d" % (ch, self.i))
        self.i += 1

    def take(self, pred):
        st = self.i
        while self.i < len(self.s) and pred(self.s[self.i]):
            self.i += 1
        return self.s[st:self.i]

    @staticmethod
    def alnum(ch):
        return "a" <= ch <= "z" or "0" <= ch <= "9"

    @staticmethod
    def hexch(ch):
        return "a" <= ch <= "f" or "0" <= ch <= "9" or ch == "-"

    @staticmethod
    def num(ch):
        return "0" <= ch <= "9" or ch == "-"

    def ty(self):
        w = self.take(self.alnum)
        if w in C06_LEAF:
            return C06_LEAF[w]
        if w == "ary":
            self.expect(":")
            k = C06_LENK.get(self.take(self.alnum))
            if k is None:
                raise ValueError("len kind")
            self.expect("("); e = self.ty(); self.expect(")")
            return "(TAry %s %s)" % (k, e)
        if w in ("option", "opt1", "opt0"):
            self.expect("("); e = self.ty(); self.expect(")")
            return {"option": "(TOption %s)", "opt1": "(TOpt true %s)", "opt0": "(TOpt false %s)"}[w] % e
        if w == "tup":
            self.expect("(")
            items = []
            while self.peek() != ")":
                items.append(self.ty())
                if self.peek() == ",":
                    self.i += 1
            self.i += 1
            t = "TUnit"
            for x in reversed(items):
                t = "(TPair %s %s)" % (x, t)
            return t
        raise ValueError("type " + w)

    def val(self):
        ch = self.peek()
        if ch == "t":
            self.i += 1
            return "(VB true)"
        if ch == "f":
            self.i += 1
            return "(VB false)"
        if ch == "x":
            self.i += 1
            b = self.take(self.hexch)
            sp = "-"
            if self.peek() == "+":
                self.i += 1
                sp = self.take(self.hexch)
            return "(VBytes %s %s)" % (strict_hex(b), strict_hex(sp))
        if ch == "p":
            self.i += 1
            self.expect("("); x = self.take(self.num); self.expect(",")
            y = self.take(self.num); self.expect(","); z = self.take(self.num); self.expect(")")
            return "(VPos %s %s %s)" % (strict_dec(x), strict_dec(y), strict_dec(z))
        if ch == "[":
            self.i += 1
            xs = self.items()
            sp = []
            if self.peek() == "|":
                self.i += 1
                sp = self.items()
            self.expect("]")
            return "(VList [%s] [%s])" % ("; ".join(xs), "; ".join(sp))
        if ch in ("s", "n"):
            self.take(self.alnum)
            self.expect("("); v = self.val(); self.expect(")")
            return "(VOpt %s %s)" % ("true" if ch == "s" else "false", v)
        if ch == "(":
            self.i += 1
            items = []
            while self.peek() != ")":
                items.append(self.val())
                if self.peek() == ",":
                    self.i += 1
            self.i += 1
            t = "VUnit"
            for x in reversed(items):
                t = "(VPair %s %s)" % (x, t)
            return t
        return "(VZ %s)" % strict_dec(self.take(self.num))

    def items(self):
        out = []
        while self.peek() not in ("]", "|"):
            out.append(self.val())
            if self.peek() == ",":
                self.i += 1
        return out


def c06_ty(s):
    return _C06P(s).ty()          # like ty_of: what follows the type is ignored by the driver too


def c06_val(s):
    return _C06P(s).val()


def c06_shown(s):
    """a value as the driver's `show` prints it; `!` marks an improper tuple, which p_val cannot read back"""
    if "!" in s:
        raise ValueError("improper tuple")
    p = _C06P(s)
    v = p.val()
    if p.i != len(s):
        raise ValueError("trailing " + s)
    return v


def c06(case, out):
    c, o = case.split(" "), out.split(" ")
    c, o = [x for x in c if x], [x for x in o if x]
    if not c or not o or c[0] != o[0]:
        return None
    k = c[0]
    if k == "enc" and len(c) == 3 and len(o) == 3:
        return "xenc %s %s %s %s" % (c06_ty(c[1]), c06_val(c[2]), strict_hex(o[1]), nlit(o[2]))
    if k == "dec" and len(c) == 4:
        head = "xdec %s %s %s" % (c06_ty(c[1]), c06_val(c[2]), strict_hex(c[3]))
        if len(o) == 5 and o[1] == "ok":
            return "%s (Some (%s, %s, %s)) 0" % (head, c06_shown(o[2]), nlit(o[3]), nlit(o[4]))
        if len(o) == 2 and o[1] in ("err", "panic", "fuel"):
            return "%s None %d" % (head, CLS[o[1]])
    if k == "fbs" and len(c) == 3:
        head = "xfbs %s %s" % (strict_hex(c[1]), strict_hex(c[2]))
        if len(o) == 5 and o[1] == "ok":
            return "%s (Some (%s, %s, %s)) 0" % (head, strict_hex(o[2]), nlit(o[3]), nlit(o[4]))
        if len(o) == 2 and o[1] in ("err", "panic"):
            return "%s None %d" % (head, CLS[o[1]])
    if k == "raw" and len(c) == 2 and len(o) == 3:
        return "xw (w_raw %s) %s %s" % (strict_hex(c[1]), strict_hex(o[1]), nlit(o[2]))
    if k == "plug" and len(c) == 2:
        if len(o) == 5 and o[1] == "ok":
            return "xplug %s (Some (%s, %s, %s)) 0" % (strict_hex(c[1]), strict_hex(o[2]), nlit(o[3]), nlit(o[4]))
        if len(o) == 2 and o[1] == "err":
            return "xplug %s None 1" % strict_hex(c[1])
    if k == "pkt" and len(c) >= 2 and (len(c) - 2) % 3 == 0 and len(o) >= 3:
        fs = ["(%s, %s, %s)" % (c06_ty(c[i]), c06_val(c[i + 1]), c06_val(c[i + 2])) for i in range(1, len(c) - 1, 3)]
        head = "xpkt [%s] %s %s" % ("; ".join(fs), strict_hex(c[-1]), strict_hex(o[1]))
        if o[2] == "ok" and len(o) - 3 == len(fs):
            return "%s (Some [%s]) 0" % (head, "; ".join(c06_shown(x) for x in o[3:]))
        if len(o) == 3 and o[2] in ("err", "panic", "fuel"):
            return "%s None %d" % (head, CLS[o[2]])
    if k == "nbtw" and len(c) == 2 and len(o) == 3:
        enc = "None" if c[1] == "nil" else "(Some [%s])" % "; ".join(strict_hex(x) for x in c[1].split(","))
        return "xnbtw %s %s %s" % (enc, strict_hex(o[1]), nlit(o[2]))
    if k == "nbtr" and len(c) == 4:
        if not c[3].lstrip("-").isdigit():
            return None
        ln, cut = (len(c[1]) // 2 if c[1] != "-" else 0), int(c[3])
        if ln == 0:
            return None                     # the driver's n_of_int (len - 1) is meaningless on an empty image
        keep = ln - cut if ln - cut >= 0 else ln       # the driver's `take` with a negative count takes everything
        head = "xnbtr %s %s %d%%nat" % (strict_hex(c[1]), strict_hex(c[2]), keep)
        if len(o) == 4 and o[1] == "ok":
            return "%s (Some (%s, %s)) 0" % (head, nlit(o[2]), nlit(o[3]))
        if len(o) == 2 and o[1] in ("err", "panic", "fuel"):
            return "%s None %d" % (head, CLS[o[1]])
    return None


# ------------------------------------------------------------------ C07
# every kind of driver/c07.ml: pack packhdr own unpackn plainz conn.  zlib is an oracle of the model, handed over per case
# as a table, so the evaluation inside Coq is cheap.  The driver's ` oracle-miss` flag is a side effect of its lookup
# function and is not compared (the results around it are).
C07_DEFS = """
Definition stale : list N := [222; 173; 190; 239; 0; 128; 1].
Definition xpack (thr id : Z) (d zb : list N) (some : bool) (infl : list N) (ln : N) (frame : list N) (ok : bool) : bool :=
  let fr := pack (fun _ => zb) thr stale (id, d) in
  let strict := fun arg => if leqb arg zb && some then Some infl else None in
  let okk := match spec_frame_reader strict thr fr with Some (i, dd) => Z.eqb i id && leqb dd d | None => false end in
  leqb fr frame && N.eqb (lenN d) ln && Bool.eqb okk ok.
Definition xpackhdr (thr id : Z) (n zn : N) (h : list N) (c : bool) : bool :=
  let r := pack_hdr thr id n zn in leqb (fst r) h && Bool.eqb (snd r) c.
Definition cls {A} (r : fres A) : N := match r with FOk _ _ => 0 | FErr _ => 1 | FPanic _ => 2 | FFuel => 3 end.
Definition oracle (es : list (list N * option (list N))) (arg : list N) : option (list N) :=
  match find (fun e => leqb (fst e) arg) es with Some e => snd e | None => None end.
Fixpoint pools (i : nat) (n : nat) : list (list N) :=
  match n with O => [] | S n' => (if Nat.even i then stale else []) :: pools (S i) n' end.
Fixpoint rs_eqb (a : list rstate) (b : list (Z * N * list N)) : bool :=
  match a, b with
  | [], [] => true
  | r :: a', (i, c, d) :: b' => Z.eqb (r_id r) i && N.eqb (r_cap r) c && leqb (r_data r) d && rs_eqb a' b'
  | _, _ => false end.
Definition old0 (cap : N) : rstate := {| r_id := 77; r_data := []; r_cap := cap |}.
(* oracle entries arrive as (offset, length) into the input, like in the case line *)
Definition xunpackn (thr : Z) (count : nat) (oldcap : N) (inp : list N) (es : list (nat * nat * option (list N)))
    (e : option (list (Z * N * list N) * N)) (k : N) : bool :=
  let tb := map (fun x => (firstn (snd (fst x)) (skipn (fst (fst x)) inp), snd x)) es in
  match run_flat (unpack_seq (oracle tb) thr (pools 0 count) (old0 oldcap)) inp, e with
  | FOk rs rest, Some (rs', l) => rs_eqb rs rs' && N.eqb (lenN rest) l
  | FOk _ _, None => false
  | r, None => N.eqb (cls r) k
  | _, _ => false end.
(* conn: the deflate / inflate table of the case, latest event first, keyed by VarInt(id) ++ payload *)
Definition xconn (oldcap : N) (trail : list N) (evs : list (ev N)) (tb0 : list (Z * list N * list N)) (wire : list N)
    (e : option (list (Z * N * list N) * N * Z * Z)) (k : N) : bool :=
  let tb := map (fun x => (write32 (fst (fst x)) ++ snd (fst x), snd x)) tb0 in
  let defl := fun x => match find (fun e => leqb (fst e) x) tb with Some e => snd e | None => [] end in
  let infl := fun z => match find (fun e => leqb (snd e) z) tb with Some e => Some (fst e) | None => None end in
  let '(w, ca) := send_all N toy_enc defl (wrap_conn2 N) evs in
  leqb w wire &&
  match recv_all N toy_dec infl (wrap_conn2 N) evs (old0 oldcap) (w ++ trail), e with
  | FOk (rs, cb) rest, Some (rs', l, ta, tb') => rs_eqb rs rs' && N.eqb (lenN rest) l && Z.eqb (k_thr N ca) ta && Z.eqb (k_thr N cb) tb'
  | FOk _ _, None => false
  | r, None => N.eqb (cls r) k
  | _, _ => false end.
"""


def natlit(s):
    if not s.isdigit():
        raise ValueError("nat " + s)
    return "%d%%nat" % int(s)


def unlit(s):
    if not s.isdigit():
        raise ValueError("N " + s)
    return nlit(s)


def c07_rs(toks):
    if len(toks) % 3:
        raise ValueError("rstate triples")
    return "[%s]" % "; ".join("(%s, %s, %s)" % (strict_dec(toks[j]), unlit(toks[j + 1]), strict_hex(toks[j + 2])) for j in range(0, len(toks), 3))


def c07(case, out):
    c = [x for x in case.split(" ") if x]
    o = [x for x in out.split(" ") if x and x != "oracle-miss"]
    if not c or not o or c[0] != o[0]:
        return None
    k = c[0]
    b = lambda x: "true" if x else "false"
    if k == "pack" and len(c) == 7 and len(o) == 6 and o[1:3] == c[1:3] and o[5] in ("spec=ok", "spec=bad"):
        return "xpack %s %s %s %s %s %s %s %s %s" % (strict_dec(c[1]), strict_dec(c[2]), strict_hex(c[3]), strict_hex(c[4]), b(c[5] == "some"),
                                                    strict_hex(c[6]) if c[5] == "some" else "[]", unlit(o[3]), strict_hex(o[4]), b(o[5] == "spec=ok"))
    if k == "packhdr" and len(c) == 5 and len(o) == 7 and o[1:5] == c[1:5] and o[6] in ("z", "p"):
        return "xpackhdr %s %s %s %s %s %s" % (strict_dec(c[1]), strict_dec(c[2]), unlit(c[3]), unlit(c[4]), strict_hex(o[5]), b(o[6] == "z"))
    if k == "own" and len(c) == 4 and len(o) == 5 and o[1:4] == c[1:4] and o[4] in ("ok", "err"):
        return "Bool.eqb (own_accepts %s %s %s) %s" % (strict_dec(c[1]), strict_dec(c[2]), unlit(c[3]), b(o[4] == "ok"))
    if k == "plainz" and len(c) == 4 and len(o) == 5 and o[1:4] == c[1:4] and o[4] in ("ok", "err"):
        return "Bool.eqb (plain_accepts %s %s) %s" % (strict_dec(c[2]), unlit(c[3]), b(o[4] == "ok"))
    if k == "unpackn" and len(c) >= 6 and len(o) >= 5 and o[1:4] == c[1:4]:
        m = int(natlit(c[5])[:-4])
        toks = c[6:]
        if len(toks) < 4 * m:
            return None
        es = []
        for j in range(m):
            zoff, zlen, kind, outh = toks[4 * j:4 * j + 4]
            es.append("(%s, %s, %s)" % (natlit(zoff), natlit(zlen), "Some %s" % strict_hex(outh) if kind == "some" else "None"))
        head = "xunpackn %s %s %s %s [%s]" % (strict_dec(c[1]), natlit(c[2]), unlit(c[3]), strict_hex(c[4]), "; ".join(es))
        if o[4] == "r=ok" and o[-1].startswith("left="):
            return "%s (Some (%s, %s)) 0" % (head, c07_rs(o[5:-1]), unlit(o[-1][5:]))
        if len(o) == 5 and o[4] in ("r=err", "r=panic", "r=fuel"):
            return "%s None %d" % (head, CLS[o[4][2:]])
        return None
    if k == "conn" and len(c) >= 4 and len(o) >= 5 and o[1] == c[1] and o[2] == c[3] and o[3].startswith("wire="):
        nev = int(natlit(c[3])[:-4])
        toks, evs, tb = c[4:], [], []
        for kk in range(nev, 0, -1):
            if toks[:1] == ["P"] and len(toks) >= 4:
                idz, d = strict_dec(toks[1]), strict_hex(toks[2])
                if toks[3] != "-":
                    tb.insert(0, "(%s, %s, %s)" % (idz, d, strict_hex(toks[3])))
                evs.append("EPacket N %s %s (%s, %s)" % ("stale" if kk % 2 == 0 else "[]", "stale" if kk % 3 == 0 else "[]", idz, d))
                toks = toks[4:]
            elif toks[:1] == ["T"] and len(toks) >= 2:
                evs.append("EThreshold N %s" % strict_dec(toks[1]))
                toks = toks[2:]
            elif toks[:1] == ["C"] and len(toks) >= 5:
                evs.append("ECipher N %s %s %s %s" % tuple(unlit(x) for x in toks[1:5]))
                toks = toks[5:]
            else:
                return None
        head = "xconn %s %s [%s] [%s] %s" % (unlit(c[1]), strict_hex(c[2]), "; ".join(evs), "; ".join(tb), strict_hex(o[3][5:]))
        if o[4] == "r=ok" and len(o) >= 7 and o[-2].startswith("left=") and o[-1].startswith("thr=") and "/" in o[-1]:
            ta, tbb = o[-1][4:].split("/")
            return "%s (Some (%s, %s, %s, %s)) 0" % (head, c07_rs(o[5:-2]), unlit(o[-2][5:]), strict_dec(ta), strict_dec(tbb))
        if len(o) == 5 and o[4] in ("r=err", "r=panic", "r=fuel"):
            return "%s None %d" % (head, CLS[o[4][2:]])
        return None
    return None


# ------------------------------------------------------------------ C14 / C15 (one model, one driver)
# kind converted: hist (histories of WriteSector / ReadSector / ExistSector / PadToFullSector / reopen / WriteSector on
# a failing medium, with every observation and the final file digest).  The driver prints FNV-1a digests computed with
# OCaml Int64 arithmetic; here the same digest is computed in N modulo 2^64.  Histories that carry more than
# C14_MAXBYTES payload bytes (the 1 MiB `toolarge` writes) are left out; kinds raw and crash are skipped by kind: their
# answers are digests of PRINTED text (decimal / hex renderings of 1024 read results per image), which has no
# counterpart inside Coq.
C14_MAXBYTES = 40000
C14_DEFS = """
Definition M64 : N := 18446744073709551616.
Definition fstep (h c : N) : N := N.land (1099511628211 * N.lxor h c) (M64 - 1).   (* land, not mod: linear *)
Definition finit : N := 14695981039346656037.
Definition fnv (l : list N) : N := fold_left fstep l finit.
Fixpoint payload_from (seed i : N) (n : nat) : list N :=
  match n with O => [] | S n' => N.land (seed + i * 13 + N.shiftr i 8 * 7) 255 :: payload_from seed (i + 1) n' end.
Definition payload (seed : N) (n : N) : list N := payload_from seed 0 (N.to_nat n).
Fixpoint ws_eqb (ws : list wr) (e : list (N * N * N)) : bool :=
  match ws, e with
  | [], [] => true
  | (p, (_, d)) :: ws', (p', l, h) :: e' => N.eqb p p' && N.eqb (lenN d) l && N.eqb (fnv d) h && ws_eqb ws' e'
  | _, _ => false end.
Definition tab_hash (m : nmap) : N :=
  fold_left (fun h i => let v := getN m (N.of_nat i) in
     fstep (fstep (fstep (fstep h ((v / 16777216) mod 256)) ((v / 65536) mod 256)) ((v / 256) mod 256)) (v mod 256)) (seq 0 1024) finit.
(* what the driver printed for one operation *)
Inductive xo := XW (r : N) (ws : list (N * N * N)) | XRok (l h : N) | XR (r : N) | XE (b : bool) | XP (ws : list (N * N * N))
  | XO (e : option (N * N)).
Inductive xop := Op (o : op) | Wf (x z len seed now : N) (k : nat) (short : N).
Definition obs_ok (s' : st) (b : obs) (x : xo) : bool :=
  match b, x with
  | BWrite r ws, XW r' e => N.eqb (match r with WOk => 0 | WTooLarge => 1 | WOutside => 2 end) r' && ws_eqb ws e
  | BRead (ROk d), XRok l h => N.eqb (lenN d) l && N.eqb (fnv d) h
  | BRead r, XR r' => N.eqb (match r with ROk _ => 0 | RNoSector => 1 | RNoData => 2 | RNegative => 3 | RTooLarge => 4 | REOF => 5 end) r'
  | BExist v, XE v' => Bool.eqb v v'
  | BPad ws, XP e => ws_eqb ws e
  | BReopen true, XO (Some (a, c)) => N.eqb (tab_hash (offs s')) a && N.eqb (tab_hash (tss s')) c
  | BReopen false, XO None => true
  | _, _ => false end.
Fixpoint fhash (fuel : nat) (f : file) (pos sz h : N) : N :=
  match fuel with O => h | S k =>
    if sz <=? pos then h else
    let n := N.min 4096 (sz - pos) in fhash k f (pos + n) sz (fold_left fstep (read_range f pos n) h) end.
Fixpoint xhist (s : st) (ops : list (xop * xo)) (size h : N) : bool :=
  match ops with
  | [] => let f := img s in N.eqb (fsize f) size && N.eqb (fhash (N.to_nat (size / 4096 + 2)) f 0 size finit) h
  | (Op o, x) :: t => let '(s', b) := step s o in obs_ok s' b x && xhist s' t size h
  | (Wf x z len seed now k short, e) :: t =>
      let '(s', ws, r) := write_sector_fail k short s x z (payload seed len) now in
      match e with
      | XW r' e' => N.eqb (match r with WFOk => 0 | WFTooLarge => 1 | WFOutside => 2 | WFErr => 3 end) r' && ws_eqb ws e'
      | _ => false end && xhist s' t size h
  end.
"""
C14_W = {"ok": 0, "toolarge": 1, "outside": 2, "err": 3}
C14_R = {"nosector": 1, "nodata": 2, "neg": 3, "toolarge": 4, "eof": 5}


def hexn(h):
    if not h or any(ch not in _HEXD for ch in h):
        raise ValueError("hex64 " + h)
    return nlit(int(h, 16))


def c14_writes(toks):
    """<count> <pos>:<len>:<fnv> ..."""
    if not toks or int(toks[0]) != len(toks) - 1:
        raise ValueError("writes")
    out = []
    for t in toks[1:]:
        a, b, c = t.split(":")
        out.append("(%s, %s, %s)" % (unlit(a), unlit(b), hexn(c)))
    return "[%s]" % "; ".join(out)


def c14(case, out):
    if not case.startswith("hist ") or not out.startswith("hist "):
        return None
    ops, total = [], 0
    for txt in case[5:].split(";"):
        t = [x for x in txt.split(" ") if x]
        if len(t) == 6 and t[0] == "w":
            total += int(natlit(t[3])[:-4])
            ops.append(("W", "Op (OWrite %s %s (payload %s %s) %s)" % (unlit(t[1]), unlit(t[2]), unlit(t[4]), unlit(t[3]), unlit(t[5]))))
        elif len(t) == 8 and t[0] == "wf":
            total += int(natlit(t[3])[:-4])
            ops.append(("W", "Wf %s %s %s %s %s %s %s" % (unlit(t[1]), unlit(t[2]), unlit(t[3]), unlit(t[4]), unlit(t[5]), natlit(t[6]), unlit(t[7]))))
        elif len(t) == 3 and t[0] in ("r", "e"):
            ops.append((t[0].upper(), "Op (%s %s %s)" % ("ORead" if t[0] == "r" else "OExist", unlit(t[1]), unlit(t[2]))))
        elif t == ["p"]:
            ops.append(("P", "Op OPad"))
        elif t == ["o"]:
            ops.append(("O", "Op OReopen"))
        # anything else is dropped by the driver too (filter_map)
    if total > C14_MAXBYTES:
        return None
    obs = out[5:].split("|")
    if len(obs) != len(ops) + 1:
        return None
    pairs = []
    for (tag, op), ob in zip(ops, obs):
        t = [x for x in ob.split(" ") if x]
        if t[0] != tag:
            return None
        if tag == "W" and len(t) >= 3 and t[1] in C14_W:
            x = "XW %d %s" % (C14_W[t[1]], c14_writes(t[2:]))
        elif tag == "R" and len(t) == 4 and t[1] == "ok":
            x = "XRok %s %s" % (unlit(t[2]), hexn(t[3]))
        elif tag == "R" and len(t) == 2 and t[1] in C14_R:
            x = "XR %d" % C14_R[t[1]]
        elif tag == "E" and len(t) == 2 and t[1] in ("true", "false"):
            x = "XE %s" % t[1]
        elif tag == "P" and len(t) >= 3 and t[1] == "ok":
            x = "XP %s" % c14_writes(t[2:])
        elif tag == "O" and len(t) == 4 and t[1] == "ok":
            x = "XO (Some (%s, %s))" % (hexn(t[2]), hexn(t[3]))
        elif tag == "O" and t[1:] == ["err"]:
            x = "XO None"
        else:
            return None
        pairs.append("(%s, %s)" % (op, x))
    f = [x for x in obs[-1].split(" ") if x]
    if len(f) != 3 or f[0] != "F":
        return None
    return "xhist create [%s] %s %s" % ("; ".join(pairs), unlit(f[1]), hexn(f[2]))


# ------------------------------------------------------------------ C18
# kinds converted: dig tdig twos lb const aes vs pkv tvs tpkv (hand model AND the functions translated into Gen/C18gen.v).
# SHA-1 / SHA-256 / base64 / RSA are per-case oracles, rebuilt here exactly as the driver builds them (the base64 Write
# calls of b64_chunks / b64_parts are recomputed in this file).  vs / tvs: the driver reports the SHA-256 argument
# through a side effect; here the oracle answers with the case's digest only for that reported argument.
# Skipped by kind: uuid tuuid (MD5 is OCaml's Digest in the driver - no counterpart inside Coq), tlb encr hs (stateful
# driver loops over translated methods with many oracle arguments; left to the extracted driver).
C18_DEFS = """
From GoMC Require Import Model.C18_enc Gen.C18gen.
Definition rb_eqb (r : res bool) (k : N) : bool :=
  match r with Ok false => N.eqb k 0 | Ok true => N.eqb k 1 | Panic => N.eqb k 2 | OutOfFuel => N.eqb k 3 end.
Definition rl_eqb (r : res (list N)) (e : option (list N)) (k : N) : bool :=
  match r, e with Ok a, Some b => leqb a b | Ok _, None => false | Panic, None => N.eqb k 2 | OutOfFuel, None => N.eqb k 3 | _, _ => false end.
Definition sha1o (arg hb : list N) (m : list N) : list N := if leqb m arg then hb else [].
Definition xdig (tr bot : bool) (sid secret key hb : list N) (e : option (list N)) (k : N) (jh : option (list N)) : bool :=
  let f := if tr then (if bot then bot_authDigest else auth_authDigest) else (if bot then bot_auth_digest else server_auth_digest) in
  rl_eqb (f (sha1o (sid ++ secret ++ key) hb) sid secret key) e k &&
  match jh with Some t => leqb (java_hex (signed_be hb)) t | None => true end.
Definition xlb (chunks : list (list N)) (e : option (list N * list N)) (k : N) (pem : list N) : bool :=
  match lb_run chunks, e with
  | Ok (out, ns), Some (out', ns') => leqb out out' && leqb ns ns'
  | Ok _, None => false | Panic, None => N.eqb k 2 | OutOfFuel, None => N.eqb k 3 | _, _ => false end
  && leqb (pem_lines (concat chunks)) pem.
Definition rsao (fp h sg : list N) (v : bool) (k hh s : list N) : bool := leqb k fp && leqb hh h && leqb s sg && v.
Definition sha256o (payload h : list N) (m : list N) : list N := if leqb m payload then h else h ++ [0].
(* the SHA-256 argument the driver reported: a second evaluation with the identity as SHA-256 and an RSA oracle that
   accepts exactly that argument must say `true` (nothing is asked when the reported argument is empty) *)
Definition xvs (fp key sg h : list N) (v : bool) (chunks : list (list N)) (payload : list N) (k : N) : bool :=
  let w := fun x => if leqb x key then chunks else [] in
  rb_eqb (verify_signature (list N) w (sha256o payload h) (rsao fp h sg v) fp key sg) k &&
  match payload with [] => true | _ => rb_eqb (verify_signature (list N) w (fun m => m) (fun _ hh _ => leqb hh payload) fp key sg) 1 end.
Definition oeq (a : list N) (b : option (list N)) : bool := match b with Some x => leqb a x | None => false end.
Definition xpkv (fp : list N) (now expires : Z) (der : option (list N)) (sg h : list N) (v : bool) (chunks : list (list N)) (k : N) : bool :=
  rb_eqb (pk_verify (list N) unit (fun x => if oeq x der then chunks else []) (fun _ => h) (rsao fp h sg v) fp (fun _ => der) now expires tt sg) k.
Definition xtvs (fp key sg h : list N) (v : bool) (inner last : list (list N)) (payload : list N) (k : N) : bool :=
  let w := fun data x => match data with [] => if leqb x key then inner else [] | _ => [] end in
  let c := fun data => if leqb data key then last else [] in
  rb_eqb (user_VerifySignature w c (list N) (rsao fp h sg v) fp (sha256o payload h) key sg) k &&
  match payload with [] => true | _ => rb_eqb (user_VerifySignature w c (list N) (fun _ hh _ => leqb hh payload) fp (fun m => m) key sg) 1 end.
Definition xtpkv (fp : list N) (now expires : Z) (der : option (list N)) (sg h : list N) (v : bool) (inner last : list (list N)) (k : N) : bool :=
  rb_eqb (user_PublicKey_Verify unit now (fun _ => der)
            (fun data x => match data with [] => if oeq x der then inner else [] | _ => [] end)
            (fun data => if oeq data der then last else []) (list N) (rsao fp h sg v) fp (fun _ => h) expires tt sg) k.
"""
C18_RES = {"0": 0, "1": 1, "panic": 2, "fuel": 3}


def c18_text(tok):
    """text_of: '=' followed by the raw bytes (accepted only when they are printable ASCII)"""
    if not tok.startswith("=") or any(not (33 <= ord(ch) < 127) for ch in tok[1:]):
        raise ValueError("text")
    return "[" + ";".join(str(ord(ch)) for ch in tok[1:]) + "]%N" if len(tok) > 1 else "[]"


def hexlen(h):
    strict_hex(h)
    return 0 if h in ("-", "") else len(h) // 2


def hexsub(h, a, b):
    h = "" if h == "-" else h
    return strict_hex(h[2 * a:2 * b])


def c18_chunks(keylen, text):
    """driver/c18.ml b64_chunks, on hex text"""
    total = hexlen(text)
    interior = min(keylen // 3 * 4, total)
    cs, pos = [], 0
    while pos < interior:
        e = min(pos + 1024, interior)
        cs.append(hexsub(text, pos, e))
        pos = e
    inner, last = list(cs), []
    if total > interior:
        last = [hexsub(text, interior, total)]
    return inner, last


def c18(case, out):
    c = [x for x in case.split(" ") if x]
    o = [x for x in out.split(" ") if x]
    if not c or not o or c[0] != o[0]:
        return None
    k = c[0]
    b = lambda x: "true" if x else "false"
    gl = lambda l: "[%s]" % "; ".join(l)
    if k in ("dig", "tdig") and len(c) == 6 and len(o) == (4 if k == "dig" else 3) and o[1] == c[1]:
        e, kk = ("None", C18_RES[o[2]]) if o[2] in ("panic", "fuel") else ("(Some %s)" % c18_text(o[2]), 0)
        jh = "(Some %s)" % c18_text(o[3]) if k == "dig" else "None"
        return "xdig %s %s %s %s %s %s %s %d %s" % (b(k == "tdig"), b(c[1] == "bot"), strict_hex(c[2]), strict_hex(c[3]), strict_hex(c[4]), strict_hex(c[5]), e, kk, jh)
    if k == "twos" and len(c) == 3 and len(o) == 3 and o[1] == c[1]:
        return "leqb (twos %s) %s" % (strict_hex(c[2]), strict_hex(o[2]))
    if k == "lb" and len(c) == 2:
        chunks = [] if c[1] == "." else [strict_hex(x) for x in c[1].split(",")]
        if len(o) == 4:
            ns = "[]" if o[2] == "." else "[%s]%%N" % ";".join(str(int(natlit(x)[:-4])) for x in o[2].split(","))
            return "xlb %s (Some (%s, %s)) 0 %s" % (gl(chunks), strict_hex(o[1]), ns, strict_hex(o[3]))
        if len(o) == 3 and o[1] in ("panic", "fuel"):
            return "xlb %s None %d %s" % (gl(chunks), C18_RES[o[1]], strict_hex(o[2]))
    if k == "const" and c == ["const", "pemLineLength"] and len(o) == 3:
        return "N.eqb pem_line_length %s" % unlit(o[2])
    if k == "aes" and len(c) == 2 and len(o) == 3 and o[1] == c[1] and o[2] in ("0", "1"):
        return "Bool.eqb (aes_key_ok (repeat 0%%N %s)) %s" % (natlit(c[1]), b(o[2] == "1"))
    if k in ("vs", "tvs") and len(c) == 7 and len(o) == 3 and o[1] in C18_RES:
        inner, last = c18_chunks(hexlen(c[2]), c[4])
        ch = gl(inner + last) if k == "vs" else "%s %s" % (gl(inner), gl(last))
        return "x%s %s %s %s %s %s %s %s %d" % (k, strict_hex(c[1]), strict_hex(c[2]), strict_hex(c[3]), strict_hex(c[5]), b(c[6] == "1"), ch, strict_hex(o[2]), C18_RES[o[1]])
    if k in ("pkv", "tpkv") and len(c) == 9 and len(o) == 2 and o[1] in C18_RES:
        der = "None" if c[4] == "none" else "(Some %s)" % strict_hex(c[4])
        inner, last = c18_chunks(0 if c[4] == "none" else hexlen(c[4]), c[6])
        ch = gl(inner + last) if k == "pkv" else "%s %s" % (gl(inner), gl(last))
        return "x%s %s %s %s %s %s %s %s %s %d" % (k, strict_hex(c[1]), strict_dec(c[2]), strict_dec(c[3]), der, strict_hex(c[5]), strict_hex(c[7]), b(c[8] == "1"), ch, C18_RES[o[1]])
    return None


# property -> (modules to import after Base.Bytes Base.Dec, definitions, converter)
TABLE = {"C05": ("Model.C05", C05_DEFS, c05), "C11": ("Model.C11", C11_DEFS, c11), "C16": ("Model.C16", C16_DEFS, c16),
         "C17": ("Model.C17", C17_DEFS, c17), "C10": ("Model.C10", C10_DEFS, c10),
         "C06": ("Model.C06", C06_DEFS, c06, 200000),
         "C07": ("Model.C05 Model.C07 Model.C07_conn", C07_DEFS, c07, 300000),
         "C14": ("Model.C14", C14_DEFS, c14), "C15": ("Model.C14", C14_DEFS, c14),
         "C18": ("Model.C18", C18_DEFS, c18, 250000)}


OLD_SAMPLING = (c05, c10, c11, c16, c17)      # the first five keep exactly the sample they always had


def tamper(line):
    """driver answers changed in one place (self-test: the changed answer must be listed), most wanted first: the last
    digit of the line replaced by another one (still a valid decimal / hex digit), an outcome word by a different one"""
    for j in range(len(line) - 1, -1, -1):
        if line[j].isdigit():
            yield line[:j] + ("1" if line[j] == "0" else "0") + line[j + 1:]
            break
    for a, b in (("err", "panic"), ("panic", "err"), ("fuel", "err"), ("ok", "err"), ("true", "false"), ("false", "true"),
                 ("bad", "ok"), ("z", "p"), ("p", "z"), ("some", "none"), ("none", "some")):
        for pre in (" ", "="):
            if line.endswith(pre + a) or (pre + a + " ") in line:
                k = line.rindex(pre + a)
                yield line[:k] + pre + b + line[k + 1 + len(a):]


def main():
    args = [a for a in sys.argv[1:] if not a.startswith("--")]
    selftest = "--tamper" in sys.argv[1:]
    pid, work = args[0], args[1]
    mx = int(args[2]) if len(args) > 2 else 400
    model, defs, conv = TABLE[pid][:3]
    # elaborating the literals costs about 25 us per source character: properties with large payloads get a budget of
    # source characters, shared equally by the case kinds (a case that does not fit is left out, counted in "oversize")
    budget = TABLE[pid][3] if len(TABLE[pid]) > 3 else None
    cases = open(os.path.join(work, "cases.txt"), errors="replace").read().split("\n")
    outs = open(os.path.join(work, "model.txt"), errors="replace").read().split("\n")
    n = min(len(cases), len(outs))
    # an equal share for every case kind the harness emitted, spread evenly over the file
    terms, skipped, oversize, kinds = [], 0, 0, {}
    by_kind = {}
    for i in range(n):
        if cases[i].strip() and len(cases[i]) <= 6000:
            by_kind.setdefault(cases[i].split()[0], []).append(i)
    quota = max(1, mx // max(1, len(by_kind)))
    kbudget = budget // max(1, len(by_kind)) if budget else None
    tampered = []
    for k, idx in sorted(by_kind.items()):
        stride = max(1, len(idx) // quota)
        got, used = 0, 0
        cand = idx[::stride]
        if stride > 1 and conv not in OLD_SAMPLING:
            # used only when the evenly spread pass left room (cases the renderer declines or that exceed the budget)
            cand = cand + idx[stride // 2::stride] + idx[stride // 4::stride] + idx[(3 * stride) // 4::stride]
        for i in cand:
            if got >= quota:
                break
            try:
                t = conv(cases[i], outs[i])
            except (ValueError, IndexError, KeyError):
                t = None
            if t is None:
                skipped += 1
                continue
            if kbudget and used + len(t) > kbudget and got >= 3:
                oversize += 1
                continue
            if selftest and not any(kk == k for kk, _ in tampered):
                # --tamper: one answer per kind is changed before it is rendered; exactly these must be listed
                tt = None
                for tl in tamper(outs[i]):
                    try:
                        tt = conv(cases[i], tl)
                    except (ValueError, IndexError, KeyError):
                        tt = None
                    if tt is not None and tt != t:
                        break
                if tt is not None and tt != t:
                    t = tt
                    tampered.append((k, i))
            terms.append((i, t))
            got += 1
            used += len(t)
        kinds[k] = got
    src = PRELUDE % model + defs + "\nDefinition R : list N := Eval vm_compute in bad [\n" + \
        ";\n".join("  (%d%%N, %s)" % (i, t) for i, t in terms) + "].\nPrint R.\n"
    vf = os.path.join(work, "xcheck_%s.v" % pid)
    open(vf, "w").write(src)
    p = subprocess.run(["coqc", "-Q", COQ, "GoMC", vf], cwd=work, stdout=subprocess.PIPE, stderr=subprocess.STDOUT, text=True, timeout=900)
    txt = " ".join(p.stdout.split())
    res = {"cases": len(terms), "skipped": skipped, "oversize": oversize, "kinds": kinds, "rc": p.returncode, "bad": []}
    if p.returncode != 0:
        res["error"] = p.stdout[-1500:]
    elif "R = []" in txt or "R = nil" in txt:
        pass
    else:
        import re
        m = re.search(r"R = \[(.*?)\]", txt)
        res["bad"] = [int(x) for x in re.findall(r"(\d+)%N|(\d+)", m.group(1)) for x in x if x] if m else [-1]
        res["bad_cases"] = [cases[i][:300] + " => " + outs[i][:300] for i in res["bad"][:5] if 0 <= i < n]
    if selftest:
        res["tampered"] = dict((k, i) for k, i in tampered)
        res["tamper_listed"] = sorted(res["bad"]) == sorted(i for _, i in tampered) and len(tampered) > 0
        res["kinds_not_tampered"] = sorted(set(k for k, g in kinds.items() if g) - set(k for k, _ in tampered))
    print(json.dumps(res))
    return 0


if __name__ == "__main__":
    sys.exit(main())
